"""
Generator for the *transpilable subset* of Fortran used by C35 (Fortran -> C) and
C36 (Fortran -> Python): a bare subroutine ``kern`` (optionally using a module ``tmod`` with a
derived type, module variables and parameters), an untouched driver program, and concrete
input sets (kept as python data so the python oracle can rebuild them as numpy arrays).

Programs are well-defined by construction:
  * every local / intent(out) object is fully assigned before the random part starts,
  * integer values are bounded (stores are wrapped with ``mod``), divisors are non-zero,
  * real values are bounded (stores clamped with ``min(max(..))``), ``sqrt`` / ``exp`` / real
    division only see guarded operands, subexpressions stay below ``REAL_CAP``,
  * subscripts are loop variables ranging over the very dimension they index (with
    offsets only where the loop range was shrunk), or the declared bounds themselves,
  * operands of discontinuous real operations (comparison, ``mod``, 2nd argument of ``sign``)
    are built from ``+ - * /`` on leaves only, so that a last-bit difference of an
    intrinsic cannot flip a branch.
"""
import re
import struct
from dataclasses import dataclass, field

REAL_BOUND = 8.0        # magnitude bound of stored real values
REAL_CAP = 64.0         # magnitude cap of real subexpressions
INT_BOUND = 200         # magnitude bound of stored integer values
INT_CAP = 2 ** 24       # integer subexpressions stay below (exact in double, too)

DEFAULT_FLAGS = dict(
    target='c',             # 'c' | 'py'
    kinds=('real64',),      # real kinds used for variables (first = main kind)
    kind_decl='env',        # 'env' iso_fortran_env names | 'jprb_mod' (jprb from tmod) | 'jprb_local' | 'srk_inline'
    mix_kinds=False,        # real expressions may mix variables of different kinds
    lbounds=True,           # non-unit lower bounds
    rank3=True,
    derived=True,           # derived-type argument (C only)
    globals=True,           # module variables read through getters (C only)
    params=True,            # named constants (local and imported)
    associate=False,
    local_arrays=True,
    vector=True,            # full-range vector notation a(:, :) = ...
    vector_minmax=True,     # elemental min/max on array operands of vector notation
    sections=False,         # explicit sub-ranges a(2:n)
    neg_step=True,
    stride=True,            # |step| == 2
    while_loop=True,
    select=False,
    int_div=True, int_mod=True, int_pow=True, int_intr=True,
    int_dbl_ctx=False,      # ** / abs / min / max / sign allowed inside integer division, mod and subscripts
    int_cast=False,         # int(x)
    mod_in_product=False,   # integer mod(..) as right operand of *
    member_in_mod=False,    # integer mod(..) with a derived-type member among its operands
    real_mod=True, real_pow=True, sign=True, sign_boost=False,
    default_real_lit=False,  # un-suffixed real literals (default kind)
    d_exponent_lit=False,   # 1.5d0
    logical_arrays=True,
    nstmts=7, expr_depth=3,
)


def f32(x):
    return struct.unpack('f', struct.pack('f', x))[0]


@dataclass
class Dim:
    lo: str
    hi: str

    def lov(self, e):
        return eval(self.lo, {}, e)       # pylint: disable=eval-used

    def hiv(self, e):
        return eval(self.hi, {}, e)       # pylint: disable=eval-used

    @property
    def decl(self):
        return self.hi if self.lo == '1' else f'{self.lo}:{self.hi}'

    @property
    def key(self):
        return (self.lo, self.hi)


@dataclass
class Var:
    name: str
    typ: str                  # int | real | log
    kind: str = None
    dims: tuple = ()
    intent: str = None        # in | inout | out | None
    bound: float = 0
    role: str = 'arg'         # arg | size | local | member | global | param | nonzero
    ref: str = None           # text used in expressions (t%ia)
    value: object = None      # for params: literal text

    def __post_init__(self):
        if self.ref is None:
            self.ref = self.name

    @property
    def rank(self):
        return len(self.dims)


@dataclass
class TPCase:
    kernel: str
    tmod: str
    driver: str
    inputs: list              # list of dict name -> value / flat list (Fortran order)
    stdins: list
    args: list                # [(name, typ, kind, intent, [(lo,hi) texts])]
    outputs: list             # [(name, typ, kind, rank)] in print order
    features: set
    tainted: bool             # real64 results may carry single precision
    kindbytes: dict = field(default_factory=dict)


class TPGen:
    def __init__(self, rng, flags=None):
        self.rng = rng
        self.f = dict(DEFAULT_FLAGS)
        self.f.update(flags or {})
        self.py = self.f['target'] == 'py'
        if self.py:
            self.f.update(derived=False, globals=False, associate=False, select=False, int_mod=False,
                          real_mod=False)
        self.features = set()
        self.vars = []
        self.loopvars = {}        # active loop variable name -> (Dim, lo_off, hi_off)
        self.tainted = False
        self.uses_tmod = set()
        self.kindbytes = {}

    # ------------------------------------------------------------------ helpers
    def feat(self, *names):
        self.features.update(names)

    def chance(self, p):
        return self.rng.random() < p

    def kbytes(self, kind):
        return self.kindbytes[kind]

    def kname(self, kind):
        if self.f['kind_decl'] == 'srk_inline' and kind not in ('real32', 'real64'):
            return 'real64' if self.kbytes(kind) == 8 else 'real32'
        return kind

    def lit_suffix(self, kind):
        return f'_{self.kname(kind)}'

    def rlit(self, kind, positive=False):
        rng = self.rng
        v = rng.choice(['0.5', '1.5', '2.0', '0.25', '3.0', '1.0', '0.125', '0.1', '2.7', '0.3', '1.25'])
        if self.f['default_real_lit'] and self.chance(0.6):
            self.feat('default_real_literal')
            t = v
        elif self.f['d_exponent_lit'] and self.kbytes(kind) == 8 and self.chance(0.5):
            self.feat('d_exponent_literal')
            t = v + 'd0'
        else:
            t = v + self.lit_suffix(kind)
        if not positive and self.chance(0.25):
            return f'(-{t})', float(v)
        return t, float(v)

    def kfix(self, t, kind):
        """intrinsics need arguments of one kind: give a bare (default-kind) literal argument the kind suffix"""
        if re.fullmatch(r'\(?-?[0-9]+\.[0-9]+\)?', t.strip()):
            return re.sub(r'([0-9]+\.[0-9]+)', r'\1' + self.lit_suffix(kind), t.strip())
        if self.f['mix_kinds'] and not re.fullmatch(r'\(?-?[0-9]+\.[0-9]+_\w+\)?', t.strip()):
            return f'real({t}, kind={self.kname(kind)})'
        return t

    def rfactor(self, t):
        """text of an integer expression used as right operand of ``*``"""
        if t.strip().startswith('mod(') and _atomic(t.strip()):
            if self.f['mod_in_product']:
                self.feat('int_mod_as_right_factor')
                return t.strip()
            return f'(0 + {t.strip()})'
        return _par(t)

    def ilit(self, nonzero=False):
        v = self.rng.choice([1, 2, 3, 4, 5, 7, 11] if nonzero else [0, 1, 2, 3, 4, 5, 7, 11])
        if self.chance(0.25) and v:
            return f'(-{v})', v
        return str(v), v

    # ------------------------------------------------------------------ leaves
    def readable(self, typ, kind=None, scalar=None):
        out = []
        for v in self.vars:
            if v.typ != typ:
                continue
            if typ == 'real' and kind is not None and v.kind != kind and not self.f['mix_kinds']:
                continue
            if scalar is True and v.rank:
                continue
            if scalar is False and not v.rank:
                continue
            out.append(v)
        return out

    def subscript(self, d, allow_offset=True):
        """an in-bounds subscript text for dimension ``d``"""
        rng = self.rng
        cands = [(lv, info) for lv, info in self.loopvars.items() if info[0].key == d.key]
        if cands and self.chance(0.85):
            lv, (_, lo_off, hi_off) = rng.choice(cands)
            r = rng.random()
            if allow_offset and lo_off > 0 and r < 0.3:
                self.feat('subscript_offset')
                return f'{lv} - 1'
            if allow_offset and hi_off > 0 and r < 0.3:
                self.feat('subscript_offset')
                return f'{lv} + 1'
            if allow_offset and r > 0.9:
                self.feat('subscript_reversed')
                return f'{d.lo} + {d.hi} - {lv}'
            return lv
        return d.lo if self.chance(0.5) else d.hi

    def elem(self, v, allow_offset=True):
        if not v.rank:
            return v.ref
        return f"{v.ref}({', '.join(self.subscript(d, allow_offset) for d in v.dims)})"

    def leaf(self, typ, kind=None):
        """(text, bound) of a readable leaf or None"""
        vs = self.readable(typ, kind)
        if typ == 'int':
            vs = vs + [Var(lv, 'int', bound=8, role='loopvar') for lv in self.loopvars] * 2
        if not vs:
            return None
        v = self.rng.choice(vs)
        if typ == 'real' and kind is not None and v.kind != kind:
            self.feat('mixed_kind_expr')
            if self.kbytes(v.kind) != self.kbytes(kind):
                self.tainted = True
        if v.role in ('member',):
            self.feat('derived_member_read')
        if v.role == 'global':
            self.feat('module_variable_read')
            self.uses_tmod.add(v.name)
        if v.role == 'param':
            self.feat('named_constant')
            if v.value == 'tmod':
                self.uses_tmod.add(v.name)
        return self.elem(v), v.bound

    # ------------------------------------------------------------------ integer expressions
    def int_expr(self, depth, exact=False):
        """(text, bound); ``exact``: inside a context that needs a C integer (division, mod, subscript)"""
        rng, f = self.rng, self.f
        if depth <= 0 or self.chance(0.25):
            lf = self.leaf('int') if self.chance(0.8) else None
            return lf or self.ilit()
        ops = ['add', 'sub', 'mul', 'neg', 'add', 'mul']
        if f['int_div']:
            ops += ['div', 'div']
        if f['int_mod']:
            ops += ['mod', 'mod']
        dbl_ok = (not exact) or f['int_dbl_ctx']
        if f['int_pow'] and dbl_ok:
            ops += ['pow']
        if f['int_intr'] and dbl_ok:
            ops += ['intr', 'intr']
        if f['int_cast']:
            ops += ['cast']
        op = rng.choice(ops)
        a, ba = self.int_expr(depth - 1, exact)
        if op in ('add', 'sub', 'mul'):
            b, bb = self.int_expr(depth - 1, exact)
            nb = ba * bb if op == 'mul' else ba + bb
            if nb >= INT_CAP:
                return a, ba
            if op == 'mul':
                return f'{_par(a)}*{self.rfactor(b)}', nb
            return f"{a} {'+' if op == 'add' else '-'} {_par(b)}", nb
        if op == 'neg':
            return f'(-{_par(a)})', ba
        if op in ('div', 'mod'):
            self.feat('int_div' if op == 'div' else 'int_mod')
            a, ba = self.int_expr(depth - 1, True) if not f['int_dbl_ctx'] else (a, ba)
            nz = [v for v in self.vars if v.role == 'nonzero']
            if nz and self.chance(0.4):
                d, bd = nz[0].ref, 1
                self.feat(f'{op}_by_signed_variable')
            elif self.chance(0.3):
                b, bb = self.int_expr(depth - 1, True)
                d, bd = f'(1 + {_par(b)}*{self.rfactor(b)})', 1
                if bb * bb + 1 >= INT_CAP:
                    d = str(self.ilit(True)[1])
            else:
                d, bd = self.ilit(True)
            if f['int_dbl_ctx'] and ('**' in a or 'abs(' in a or 'max(' in a or 'min(' in a or 'sign(' in a):
                self.feat('double_valued_int_operand_of_div_or_mod')
            if op == 'div' or (_has_member(a + d) and not f['member_in_mod']):
                return f'{_par(a)} / {d}', ba
            if _has_member(a + d):
                self.feat('int_mod_of_derived_member')
            return f'mod({a}, {d})', ba
        if op == 'pow':
            self.feat('int_pow')
            e = rng.choice([2, 2, 3])
            if ba ** e >= INT_CAP:
                return a, ba
            return f'{_atom(a)}**{e}', ba ** e
        if op == 'intr':
            fn = rng.choice(['max', 'min', 'abs'] + (['sign'] * (5 if f['sign_boost'] else 1) if f['sign'] else []))
            self.feat(f'int_{fn}')
            if fn == 'abs':
                return f'abs({a})', ba
            b, bb = self.int_expr(depth - 1, exact)
            if fn == 'sign':
                return f'sign({a}, {b})', ba
            return f'{fn}({a}, {b})', max(ba, bb)
        if op == 'cast':
            self.feat('int_cast')
            k = self.f['kinds'][0]
            r, br = self.real_expr(k, depth - 1, safe=True)
            return f'int({r})', int(br) + 1
        return a, ba

    # ------------------------------------------------------------------ real expressions
    def real_expr(self, kind, depth, safe=False):
        """(text, bound) of a real expression of (at least) kind ``kind``"""
        rng, f = self.rng, self.f
        if depth <= 0 or self.chance(0.22):
            lf = self.leaf('real', kind) if self.chance(0.8) else None
            return lf or self.rlit(kind)
        ops = ['add', 'sub', 'mul', 'div', 'neg', 'add', 'mul', 'conv', 'imix']
        if not safe:
            ops += ['intr', 'intr', 'intr']
            if f['real_pow']:
                ops += ['pow']
            if f['real_mod']:
                ops += ['mod']
        op = rng.choice(ops)
        a, ba = self.real_expr(kind, depth - 1, safe)
        if op in ('add', 'sub', 'mul'):
            b, bb = self.real_expr(kind, depth - 1, safe)
            nb = ba * bb if op == 'mul' else ba + bb
            if nb > REAL_CAP:
                return a, ba
            if op == 'mul':
                return f'{_par(a)}*{_par(b)}', nb
            return f"{a} {'+' if op == 'add' else '-'} {_par(b)}", nb
        if op == 'neg':
            return f'(-{_par(a)})', ba
        if op == 'div':
            self.feat('real_div')
            if self.chance(0.5):
                d, bd = self.rlit(kind)
                if ba / bd > REAL_CAP:
                    return a, ba
                return f'{_par(a)} / {d}', ba / bd
            if safe:
                b, bb = self.real_expr(kind, depth - 1, True)
                if bb * bb + 1 > REAL_CAP:
                    return a, ba
                return f'{_par(a)} / (1.0{self.lit_suffix(kind)} + {_par(b)}*{_par(b)})', ba
            b, bb = self.real_expr(kind, depth - 1)
            return f'{_par(a)} / (1.0{self.lit_suffix(kind)} + abs({b}))', ba
        if op == 'conv':
            self.feat('real_cast')
            i, bi = self.int_expr(depth - 1)
            if bi > REAL_CAP:
                if self.f['int_mod'] and not _has_dbl(i) and not _has_member(i):
                    i, bi = f'mod({i}, 16)', 16
                else:
                    i, bi = self.ilit()
            return f'real({i}, kind={self.kname(kind)})', bi
        if op == 'imix':
            self.feat('int_real_mixed')
            i, bi = self.int_expr(min(depth - 1, 1))
            if bi * ba > REAL_CAP:
                return a, ba
            return f'{_par(a)}*{self.rfactor(i)}', ba * bi
        if op == 'pow':
            self.feat('real_pow')
            r = rng.random()
            if r < 0.6:
                e = rng.choice([2, 2, 3])
                if ba ** e > REAL_CAP:
                    return a, ba
                return f'{_atom(a)}**{e}', ba ** e
            lit = rng.choice(['0.5', '1.5', '2.0'])
            if (1 + ba) ** float(lit) > REAL_CAP:
                return a, ba
            self.feat('real_pow_real_exponent')
            return f'(1.0{self.lit_suffix(kind)} + abs({a}))**{lit}{self.lit_suffix(kind)}', (1 + ba) ** float(lit)
        if op == 'mod':
            self.feat('real_mod')
            x, bx = self.real_expr(kind, min(depth - 1, 1), safe=True)
            d, bd = self.rlit(kind, positive=self.chance(0.7))
            return f'mod({self.kfix(x, kind)}, {self.kfix(d, kind)})', min(bx, bd)
        if op == 'intr':
            fns = ['sqrt', 'exp', 'abs', 'min', 'max', 'min', 'max']
            if f['sign']:
                fns += ['sign'] * (6 if f['sign_boost'] else 1)
            fn = rng.choice(fns)
            self.feat(f'real_{fn}')
            if fn == 'sqrt':
                if self.chance(0.3):
                    lf = self.leaf('real', kind)
                    if lf:
                        return f'sqrt(abs({lf[0]}))', max(1.0, lf[1])
                c = rng.choice(['0.25', '1.0', '2.0'])
                return f'sqrt(abs({a}) + {c}{self.lit_suffix(kind)})', max(1.0, ba + 2.0)
            if fn == 'exp':
                if self.chance(0.5):
                    return f'exp(-abs({a}))', 1.0
                return f'exp(min({self.kfix(a, kind)}, 3.0{self.lit_suffix(kind)}))', 20.1
            if fn == 'abs':
                return f'abs({a})', ba
            if fn == 'sign':
                b, bb = self.real_expr(kind, min(depth - 1, 1), safe=True)
                return f'sign({self.kfix(a, kind)}, {self.kfix(b, kind)})', ba
            b, bb = self.real_expr(kind, depth - 1)
            return f'{fn}({self.kfix(a, kind)}, {self.kfix(b, kind)})', max(ba, bb)
        return a, ba

    # ------------------------------------------------------------------ logical expressions
    def log_expr(self, depth):
        rng = self.rng
        op = rng.choice(['icmp', 'icmp', 'rcmp', 'and', 'or', 'not', 'lvar', 'eqv', 'neqv'])
        if depth <= 0 and op in ('and', 'or', 'not', 'eqv', 'neqv'):
            op = 'icmp'
        if op == 'lvar':
            lf = self.leaf('log')
            if lf:
                return lf[0]
            op = 'icmp'
        if op == 'icmp':
            a, _ = self.int_expr(max(depth - 1, 0))
            b, _ = self.int_expr(max(depth - 1, 0))
            return f"{a} {rng.choice(['==', '/=', '<', '<=', '>', '>='])} {b}"
        if op == 'rcmp':
            self.feat('real_compare')
            k = rng.choice(self.f['kinds'])
            a, _ = self.real_expr(k, max(depth - 1, 0), safe=True)
            b, _ = self.real_expr(k, max(depth - 1, 0), safe=True)
            return f"{a} {rng.choice(['<', '<=', '>', '>='])} {b}"
        if op == 'not':
            return f'.not. ({self.log_expr(depth - 1)})'
        a, b = self.log_expr(depth - 1), self.log_expr(depth - 1)
        self.feat('logical_' + op)
        return f"({a}) {'.' + op + '.'} ({b})"

    # ------------------------------------------------------------------ statements
    def store(self, v, text, bound):
        """wrap expression so that the stored value respects the variable's bound"""
        if v.typ == 'int':
            if bound > v.bound:
                if self.f['int_mod'] and (self.f['int_dbl_ctx'] or not _has_dbl(text)) \
                        and (self.f['member_in_mod'] or not _has_member(text)):
                    self.feat('int_mod')
                    return f'mod({text}, {int(v.bound) - 1})'
                p = int(v.bound) - 1
                return f'max(min({text}, {p}), -{p})'
            return text
        if v.typ == 'real':
            if bound > v.bound:
                s = self.lit_suffix(v.kind)
                return f'min(max({self.kfix(text, v.kind)}, -{v.bound}{s}), {v.bound}{s})'
        return text

    def rhs(self, v, depth=None):
        depth = self.f['expr_depth'] if depth is None else depth
        if v.typ == 'int':
            t, b = self.int_expr(depth)
        elif v.typ == 'real':
            t, b = self.real_expr(v.kind, depth)
        else:
            return self.log_expr(min(depth, 2))
        return self.store(v, t, b)

    def writable(self, scalar=None):
        out = []
        for v in self.vars:
            if v.role in ('size', 'global', 'param', 'nonzero') or v.intent == 'in':
                continue
            if scalar is True and v.rank:
                continue
            if scalar is False and not v.rank:
                continue
            out.append(v)
        return out

    def stmt_assign(self, ind, scalar=None):
        ws = self.writable(scalar)
        v = self.rng.choice(ws)
        if v.role == 'member':
            self.feat('derived_member_write')
        lhs = self.elem(v, allow_offset=False)
        return [f'{ind}{lhs} = {self.rhs(v)}']

    def free_loopvar(self):
        for lv in ('i', 'j', 'k'):
            if lv not in self.loopvars:
                return lv
        return None

    def stmt_loop(self, ind, depth):
        rng, f = self.rng, self.f
        arrs = [v for v in self.vars if v.rank]
        target = rng.choice([v for v in arrs if v in self.writable(False)] or arrs)
        dims = list(target.dims)
        rng.shuffle(dims)
        ndeep = rng.randint(1, len(dims))
        opened = []
        lines = []
        cur = ind
        for d in dims[:ndeep]:
            lv = self.free_loopvar()
            if lv is None or any(i[0].key == d.key for i in self.loopvars.values()):
                continue
            lo_off = 1 if self.chance(0.25) else 0
            hi_off = 1 if (not lo_off and self.chance(0.15)) else 0
            lo_t = d.lo if not lo_off else _plus(d.lo, 1)
            hi_t = d.hi if not hi_off else _plus(d.hi, -1)
            r = rng.random()
            if f['neg_step'] and r < 0.3:
                step = -2 if (f['stride'] and self.chance(0.3)) else -1
                hdr = f'do {lv} = {hi_t}, {lo_t}, {step}'
                self.feat('loop_negative_step')
            elif f['stride'] and r < 0.45:
                step = 2
                hdr = f'do {lv} = {lo_t}, {hi_t}, 2'
            else:
                step = 1
                hdr = f'do {lv} = {lo_t}, {hi_t}' + (', 1' if self.chance(0.1) else '')
            if abs(step) == 2:
                self.feat('loop_stride_2')
            if lo_off or hi_off:
                self.feat('loop_shrunk_range')
            lines.append(f'{cur}{hdr}')
            self.loopvars[lv] = (d, lo_off, hi_off)
            opened.append((lv, cur))
            cur += '  '
        if not opened:
            return self.stmt_assign(ind)
        self.feat(f'loop_nest_{len(opened)}')
        for _ in range(rng.randint(1, 3)):
            r = rng.random()
            if r < 0.6:
                lines.append(f'{cur}{self.elem(target, allow_offset=False)} = {self.rhs(target)}')
            elif r < 0.8 and depth > 0:
                lines += self.stmt_if(cur, depth - 1)
            elif r < 0.9 and depth > 0 and self.free_loopvar():
                lines += self.stmt_loop(cur, depth - 1)
            else:
                lines += self.stmt_accumulate(cur)
        for lv, c in reversed(opened):
            lines.append(f'{c}end do')
            del self.loopvars[lv]
        return lines

    def stmt_accumulate(self, ind):
        ws = [v for v in self.writable(True) if v.typ in ('int', 'real')]
        if not ws:
            return self.stmt_assign(ind)
        v = self.rng.choice(ws)
        self.feat('scalar_accumulation')
        if v.typ == 'int':
            t, b = self.int_expr(2)
            return [f'{ind}{v.ref} = {self.store(v, f"{v.ref} + {_par(t)}", v.bound + b)}']
        t, b = self.real_expr(v.kind, 2)
        return [f'{ind}{v.ref} = {self.store(v, f"{v.ref} + {_par(t)}", v.bound + b)}']

    def stmt_if(self, ind, depth):
        rng = self.rng
        if self.chance(0.2):
            self.feat('inline_if')
            s = self.stmt_assign('')[0]
            return [f'{ind}if ({self.log_expr(1)}) {s}']
        lines = [f'{ind}if ({self.log_expr(2)}) then']
        lines += self.block(ind + '  ', depth, rng.randint(1, 2))
        if self.chance(0.4):
            self.feat('else_if')
            lines.append(f'{ind}else if ({self.log_expr(1)}) then')
            lines += self.block(ind + '  ', depth, rng.randint(1, 2))
        if self.chance(0.6):
            lines.append(f'{ind}else')
            lines += self.block(ind + '  ', depth, rng.randint(1, 2))
        lines.append(f'{ind}end if')
        self.feat('conditional')
        return lines

    def stmt_while(self, ind, depth):
        cnt = next((v for v in self.vars if v.name == 'tw'), None)
        if cnt is None or getattr(self, '_in_while', False):
            return self.stmt_assign(ind)
        self._in_while = True
        self.feat('while_loop')
        lim, _ = self.ilit()
        lines = [f'{ind}tw = 0', f'{ind}do while (tw < {lim})']
        saved = [v for v in self.vars if v.name == 'tw']
        self.vars = [v for v in self.vars if v.name != 'tw']
        lines += self.block(ind + '  ', min(depth, 1), self.rng.randint(1, 2), allow_while=False)
        self.vars += saved
        lines += [f'{ind}  tw = tw + 1', f'{ind}end do']
        self._in_while = False
        return lines

    def stmt_vector(self, ind):
        """full-range (or sub-range) vector notation assignment"""
        rng = self.rng
        arrs = [v for v in self.writable(False) if v.typ != 'log']
        if not arrs or self.loopvars:
            return self.stmt_assign(ind)
        v = rng.choice(arrs)
        self.feat('vector_notation')
        same = [w for w in self.vars if w.rank == v.rank and w.typ == v.typ and w is not v
                and [d.key for d in w.dims] == [d.key for d in v.dims]
                and (w.kind == v.kind or self.f['mix_kinds'])]
        saved, self.vars = self.vars, [w for w in self.vars if not w.rank]
        try:
            if v.typ == 'int':
                t, b = self.int_expr(2)
            else:
                t, b = self.real_expr(v.kind, 2)
        finally:
            self.vars = saved
        rngs = ', '.join(':' for _ in v.dims)
        if self.f['sections'] and self.chance(0.7):
            self.feat('array_section')
            parts = []
            for d in v.dims:
                r = rng.random()
                parts.append(':' if r < 0.3 else (f'{_plus(d.lo, 1)}:{d.hi}' if r < 0.65 else f'{d.lo}:{_plus(d.hi, -1)}'))
            rngs = ', '.join(parts)
        src = None
        if same and self.chance(0.6):
            src = rng.choice(same)
            self.feat('vector_notation_array_rhs')
        elif self.chance(0.3):
            src = v
            self.feat('vector_notation_self_rhs')
        if src is None:
            return [f'{ind}{v.ref}({rngs}) = {self.store(v, t, b)}']
        if self.f['vector_minmax']:
            self.feat('vector_notation_elemental_minmax')
            return [f'{ind}{v.ref}({rngs}) = {self.store(v, f"{src.ref}({rngs}) + {_par(t)}", src.bound + b)}']
        # no elemental intrinsic on the array operand: keep the bound by scaling
        if v.typ == 'int':
            return [f"{ind}{v.ref}({rngs}) = {rng.choice(['', '-'])}{src.ref}({rngs})"]
        sfx = self.lit_suffix(v.kind)
        c = rng.choice(['0.5', '(-0.5)', '0.25']).replace('5', '5' + sfx)
        return [f'{ind}{v.ref}({rngs}) = {src.ref}({rngs})*{c} + {_par(self.store(v, t, b + v.bound))}*0.5{sfx}']

    def stmt_select(self, ind, depth):
        self.feat('select_case')
        sel, _ = self.int_expr(1, exact=True)
        if _has_member(sel) and not self.f['member_in_mod']:
            sel = 'k1'
        lines = [f'{ind}select case (mod({sel}, 5))']
        for c in self.rng.sample(['(0)', '(1, 2)', '(-2:-1)', '(3:4)', '(-4, -3)'], self.rng.randint(1, 3)):
            lines.append(f'{ind}case {c}')
            lines += self.block(ind + '  ', 0, 1)
        if self.chance(0.6):
            lines.append(f'{ind}case default')
            lines += self.block(ind + '  ', 0, 1)
        lines.append(f'{ind}end select')
        return lines

    def block(self, ind, depth, n, allow_while=True):
        f, rng = self.f, self.rng
        lines = []
        for _ in range(n):
            r = rng.random()
            if depth > 0 and r < 0.3:
                lines += self.stmt_loop(ind, depth - 1)
            elif depth > 0 and r < 0.45:
                lines += self.stmt_if(ind, depth - 1)
            elif r < 0.55 and f['vector']:
                lines += self.stmt_vector(ind)
            elif r < 0.62 and f['while_loop'] and allow_while and depth > 0 and not self.loopvars:
                lines += self.stmt_while(ind, depth - 1)
            elif r < 0.68 and f['select'] and depth > 0:
                lines += self.stmt_select(ind, depth - 1)
            elif r < 0.78:
                lines += self.stmt_accumulate(ind)
            else:
                lines += self.stmt_assign(ind)
        return lines

    # ------------------------------------------------------------------ program
    def pick_dims(self, rank):
        f, rng = self.f, self.rng
        pool = [Dim('1', 'n'), Dim('1', 'm'), Dim('1', 'n'), Dim('1', 'm'), Dim('1', '3')]
        if f['lbounds']:
            pool += [Dim('lo', 'n'), Dim('0', 'm'), Dim('-1', '1'), Dim('0', 'n'), Dim('2', 'n + 1')]
        dims = []
        while len(dims) < rank:
            d = rng.choice(pool)
            if d.key not in [x.key for x in dims]:
                dims.append(d)
        if any(d.lo != '1' for d in dims):
            self.feat('nonunit_lower_bound')
        return tuple(dims)

    def setup(self):
        f, rng = self.f, self.rng
        kinds = list(f['kinds'])
        for k in kinds:
            self.kindbytes[k] = 4 if k in ('real32', 'jprm', 'sp') else 8
        self.feat(*[f'kind_{k}' for k in kinds], f"kind_decl_{f['kind_decl']}")
        V = self.vars.append
        V(Var('n', 'int', intent='in', bound=6, role='size'))
        V(Var('m', 'int', intent='in', bound=6, role='size'))
        if f['lbounds']:
            V(Var('lo', 'int', intent='in', bound=2, role='size'))
        V(Var('k1', 'int', intent='in', bound=20))
        V(Var('kd', 'int', intent='in', bound=9, role='nonzero'))
        for q, k in enumerate(kinds):
            V(Var(f'x{q + 1}', 'real', kind=k, intent='in', bound=REAL_BOUND))
        V(Var('l1', 'log', intent='in'))
        # arrays
        narr = rng.randint(2, 4)
        types = ['int', 'real', 'real'] + [rng.choice(['int', 'real', 'log' if f['logical_arrays'] else 'real'])]
        for q in range(narr):
            typ = types[q]
            rank = rng.choice([1, 1, 2, 2, 3] if f['rank3'] else [1, 1, 2])
            kind = rng.choice(kinds) if typ == 'real' else None
            if typ == 'real' and q == 1:
                kind = kinds[0]
            intent = rng.choice(['inout', 'inout', 'out', 'in'])
            if q == 0:
                intent = 'inout'
            name = {'int': 'ia', 'real': 'ra', 'log': 'la'}[typ] + str(q)
            self.feat(f'array_rank_{rank}', f'array_{typ}', f'array_intent_{intent}')
            V(Var(name, typ, kind=kind, dims=self.pick_dims(rank), intent=intent,
                  bound=INT_BOUND if typ == 'int' else REAL_BOUND))
        # scalar results
        V(Var('io', 'int', intent='out', bound=INT_BOUND))
        V(Var('jo', 'int', intent='inout', bound=INT_BOUND))
        V(Var('ro', 'real', kind=kinds[0], intent='out', bound=REAL_BOUND))
        V(Var('so', 'real', kind=kinds[-1], intent='inout', bound=REAL_BOUND))
        V(Var('lq', 'log', intent='out'))
        if f['derived']:
            self.feat('derived_type_argument')
            V(Var('ia', 'int', role='member', ref='t%ia', bound=INT_BOUND))
            V(Var('rb', 'real', kind='real32', role='member', ref='t%rb', bound=REAL_BOUND))
            V(Var('rc', 'real', kind='real64', role='member', ref='t%rc', bound=REAL_BOUND))
            for k in ('real32', 'real64'):
                self.kindbytes.setdefault(k, 4 if k == 'real32' else 8)
        if f['globals']:
            V(Var('gi', 'int', role='global', bound=20))
            V(Var('gr', 'real', kind='real64', role='global', bound=REAL_BOUND))
            self.kindbytes.setdefault('real64', 8)
        if f['params']:
            V(Var('pl', 'int', role='param', bound=3, value='3'))
            V(Var('pr', 'real', kind=kinds[0], role='param', bound=2.5, value=f'2.5_{kinds[0]}'))
            if f['derived'] or f['globals']:
                V(Var('pm', 'int', role='param', bound=4, value='tmod'))
        # locals
        V(Var('ti', 'int', role='local', bound=INT_BOUND))
        V(Var('tw', 'int', role='local', bound=INT_BOUND))
        V(Var('tr', 'real', kind=kinds[0], role='local', bound=REAL_BOUND))
        if f['local_arrays']:
            self.feat('local_array')
            V(Var('wr', 'real', kind=kinds[0], dims=self.pick_dims(rng.choice([1, 2])), role='local',
                  bound=REAL_BOUND))
            if self.chance(0.5):
                V(Var('wi', 'int', dims=self.pick_dims(1), role='local', bound=INT_BOUND))

    def tname(self, v):
        if v.typ == 'int':
            return 'integer'
        if v.typ == 'log':
            return 'logical'
        if self.f['kind_decl'] == 'srk_inline' and self.kbytes(v.kind) == 8 and v.kind not in ('real32', 'real64'):
            return 'real(kind=selected_real_kind(13, 300))'
        return f'real(kind={v.kind})'

    def decl(self, v):
        t = self.tname(v)
        if v.role == 'param':
            return f'  {t}, parameter :: {v.name} = {v.value}'.replace('_' + str(v.kind), self.lit_suffix(v.kind) if v.kind else '')
        if v.intent:
            t += f', intent({v.intent})'
        dims = f"({', '.join(d.decl for d in v.dims)})" if v.rank else ''
        return f'  {t} :: {v.name}{dims}'

    def init_block(self):
        """assign every intent(out) / local object completely, using only inputs"""
        lines = []
        todo = [v for v in self.vars if (v.intent == 'out' or v.role == 'local')]
        done = [v for v in self.vars if v not in todo]
        allv = self.vars
        for v in todo:
            self.vars = list(done)
            if not v.rank:
                lines.append(f'  {v.ref} = {self.rhs(v, 1)}')
            elif self.f['vector'] and self.chance(0.4) and v.typ != 'log':
                self.feat('vector_notation', 'vector_notation_init')
                self.vars = [w for w in done if not w.rank]
                rngs = ', '.join(':' for _ in v.dims)
                lines.append(f'  {v.ref}({rngs}) = {self.rhs(v, 1)}')
            else:
                order = list(range(v.rank))
                if self.chance(0.3):
                    self.rng.shuffle(order)
                lvs = ['i', 'j', 'k']
                ind = '  '
                for q in reversed(order):
                    d = v.dims[q]
                    lines.append(f'{ind}do {lvs[q]} = {d.lo}, {d.hi}')
                    self.loopvars[lvs[q]] = (d, 0, 0)
                    ind += '  '
                sub = ', '.join(lvs[q] for q in range(v.rank))
                lines.append(f'{ind}{v.ref}({sub}) = {self.rhs(v, 2)}')
                for q in order:
                    ind = ind[:-2]
                    lines.append(f'{ind}end do')
                self.loopvars.clear()
            done.append(v)
        self.vars = allv
        return lines

    def generate(self):
        f, rng = self.f, self.rng
        self.setup()
        args = [v for v in self.vars if v.intent]
        argnames = [v.name for v in args]
        if f['derived']:
            pos = rng.randint(0, len(argnames))
            argnames.insert(pos, 't')
        body = self.init_block()
        if f['associate'] and f['derived']:
            self.feat('associate')
            for v in self.vars:
                if v.role == 'member' and v.name in ('ia', 'rc'):
                    v.ref = 'as_' + v.name
            inner = self.block('    ', 2, f['nstmts'])
            body += ['  associate(as_ia => t%ia, as_rc => t%rc)'] + inner + ['  end associate']
            for v in self.vars:
                if v.role == 'member':
                    v.ref = 't%' + v.name
        else:
            body += self.block('  ', 2, f['nstmts'])
        # --- kernel text
        kinds = list(f['kinds'])
        envk = sorted({k for k in self.kindbytes if k in ('real32', 'real64')
                       and (k in kinds or any(v.kind == k for v in self.vars))}
                      | ({self.kname(k) for k in kinds} if f['kind_decl'] == 'srk_inline' else set()))
        spec = []
        if envk:
            spec.append(f"  use iso_fortran_env, only: {', '.join(envk)}")
        timports = []
        if f['derived']:
            timports.append('ttype')
        timports += sorted(self.uses_tmod)
        custom = [k for k in kinds if k not in ('real32', 'real64')]
        if custom and f['kind_decl'] == 'jprb_mod':
            timports += custom
        if timports:
            spec.append(f"  use tmod, only: {', '.join(timports)}")
        spec.append('  implicit none')
        if custom and f['kind_decl'] == 'jprb_local':
            for k in custom:
                srk = '13, 300' if self.kbytes(k) == 8 else '6, 37'
                spec.append(f'  integer, parameter :: {k} = selected_real_kind({srk})')
        declared = [v for v in self.vars if v.role in ('arg', 'size', 'nonzero') or v.intent]
        for v in declared:
            spec.append(self.decl(v))
        if f['derived']:
            spec.append('  type(ttype), intent(inout) :: t')
        for v in self.vars:
            if v.role == 'param' and v.value != 'tmod':
                spec.append(self.decl(v))
            elif v.role == 'local':
                spec.append(self.decl(v))
        spec.append('  integer :: i, j, k')
        kernel = (f"subroutine kern({', '.join(argnames)})\n" + '\n'.join(spec) + '\n' + '\n'.join(body)
                  + '\nend subroutine kern\n')
        need_tmod = bool(timports)
        tmod = self.tmod_text(custom) if need_tmod else ''
        inputs = [self.make_inputs(q) for q in range(4)]
        driver, outputs = self.driver_text(argnames, need_tmod, custom)
        stdins = [f'{len(inputs)}\n' + ''.join(self.stdin_text(inp) for inp in inputs)]
        argmeta = []
        for a in argnames:
            if a == 't':
                argmeta.append(('t', 'derived', None, 'inout', []))
                continue
            v = next(x for x in self.vars if x.name == a)
            argmeta.append((v.name, v.typ, v.kind, v.intent, [(d.lo, d.hi) for d in v.dims]))
        tainted = self.tainted or getattr(self, 'tainted_lit', False)
        return TPCase(kernel=kernel, tmod=tmod, driver=driver, inputs=inputs, stdins=stdins, args=argmeta,
                      outputs=outputs, features=self.features, tainted=tainted, kindbytes=dict(self.kindbytes))

    def tmod_text(self, custom):
        lines = ['module tmod', '  use iso_fortran_env, only: real32, real64', '  implicit none']
        for k in custom:
            srk = '13, 300' if self.kbytes(k) == 8 else '6, 37'
            lines.append(f'  integer, parameter :: {k} = selected_real_kind({srk})')
        lines.append('  integer, parameter :: pm = 4')
        lines += ['  type ttype', '    integer :: ia', '    real(kind=real32) :: rb', '    real(kind=real64) :: rc',
                  '  end type ttype']
        lines += ['  integer :: gi', '  real(kind=real64) :: gr']
        lines.append('end module tmod\n')
        return '\n'.join(lines)

    # ------------------------------------------------------------------ inputs
    def rval(self, kind, q):
        rng = self.rng
        special32 = [1.0 + 2.0 ** -23, 1.0 - 2.0 ** -24, 2.0 + 2.0 ** -22, 1.1920929e-07, -1.0 - 2.0 ** -23, 0.1, -0.3,
                     3.0000002384185791, 7.9999995]
        special64 = [1.0 + 2.0 ** -30, 0.1, -0.3, 1.0 + 2.0 ** -52, 2.0 / 3.0, -1.0 - 2.0 ** -29, 1e-9, 5.000000001]
        r = rng.random()
        if r < 0.3:
            x = rng.choice(special32 if self.kbytes(kind) == 4 else special64 + special32)
        elif r < 0.5:
            x = rng.randint(-16, 16) / 4.0
        else:
            x = rng.uniform(-REAL_BOUND + 0.5, REAL_BOUND - 0.5)
            if rng.random() < 0.3:
                x = x / 64.0
        return f32(x) if self.kbytes(kind) == 4 else x

    def make_inputs(self, q):
        rng = self.rng
        inp = {}
        n = [1, 3, rng.randint(2, 5), rng.randint(1, 5)][q]
        m = [rng.randint(2, 4), 1, rng.randint(2, 5), rng.randint(1, 5)][q]
        env = {'n': n, 'm': m, 'lo': rng.choice([-2, -1, 0, 1])}
        inp['n'], inp['m'] = n, m
        if self.f['lbounds']:
            inp['lo'] = env['lo']
        for v in self.vars:
            if v.role in ('size', 'param', 'local') or v.intent == 'out':
                continue
            if v.rank:
                size = 1
                for d in v.dims:
                    size *= d.hiv(env) - d.lov(env) + 1
            if v.typ == 'int':
                gen = (lambda b=v.bound: rng.randint(-20, 20)) if v.role != 'nonzero' else \
                    (lambda: rng.choice([-7, -3, -2, -1, 1, 2, 3, 5, 9]))
            elif v.typ == 'real':
                gen = lambda k=v.kind: self.rval(k, q)      # noqa: E731
            else:
                gen = lambda: rng.random() < 0.5            # noqa: E731
            inp[v.ref] = [gen() for _ in range(size)] if v.rank else gen()
        return inp

    def stdin_text(self, inp):
        def fmt(x):
            if isinstance(x, bool):
                return 'T' if x else 'F'
            if isinstance(x, float):
                return repr(x)
            return str(x)
        lines = []
        for name, val in inp.items():
            if isinstance(val, list):
                lines.append(' '.join(fmt(x) for x in val) if val else '')
            else:
                lines.append(fmt(val))
        return '\n'.join(lines) + '\n'

    def driver_text(self, argnames, need_tmod, custom):
        f = self.f
        L = ['program drv', '#ifdef USE_FC', '  use kern_fc_mod, only: kern => kern_fc', '#else',
             '  use kmod, only: kern', '#endif']
        L.append('  use iso_fortran_env, only: real32, real64')
        if need_tmod:
            L.append('  use tmod')
        L.append('  implicit none')
        if custom and not need_tmod:
            for k in custom:
                srk = '13, 300' if self.kbytes(k) == 8 else '6, 37'
                L.append(f'  integer, parameter :: {k} = selected_real_kind({srk})')
        decl_vars = [v for v in self.vars if v.intent]
        for v in decl_vars:
            t = {'int': 'integer', 'log': 'logical'}.get(v.typ) or f'real(kind={v.kind})'
            if v.rank:
                L.append(f"  {t}, allocatable :: {v.name}({', '.join(':' for _ in v.dims)})")
            else:
                L.append(f'  {t} :: {v.name}')
        if f['derived']:
            L.append('  type(ttype) :: t')
        L.append('  integer :: q, iset, nsets')
        L.append('  read(*,*) nsets')
        L.append('  do iset = 1, nsets')
        L.append("  write(*,'(A,1X,I0)') '=== i', iset")
        # read in the order of the inputs dict: n, m, lo, then vars in self.vars order (skipping out/local/param)
        L.append('  read(*,*) n')
        L.append('  read(*,*) m')
        if f['lbounds']:
            L.append('  read(*,*) lo')
        for v in decl_vars:
            if v.rank:
                L.append(f"  allocate({v.name}({', '.join(d.lo + ':' + d.hi for d in v.dims)}))")
        for v in self.vars:
            if v.role in ('size', 'param', 'local'):
                continue
            if v.intent == 'out':
                continue
            L.append(f'  read(*,*) {v.ref}')
        # poison intent(out) objects identically in both runs
        for v in decl_vars:
            if v.intent == 'out':
                val = {'int': '-777', 'log': '.false.'}.get(v.typ) or f'-777.0_{v.kind}'
                L.append(f'  {v.name} = {val}')
        L.append(f"  call kern({', '.join(argnames)})")
        outputs = []
        for v in self.vars:
            if not (v.intent in ('inout', 'out') or v.role == 'member' or (v.intent == 'in' and v.rank)):
                continue
            tag = {'int': 'i', 'log': 'l'}.get(v.typ) or ('f' if self.kbytes(v.kind) == 4 else 'd')
            fmt = {'i': 'I0', 'l': 'L1', 'f': 'ES16.8E3', 'd': 'ES25.16E3'}[tag]
            nm = v.ref.replace('%', '.')
            if v.rank:
                L.append(f"  call p{tag}('{nm}', reshape({v.name}, [size({v.name})]))")
            else:
                L.append(f"  write(*,'(A,1X,{fmt})') '{nm} {tag}', {v.ref}")
            outputs.append((nm, v.typ, v.kind, v.rank))
        for v in decl_vars:
            if v.rank:
                L.append(f'  deallocate({v.name})')
        L.append('  end do')
        L.append('contains')
        for tag, t, fmt in (('i', 'integer', 'I0'), ('l', 'logical', 'L1'), ('f', 'real(kind=real32)', 'ES16.8E3'),
                            ('d', 'real(kind=real64)', 'ES25.16E3')):
            L += [f'  subroutine p{tag}(nm, x)', '    character(len=*), intent(in) :: nm',
                  f'    {t}, intent(in) :: x(:)', '    integer :: q', '    do q = 1, size(x)',
                  f"      write(*,'(A,1X,{fmt})') nm // ' {tag}', x(q)", '    end do', f'  end subroutine p{tag}']
        L.append('end program drv\n')
        return '\n'.join(L), outputs


def _has_member(t):
    return 't%' in t or 'as_ia' in t or 'as_rc' in t


def _has_dbl(t):
    return any(w in t for w in ('**', 'abs(', 'max(', 'min(', 'sign(', 'int('))


def _atomic(t):
    depth = 0
    for ch in t:
        if ch == '(':
            depth += 1
        elif ch == ')':
            depth -= 1
        elif depth == 0 and ch in '+-*/ <>=':
            return False
    return True


def _par(t):
    """parenthesise unless atomic"""
    t = t.strip()
    if _atomic(t):
        return t
    return f'({t})'


def _atom(t):
    t = t.strip()
    if t.replace('_', '').isalnum():
        return t
    if t.startswith('(') and t.endswith(')') and _atomic(t):
        return t
    return f'({t})'


def _plus(t, c):
    """text of t + c for a bound text t"""
    t = t.strip()
    try:
        return str(int(t) + c)
    except ValueError:
        pass
    if t.endswith('+ 1') and c == -1:
        return t[:-3].strip()
    return f'{t} + {c}' if c > 0 else f'{t} - {-c}'
