"""C24 -- planning mode predicts exactly the files a conversion writes.

Differential monitor: two identical copies of a generated project; copy A is processed in
``ProcessingStrategy.PLAN`` and the CMake plan file parsed, copy B is converted for real
(``SEQUENCE``) with the same configuration and pipeline while an audit hook and a directory
snapshot record the files that are written.  Plan lists and observed writes are compared as
sets (global and per library); on a sample the build that follows the plan
(originals - REMOVE + APPEND) is compiled, linked and run with gfortran.
"""
# pylint: disable=too-many-locals,too-many-branches,too-many-statements
import os
import shutil
from pathlib import Path

from vlib import schedlab as L
from vlib import planlab as PL
from vlib.core import sighash

PID = 'C24'
LEVEL = 'exploration'
TECHNIQUE = ('differential execution (PLAN vs. SEQUENCE on twin project copies) with an audit-hook write log, '
             'directory snapshots and a gfortran build that follows the plan')
LEVEL_TEXT = ('Random multi-file projects x configurations (driver/kernel roles, replicate, lib, mode, output_dir or '
              'in-place, relative or absolute paths, root path) x pipelines of DuplicateKernel(+-subgraph) / RemoveKernel / '
              'ModuleWrapTransformation / DependencyTransformation + FileWriteTransformation, one third through the '
              'loki_transform plan/convert commands (click CliRunner, in-process): SOURCES_TO_APPEND must equal the files '
              'the conversion really wrote, SOURCES_TO_TRANSFORM the originals they derive from, SOURCES_TO_REMOVE the '
              'replaced, non-replicated originals; per-library lists must partition the global ones; every third project '
              'is built from originals - REMOVE + APPEND and its run output compared with the model.')
LEVEL_NOTE = ('Projects stay inside the documented domain of the build-system transformations (module and free '
              'subroutines/functions, qualified imports, interface blocks, internal procedures, module variables); '
              'constructs with a known finding are generated in small gated slices only. Which original a written file '
              'derives from is decided from the file name (stem + mode) and the generator ground truth.')
RULE = ('schedlab project (5-12 routines + dedicated free driver routines, one unit per file) written twice; config with '
        'implicit driver seeds, replicate/lib/mode entries; pipeline drawn from 7 shapes (write, dep, wrap+dep, dup, rem, '
        'dup+rem, dup[+wrap]+dep); API (2/3) or CLI (1/3); 20 of every 64 cases are gated slices (one known-defect '
        'construct each, key gated:<construct>). Non-trivial = plan and conversion both completed, the conversion wrote '
        '>= 2 files and the plan lists >= 2 files; distinct = hash of sources + config + pipeline + path style.')
CASES = {'quick': 108, 'thorough': 1500}
MIN_NONTRIVIAL = {'quick': 50, 'thorough': 700}
ANCHORS = ['loki/transformations/build_system/plan.py', 'loki/transformations/build_system/file_write.py',
           'loki/batch/scheduler.py', 'loki/cli/loki_transform.py', 'loki/transformations/dependency.py']
REQUIRED_REACH = ['plan_file', 'write_plan', 'transform_file', '_get_file_path', 'process_transformation', 'convert',
                  'plan_subroutine']
REQUIRED_COUNTERS = {'plans_compared': 40, 'files_written_observed': 150, 'cli_cases': 10, 'plan_builds': 8,
                     'per_lib_lists_checked': 10, 'origin_sets_checked': 30}
ASSUMPTIONS = ['files opened for writing below the project copy (audit hook "open", cross-checked with a directory '
               'snapshot diff) are the files the conversion writes; the plan file itself is excluded',
               'gfortran -O0 -fcheck=all is the reference for "compiles and links"',
               'drivers are roots of the call graph; duplicated / removed kernels are plain subroutines that are not seeds']
BUDGET_S = {'quick': 400, 'thorough': 3000}
CASE_TIMEOUT_S = 300

SHAPES = ['write', 'dep', 'wrapdep', 'dup', 'rem', 'duprem', 'dupdep', 'dupdep']


def setup_worker(tier, ctx):
    from loki import config as loki_config   # pylint: disable=import-outside-toplevel
    loki_config['log-level'] = 'error'
    PL.WriteAudit.get()


# gated slices (positions 1, 4, 7, ... of idx % 64): constructs with a known finding or outside the documented domain of the transformations
GATES = ['types', 'full_features', 'called_from_internal', 'intf_block', 'multi_unit_file', 'lists',
         'same_basename', 'sibling_caller', 'function_in_subgraph', 'module_level_import', 'mixed_role_module',
         'unused_imports', 'rem_then_rename', 'dup_free_then_wrap', 'dup_intf_then_rename', 'kernel_module_globals',
         'internal_calls', 'internal_in_subgraph', 'non_procedure_in_subgraph', 'bare_external_wrap']


def pick_gate(idx):
    if os.environ.get('C2425_NOGATES'):
        return None
    if os.environ.get('C2425_GATE'):
        return os.environ['C2425_GATE']
    if os.environ.get('C2425_ONLYGATES'):
        return GATES[idx % len(GATES)]
    # one case in three of a 64-cycle is a gated slice; every gate occupies one position of the cycle
    r = idx % 64
    if r % 3 == 1 and r // 3 < len(GATES):
        return GATES[r // 3]
    return None


def gen_case(rng, idx):
    """project, config, pipeline spec, path style; returns dict or None"""
    gate = pick_gate(idx)
    traits = set()
    extra = {}
    if gate == 'types':
        extra.update({'types': True, 'nested_types': True})
        traits.add('types')
    if gate == 'full_features':
        extra.update({k: True for k in PL.CORE_FLAGS})
        traits.add('full_features')
    all_intf = gate != 'bare_external_wrap'
    if gate == 'unused_imports':
        extra['unused_imports'] = True
    if gate == 'module_level_import':
        extra['module_level_imports'] = True
    P = PL.gen_project(rng, rng.randint(5, 12), extra, all_intf=all_intf,
                       internal_calls=gate in ('internal_calls', 'full_features', 'called_from_internal'),
                       kernel_module_globals=gate in ('kernel_module_globals', 'full_features'),
                       multi_unit_files=gate in ('multi_unit_file', 'full_features'))
    if any(len(u) > 1 for _, u in P.files):
        traits.add('multi_unit_file')
    if gate == 'kernel_module_globals':
        traits.add('kernel_module_globals')
    if 'unused_subroutine_import' in P.features:
        traits.add('unused_imports')
    if any(m.uses for m in P.modules.values()):
        traits.add('module_level_import')
    if any(calls for p in P.procs for _, calls in p.internals):
        traits.add('internal_calls')
    drivers = None
    if gate not in ('mixed_role_module', 'full_features'):
        drivers = PL.add_drivers(P, rng)
    cfg, meta = PL.gen_config(rng, P, {'lists': gate == 'lists', 'expand_false': gate == 'lists',
                                       'kernel_seed': rng.random() < 0.2, 'drivers': drivers,
                                       'replicate_closed': rng.random() < 0.5,
                                       'mixed_role_module': gate in ('mixed_role_module', 'full_features')})
    if cfg is None:
        return None
    traits |= meta['traits']
    exp = L.reference_closure(P.truth(), cfg, None)
    shape = rng.choice(SHAPES)
    if gate in ('rem_then_rename', 'full_features') and rng.random() < 0.8:
        shape = 'all'
    if gate in ('dup_free_then_wrap', 'dup_intf_then_rename'):
        shape = 'dupdep'
    allow = {gate} if gate else set()
    if gate == 'full_features':
        allow |= {'dup_local_name', 'module_level_import', 'function_in_subgraph', 'non_procedure_in_subgraph'}
    spec, info = PL.choose_pipeline(rng, P, exp, meta, shape, allow)
    traits |= info['traits']
    if info['rem'] and any(n in ('dep', 'wrap') for n, _ in spec):
        traits.add('rem_then_rename')
    if not all_intf and any(n == 'wrap' for n, _ in spec) and PL.has_bare_external_calls(P, exp):
        traits.add('bare_external_wrap')
    wopts = {}
    if cfg['default']['enable_imports'] and rng.random() < 0.7:
        wopts['include_module_var_imports'] = True
    if rng.random() < 0.2:
        wopts['suffix'] = rng.choice(['.F90', '.f90'])
    spec.append(('write', wopts))
    paths = {'output_dir': rng.random() < 0.6, 'relative': rng.random() < 0.2, 'rootpath': rng.random() < 0.6,
             'via': 'cli' if idx % 3 == 0 else 'api', 'plan_full_parse': rng.random() < 0.3}
    if gate == 'same_basename' and len(P.files) >= 2:
        # two files with the same base name in different directories, flattened into one output directory
        i, j = rng.sample(range(len(P.files)), 2)
        di, _, bi = P.files[i][0].rpartition('/')
        dj = P.files[j][0].rpartition('/')[0]
        if di == dj:
            dj = 'subx' if di != 'subx' else 'suby'
        P.files[j] = (f'{dj}/{bi}', P.files[j][1])
        P.compile_order()
        paths['output_dir'] = True
        traits.add('same_basename')
    return {'P': P, 'cfg': cfg, 'meta': meta, 'spec': spec, 'paths': paths, 'gates': sorted(traits), 'shape': shape,
            'gate': gate if traits else None,
            'exp': exp, 'dupk': info['dup'], 'remk': info['rem']}


def run_plan_or_convert(base, copy_name, case, plan):
    """Run the pipeline on one copy.  Returns (error or None, plan text or None)."""
    from loki.batch import Scheduler, SchedulerConfig, ProcessingStrategy   # pylint: disable=import-outside-toplevel
    paths = case['paths']
    root = base / copy_name
    src, out = root / 'src', root / 'build'
    cwd = os.getcwd()
    plan_file = base / f'plan_{copy_name}.cmake'
    mode = case['cfg']['default']['mode']
    try:
        if paths['relative']:
            os.chdir(root)
            a_src, a_out, a_root = 'src', 'build', '.'
        else:
            a_src, a_out, a_root = str(src), str(out), str(root)
        if paths['via'] == 'cli':
            from click.testing import CliRunner   # pylint: disable=import-outside-toplevel
            from loki.cli.loki_transform import cli   # pylint: disable=import-outside-toplevel
            cfile = base / f'config_{copy_name}.toml'
            cfile.write_text(PL.toml_config(case['cfg'], case['spec'], mode))
            args = ['plan' if plan else 'convert', f'--mode={mode}', f'--config={cfile}', '--frontend=fp',
                    f'--source={a_src}', '--log-level=error']
            if paths['output_dir']:
                args.append(f'--build={a_out}')
            if paths['rootpath']:
                args.append(f'--root={a_root}')
            if plan:
                args.append(f'--plan-file={plan_file}')
            res = CliRunner().invoke(cli, args)
            if res.exit_code != 0:
                if res.exception is not None and not isinstance(res.exception, SystemExit):
                    return PL.loki_frame(res.exception) + ': ' + str(res.exception)[:300], None
                return f'exit code {res.exit_code}: {res.output[-300:]}', None
        else:
            cfg = SchedulerConfig.from_dict(__import__('copy').deepcopy(case['cfg']))
            strat = ProcessingStrategy.PLAN if plan else ProcessingStrategy.SEQUENCE
            full = paths['plan_full_parse'] if plan else True
            sched = Scheduler(paths=[Path(a_src)], config=cfg, full_parse=full,
                              output_dir=a_out if paths['output_dir'] else None)
            for t in PL.instantiate(case['spec']):
                sched.process(t, proc_strategy=strat)
            if plan:
                sched.write_cmake_plan(plan_file, rootpath=a_root if paths['rootpath'] else None)
        return None, (plan_file.read_text() if plan else None)
    except Exception as e:  # pylint: disable=broad-except
        return PL.loki_frame(e) + ': ' + str(e)[:300], None
    finally:
        os.chdir(cwd)


def norm(p, root, to_root=None):
    """absolute normalised path of a plan entry (relative entries are relative to ``root``)"""
    p = Path(p)
    if not p.is_absolute():
        p = Path(root) / p
    s = os.path.normpath(str(p))
    if to_root is not None:
        s = s.replace(str(root), str(to_root), 1)
    return s


def origin_of(written, case, originals):
    """original file (relative to src) a written file derives from, and whether it is a duplicate"""
    mode = case['cfg']['default']['mode'].replace('-', '_')
    name = Path(written).name
    parts = name.split('.')
    if len(parts) < 3 or parts[-2] != mode:
        return None, False
    stem = '.'.join(parts[:-2])
    hits = [o for o in originals if Path(o).name.rsplit('.', 1)[0] == stem]
    if len(hits) == 1:
        return hits[0], False
    if len(hits) > 1:
        return hits, False
    where, _ = PL.file_of(case['P'])
    for name_, opts in case['spec']:
        if name_ != 'dup':
            continue
        for suf in (opts['duplicate_module_suffix'] or opts['duplicate_suffix'], opts['duplicate_suffix']):
            if stem.endswith(suf):
                basename = stem[:-len(suf)]
                for q, rp in where.items():
                    if q == basename or q == f'#{basename}':
                        return rp, True
    return None, True


COARSE = {'pipeline-fails-in-both-modes': 'pipeline-fails', 'plan-fails': 'pipeline-fails', 'convert-fails': 'pipeline-fails',
          'both-fails': 'pipeline-fails', 'plan-build-fails': 'build', 'plan-build-run-fails': 'build',
          'plan-build-output-differs': 'build', 'stale-original-kept': 'build'}


def pipe_key(case):
    """the transformations of the pipeline (without options) as a key component"""
    return '+'.join(n for n, _ in case['spec'] if n != 'write') or 'write-only'


def append_detail(case, files):
    """which kind of file is on one side only: the duplicate, the removed kernel's file, another file"""
    kinds = set()
    where, _ = PL.file_of(case['P'])
    remf = Path(where.get(case['remk'], '')).name.rsplit('.', 1)[0] if case['remk'] else None
    for f in files:
        stem = Path(f).name.split('.')[0]
        if remf and stem == remf:
            kinds.add('file-of-removed-kernel')
        elif any(n == 'dup' and (stem.endswith(o['duplicate_suffix']) or stem.endswith(o['duplicate_module_suffix'] or '\0'))
                 for n, o in case['spec']):
            kinds.add('duplicate')
        else:
            kinds.add('other')
    return '+'.join(sorted(kinds)) + ':' + pipe_key(case)


def build_detail(detail):
    import re   # pylint: disable=import-outside-toplevel
    if 'defined in no file' in detail:
        return 'module-missing'
    if 'multiple definition' in detail or 'already being used' in detail or 'is already defined' in detail:
        return 'unit-defined-twice'
    if 'undefined reference' in detail:
        return 'undefined-reference'
    m = re.search(r'Error: (.{0,60})', detail)
    if m:
        return 'compile-error-' + re.sub(r'[^A-Za-z ]+', '', m.group(1)).strip().replace(' ', '-')[:40]
    return 'other'


def run_case(idx, rng, tier, ctx):
    res = {'sig': f'skip{idx}', 'nontrivial': False, 'violations': [], 'inconclusive': None, 'features': [],
           'counters': {}}
    cnt = res['counters']

    def bump(k, n=1):
        cnt[k] = cnt.get(k, 0) + n
    case = gen_case(rng, idx)
    if case is None:
        res['features'] = ['skipped:no-root']
        return res
    P, cfg, spec, paths = case['P'], case['cfg'], case['spec'], case['paths']
    base = ctx['scratch'] / f'c{idx}'
    shutil.rmtree(base, ignore_errors=True)
    texts = None
    for c in 'ab':
        texts = P.write(base / c / 'src')
        (base / c / 'build').mkdir()
    res['sig'] = sighash([texts, cfg, spec, paths])
    feats = {f'shape:{case["shape"]}', f'via:{paths["via"]}', 'outdir' if paths['output_dir'] else 'inplace',
             'relative' if paths['relative'] else 'absolute', 'root' if paths['rootpath'] else 'noroot'}
    feats |= {f'gate:{g}' for g in case['gates']} | {f't:{n}' for n, _ in spec}
    if cfg['default']['replicate']:
        feats.add('replicate_default')
    if case['meta']['replicated']:
        feats.add('replicate_item')
    if case['meta']['libs'] or 'lib' in cfg['default']:
        feats.add('libs')
    res['features'] = sorted(feats)
    witness = {'config': cfg, 'pipeline': spec, 'paths': paths, 'sources': texts, 'gates': case['gates']}
    gate = case['gate']
    if case['gates'] and not gate:
        res['inconclusive'] = f'generator defect: gated constructs {case["gates"]} outside a gated slice'
        return res

    def viol(kind, detail, msg):
        """precise mechanism key in the documented domain; coarse outcome class per gate inside a gated slice"""
        key = f'gated:{gate}' if gate else (f'{kind}:{detail}' if detail else kind)
        if gate:
            msg = f'[{COARSE.get(kind.split(":")[0], "lists-differ")}: {kind}:{detail}] {msg}'
        if not any(v['key'] == key for v in res['violations']):
            res['violations'].append({'key': key, 'msg': msg[:900], 'witness': witness})

    # copy A: plan
    err_a, plan_text = run_plan_or_convert(base, 'a', case, True)
    # copy B: real conversion under observation
    audit = PL.WriteAudit.get()
    before = PL.snapshot(base / 'b')
    audit.start()
    err_b, _ = run_plan_or_convert(base, 'b', case, False)
    events = audit.stop()
    after = PL.snapshot(base / 'b')
    broot = str(base / 'b')
    hook_written = {os.path.normpath(e) for e in events if os.path.normpath(e).startswith(broot + os.sep)}
    snap_written = {p for p in after if after[p] != before.get(p)}
    bump('audit_open_events', len(events))
    try:
        if hook_written != snap_written:
            # the two observers disagree: the observation is unreliable for this case
            res['inconclusive'] = (f'audit hook and snapshot disagree: hook only {sorted(hook_written - snap_written)[:3]}, '
                                   f'snapshot only {sorted(snap_written - hook_written)[:3]}')
            return res
        written = snap_written
        bump('files_written_observed', len(written))
        if err_a or err_b:
            stage = 'both' if (err_a and err_b) else ('plan' if err_a else 'convert')
            e = (err_a or err_b)
            ekey = e.split(':')[0] + ':' + e.split(':')[1] if ':' in e else e
            if err_a and err_b and err_a.split(': ')[0] == err_b.split(': ')[0]:
                # the same failure in both modes: the pipeline is not applicable to this project (not a plan defect)
                feats.add('pipeline-fails-in-both-modes')
                bump('pipeline_fails_both')
                viol('pipeline-fails-in-both-modes', ekey, f'plan: {err_a} / convert: {err_b}')
            else:
                viol(f'{stage}-fails', ekey, f'plan: {err_a} / convert: {err_b}')
            res['features'] = sorted(feats)
            return res
        plan = PL.parse_plan(plan_text)
        bump('plans_compared')
        aroot = base / 'a'
        rel_root = aroot   # relative plan entries: relative to the root path / cwd of the run (= copy root)
        lists = {}
        for k, v in plan.items():
            lists[k] = [norm(x, rel_root, base / 'b') if not Path(x).is_absolute()
                        else os.path.normpath(x).replace(str(aroot), broot, 1) for x in v]
        app = lists.get('LOKI_SOURCES_TO_APPEND', [])
        tra = lists.get('LOKI_SOURCES_TO_TRANSFORM', [])
        rem = lists.get('LOKI_SOURCES_TO_REMOVE', [])
        originals = sorted(str(Path(broot) / 'src' / rp) for rp in texts)

        def rels(paths_):
            return sorted(os.path.relpath(p, broot) for p in paths_)
        # 1. APPEND == written
        if set(app) != written:
            only_plan, only_real = set(app) - written, written - set(app)
            what = 'planned-not-written' if only_plan and not only_real else (
                'written-not-planned' if only_real and not only_plan else 'both-sides-differ')
            viol(f'append:{what}', append_detail(case, only_plan | only_real),
                 f'planned only: {rels(only_plan)}; written only: {rels(only_real)}')
        if len(app) != len(set(app)):
            dups = sorted({os.path.relpath(p, broot) for p in app if app.count(p) > 1})
            viol('append-lists-a-file-twice', '', f'{dups}')
        # 2./3. TRANSFORM and REMOVE against the origin of the written files
        exp_tra, exp_rem, unknown = set(), set(), []
        where, _ = PL.file_of(P)
        exp = case['exp']
        rep_files = set()
        for q in case['meta']['replicated']:
            if q in exp.nodes and where.get(q):
                rep_files.add(where[q])
        for w in sorted(written):
            o, is_dup = origin_of(w, case, list(texts))
            if o is None or isinstance(o, list):
                unknown.append(os.path.relpath(w, broot))
                continue
            op = str(Path(broot) / 'src' / o)
            exp_tra.add(op)
            if not is_dup and not cfg['default']['replicate'] and o not in rep_files:
                exp_rem.add(op)
        if unknown and 'same_basename' not in case['gates']:
            viol('written-file-of-unknown-origin', '', f'{unknown}')
        elif set(app) == written and not unknown:
            bump('origin_sets_checked')
            if set(tra) != exp_tra:
                viol('transform-list-differs', ('missing' if exp_tra - set(tra) else 'extra') + ':' + pipe_key(case),
                     f'missing: {rels(exp_tra - set(tra))}; extra: {rels(set(tra) - exp_tra)}')
            if set(rem) != exp_rem:
                viol('remove-list-differs', ('missing' if exp_rem - set(rem) else 'extra') + ':' + pipe_key(case),
                     f'missing: {rels(exp_rem - set(rem))}; extra: {rels(set(rem) - exp_rem)}; '
                     f'replicated files: {sorted(rep_files)}')
            if not set(rem) <= set(originals) or not set(tra) <= set(originals):
                viol('lists-name-non-original-files', '',
                     f'{rels((set(rem) | set(tra)) - set(originals))}')
        # 4. per-library lists: partition of the global lists
        for kind in ('TRANSFORM', 'APPEND', 'REMOVE'):
            glob = lists.get(f'LOKI_SOURCES_TO_{kind}', [])
            per = {k[len(f'LOKI_SOURCES_TO_{kind}_'):]: v for k, v in lists.items()
                   if k.startswith(f'LOKI_SOURCES_TO_{kind}_')}
            if per:
                bump('per_lib_lists_checked')
                union = [x for v in per.values() for x in v]
                if not set(union) <= set(glob):
                    viol('per-lib-entry-missing-from-global', kind, f'{rels(set(union) - set(glob))}')
                two = sorted(x for x in set(union) if sum(1 for v in per.values() if x in v) > 1)
                if two:
                    viol('file-in-two-libs', kind, f'{rels(two)}') if kind != 'TRANSFORM' else None
                if 'lib' in cfg['default'] and set(union) != set(glob):
                    viol('default-lib-file-missing-from-lib-lists', kind, f'{rels(set(glob) - set(union))}')
                known_libs = {v.replace('.', '_') for v in case['meta']['libs'].values()}
                if 'lib' in cfg['default']:
                    known_libs.add(cfg['default']['lib'].replace('.', '_'))
                if not set(per) <= known_libs:
                    viol('list-for-unknown-lib', kind, f'{sorted(set(per) - known_libs)}')
        res['nontrivial'] = len(written) >= 2 and len(app) >= 2
        if paths['via'] == 'cli':
            bump('cli_cases')
        res['sample'] = {'shape': case['shape'], 'pipeline': [n for n, _ in spec], 'via': paths['via'],
                         'append': rels(app)[:6], 'written': rels(written)[:6], 'remove': rels(rem)[:6]}
        # 5. the build that follows the plan
        buildable = (P.compilable and not case['meta']['lists'] and set(app) == written and idx % 3 != 2
                     and 'same_basename' not in case['gates'])
        drivers = set(case['meta']['driver_seeds'])
        if buildable and (cfg['default']['replicate'] or any(where.get(d) in rep_files for d in drivers)):
            buildable = False   # a replicated driver is compiled twice by construction of the configuration
        if buildable and case['meta']['replicated'] and not case['meta']['replicate_closed']:
            buildable = False   # a retained original may call kernels whose originals are replaced
        if buildable and case['meta']['replicated'] and not any(n == 'dep' for n, _ in spec):
            buildable = False   # without renaming a replicated kernel is defined twice by construction
        if buildable and any(n in ('dep', 'wrap') for n, _ in spec) and set(case['meta']['seeds']) != drivers:
            buildable = False   # seeds without role driver are renamed: the fixed driver program cannot call them
        if buildable:
            bump('plan_builds')
            drv = P.driver_source(seeds=drivers)
            processed = {n for n, k in exp.nodes.items() if k == 'ProcedureItem'}
            ref = PL.build_and_run(base / 'ref', PL.project_texts(PL.behaviour_edit(P, processed, spec)), drv)
            if ref['status'] == 'timeout':
                res['inconclusive'] = 'timeout: ' + ref['detail']
                return res
            if ref['status'] != 'ok':
                res['inconclusive'] = 'generator defect: reference project does not build/run: ' + ref['detail'][:300]
                return res
            required = {a: Path(a).read_text() for a in app}
            optional = {o: Path(o).read_text() for o in originals if o not in set(rem)}
            # nothing stale: a retained, non-replicated original must not define a unit that a generated file defines
            gen_names = set()
            for t in required.values():
                gen_names |= PL.top_level_names(t)
            for o, t in optional.items():
                if os.path.relpath(o, str(Path(broot) / 'src')) not in rep_files and PL.top_level_names(t) & gen_names:
                    viol('stale-original-kept', pipe_key(case),
                         f'{os.path.relpath(o, broot)} stays in the build and defines '
                         f'{sorted(PL.top_level_names(t) & gen_names)} like a generated file')
            got = PL.build_and_run(base / 'planbuild', required, drv, optional)
            if got['status'] == 'timeout':
                res['inconclusive'] = 'timeout: ' + got['detail']
                return res
            if got['status'] == 'build_fail':
                viol('plan-build-fails', build_detail(got['detail']) + ':' + pipe_key(case), got['detail'])
            elif got['status'] == 'run_fail':
                viol('plan-build-run-fails', pipe_key(case), got['detail'])
            elif got['out'] != ref['out']:
                viol('plan-build-output-differs', pipe_key(case),
                     f'expected {ref["out"].split()} got {got["out"].split()}')
            else:
                bump('plan_builds_equal')
    finally:
        if not os.environ.get('C2425_KEEP'):
            shutil.rmtree(base, ignore_errors=True)
    return res
