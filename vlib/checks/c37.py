"""C37 -- SCC pipelines preserve driver/kernel results (differential execution through the real Scheduler)."""
# pylint: disable=broad-except,too-many-locals,too-many-branches
import re
import shutil
from vlib import scclab

PID = 'C37'
LEVEL = 'exploration'
TECHNIQUE = 'differential execution of generated driver/kernel call trees, original vs SCC-transformed'
LEVEL_TEXT = ('every generated IFS-style call tree is pushed through the real Scheduler with an SCC pipeline and '
              'FileWriteTransformation; original and transformed projects are compiled with the same untouched main '
              'program (gfortran -fcheck=all, ASan/UBSan, FPE traps; accelerator directives are comments) and run on '
              '4 input sets; any exception, build failure, run-time report or differing output is a violation')
LEVEL_NOTE = ('gfortran 12 -O0 with run-time checks is the reference semantics; generator keeps to input the pipelines '
              'document as supported (independent columns, Dimension-named bounds, horizontal dimension first); '
              'reals compared to rtol 1e-11')
RULE = ('generated call trees (driver with block loop -> 1-2 top kernels -> nested kernels, depth 1-3) with horizontal '
        'sections, vertical recurrences, demotable and non-demotable temporaries of rank 1-3 and 4 kinds, branch-'
        'dependent nested calls; each tree is transformed by 2 pipelines drawn from SCC{V,S}Vector, SCC{V,S}Hoist, '
        'SCC{V,S}Stack (+ slices: RawStack, StackFtrPtr, StackDirectIdx) with random directive / trim / demote / '
        'check_bounds / vertical options. Non-trivial = the pipeline changed the IR of at least one routine and '
        'original and transformed program both ran on all inputs; distinct = hash of project text + pipeline spec.')
CASES = {'quick': 48, 'thorough': 640}
MIN_NONTRIVIAL = {'quick': 24, 'thorough': 320}
ANCHORS = ['loki/transformations/single_column/scc.py', 'loki/transformations/single_column/base.py',
           'loki/transformations/single_column/devector.py', 'loki/transformations/single_column/demote.py',
           'loki/transformations/single_column/revector.py', 'loki/transformations/single_column/annotate.py',
           'loki/transformations/single_column/hoist.py', 'loki/transformations/single_column/vertical.py']
REQUIRED_REACH = ['process_kernel', 'process_driver', 'extract_vector_sections', 'get_locals_to_demote',
                  'wrap_vector_section', 'annotate_driver_loop', 'driver_variable_declaration']
REQUIRED_COUNTERS = {'program_runs': 40, 'pipelines_applied': 20}
ASSUMPTIONS = ['gfortran 12 -O0 -fcheck=all + ASan/UBSan is the reference semantics; !$acc / !$omp / !$loki are comments',
               'generated programs are well-defined by construction (original must build and run clean, else the '
               'case is inconclusive)',
               'columns are independent and statements without horizontal index are idempotent (the documented SCC '
               'input contract), so re-ordering across the horizontal is legal',
               'kind module parkind1 belongs to the input project and is disabled in the scheduler config; '
               'int_kind of the index-stack variants is set to a kind the kernels import']
BUDGET_S = {'quick': 3000, 'thorough': 9000}
CASE_TIMEOUT_S = 1500

H = {'horizontal': '@horizontal', 'block_dim': '@block_dim'}

# rotation of pipeline pairs over case indices (idx % 16).  Slot options gate generator features / options with
# a known finding into small slices so that they are still observed but cannot mask other violations:
#   posargs   hoisting with as_kwarguments=False on calls that carry keyword arguments (always the case after the
#             sequential revector stage, which adds ``jl=jl``); everywhere else as_kwarguments=True is used for
#             the sequential hoist pipeline and keyword calls are not combined with positional hoisting
#   dirnone   directive=None passed explicitly (documented value) to the first pipeline of the slot
#   drvsec    horizontal loops in the driver's block loop together with an IFS-style block loop whose body
#             computes the block index and the upper bound (untrimmed driver vector sections)
ROT = [
    ('SCCVVectorPipeline', 'SCCSVectorPipeline', ()),
    ('SCCVHoistPipeline', 'SCCVStackPipeline', ()),
    ('SCCSVectorPipeline', 'SCCSStackPipeline', ()),
    ('SCCVVectorPipeline', 'SCCSHoistPipeline', ('posargs',)),
    ('SCCVStackPipeline', 'SCCSStackPipeline', ()),
    ('SCCVHoistPipeline', 'SCCSVectorPipeline', ()),
    ('SCCVVectorPipeline', 'SCCVRawStackPipeline', ()),
    ('SCCSHoistPipeline', 'SCCVStackPipeline', ()),
    ('SCCVVectorPipeline', 'SCCSVectorPipeline', ('drvsec',)),
    ('SCCVHoistPipeline', 'SCCSStackPipeline', ()),
    ('SCCSVectorPipeline', 'SCCVStackFtrPtrPipeline', ()),
    ('SCCVVectorPipeline', 'SCCVHoistPipeline', ('dirnone',)),
    ('SCCSStackPipeline', 'SCCVStackDirectIdxPipeline', ()),
    ('SCCSHoistPipeline', 'SCCVVectorPipeline', ()),
    ('SCCVStackPipeline', 'SCCSRawStackPipeline', ()),
    ('SCCSVectorPipeline', 'SCCVHoistPipeline', ()),
]


def family(name):
    m = re.match(r'SCC([VS])(\w+)Pipeline', name)
    return f'{m.group(2).lower()}-{"vec" if m.group(1) == "V" else "seq"}'


def case_plan(rng, idx):
    r = idx % 16
    n1, n2, opts = ROT[r]
    flags = {
        'names': rng.choice('AB'),
        'depth': rng.choice([1, 2, 2, 2, 3]),
        'n_temps': rng.choice([3, 5, 6]),
        'vector_notation': rng.random() < 0.35,
        'ifs_block_loop': rng.random() < 0.25,
        'keyword_calls': rng.random() < 0.25,
        'two_modules': rng.random() < 0.3,
        'alias_names': rng.random() < 0.4,
        'driver_sections': rng.random() < 0.6,
        'horizontal_outer': rng.random() < 0.7,
        'max_stmts': rng.choice([2, 3, 4]),
    }
    if 'drvsec' in opts:
        flags['ifs_block_loop'] = flags['driver_sections'] = True
    elif flags['ifs_block_loop']:
        flags['driver_sections'] = False
    specs = []
    for name in (n1, n2):
        kw = dict(H)
        d = rng.choice(['omit', 'openacc', 'openacc', 'omp-gpu'])
        if d != 'omit':
            kw['directive'] = d
        if 'dirnone' in opts and name == n1:
            kw['directive'] = None
        if rng.random() < 0.3 and 'drvsec' not in opts:
            kw['trim_vector_sections'] = True
        if rng.random() < 0.2:
            kw['demote_local_arrays'] = False
        if rng.random() < 0.4:
            kw['vertical'] = '@vertical'
        if 'Stack' in name:
            kw['check_bounds'] = rng.random() < 0.75
            kw['int_kind'] = 'jpim'
        if 'Hoist' in name:
            if 'posargs' in opts:
                kw['as_kwarguments'] = False
            elif name.startswith('SCCS') or flags['keyword_calls']:
                kw['as_kwarguments'] = True
            else:
                kw['as_kwarguments'] = rng.random() < 0.4
        if 'RawStack' in name and not name.startswith('SCCS'):
            flags['keyword_calls'] = False     # positional stack arguments on calls with keywords: slot 14
        if 'RawStack' in name:
            # raw stack does not import kinds into the driver (known finding, observed in C38's slot 'rawkind'): the
            # driver imports every kind itself, also in the sequential slot 14
            flags['driver_all_kinds'] = True
        specs.append({'name': name, 'family': family(name), 'steps': [(name, kw)],
                      'shim_contiguous': 'FtrPtr' in name or 'DirectIdx' in name})
    return flags, specs


def run_case(idx, rng, tier, ctx):
    from vlib.sccfind import diagnose
    flags, specs = case_plan(rng, idx)
    case, sig = scclab.gen_case(rng, flags)
    res = {'sig': scclab.sighash([sig] + [repr(s['steps']) for s in specs]), 'nontrivial': False, 'violations': [],
           'inconclusive': None, 'features': sorted(case.features) + ['pipeline:' + s['name'] for s in specs],
           'counters': {'program_runs': 0, 'pipelines_applied': 0, 'sanitizer_builds': 0, 'routines_changed': 0}}
    wd = ctx['scratch'] / f'c{idx}'
    shutil.rmtree(wd, ignore_errors=True)
    try:
        scclab.write_project(case, wd / 'src')
        ref = scclab.Reference(case, wd)
        res['counters']['sanitizer_builds'] += 1
        if ref.bad:
            res['inconclusive'] = ('timeout: ' if ref.timeout else 'generator defect: ') + ref.bad[:300]
            return res
        res['counters']['program_runs'] += len(ref.runs)
        ok, pending = 0, []
        for s in specs:
            out = scclab.run_spec(case, ref, wd, s, res['counters'])
            for v in out['violations']:
                v['key'] = diagnose(PID, s, case, out, v)
                res['violations'].append(v)
            if out['inconclusive']:
                pending.append(out['inconclusive'])
            if out['nontrivial']:
                ok += 1
        res['nontrivial'] = ok > 0
        if pending and not res['violations'] and ok == 0:
            # (the harness drops the violations of an inconclusive case: only a case without any verdict is one)
            res['inconclusive'] = pending[0]
        res['counters']['specs_without_verdict'] = len(pending)
        res['sample'] = {'pipelines': [s['name'] for s in specs], 'kernels': case.kernels,
                         'lines': sum(len(t.splitlines()) for t in case.files.values()),
                         'features': sorted(case.features)[:12]}
    finally:
        shutil.rmtree(wd, ignore_errors=True)
    return res
