"""
E8 -- well-formedness monitor for Loki program units (DESIGN.md 2.10).

Given a :any:`Sourcefile` (or single program units) *after* a transformation:

(a) every typed symbol found by an *independent* walk over all dataclass fields of IR nodes and all
    ``init_arg_names`` of expression nodes (never Loki's visitors / ``FindVariables`` / ``AttachScopes``) has a
    ``scope`` that is the unit it occurs in, one of the unit's ancestors, or a scoped node (Associate, TypeDef,
    StatementFunction) lexically inside the unit -- never a scope of another unit, a detached scoped node or a dead
    weak reference; scoped nodes and contained units hang in the chain of the scope that lexically encloses them.
(b) every variable name used is declared in the unit, imported, host-associated, an associate name of an enclosing
    ASSOCIATE, a derived-type member of such a variable, or (in function-reference position) an intrinsic / known
    procedure.  Declarations and imports are read from the IR nodes, not from the symbol tables.
(c) ``fgen`` output re-parses with the fparser frontend.
(d) ``gfortran -fsyntax-only`` accepts it with the ``.mod`` files of its dependencies present.

Public API::

    issues, stats = check_ir(sourcefile_or_units, known_procedures=(), modules=())      # (a) + (b)
    ok, detail = check_reparse(text, definitions=None)                                   # (c)
    ok, detail = check_compile(workdir, name, text, incdirs=())                         # (d)
    prepare_modules(workdir, sources)       # compile dependency modules (syntax only) so that .mod files exist

An issue is ``{'kind': 'scope'|'chain'|'undeclared', 'key': <narrow class>, 'unit': name, 'symbol': name,
'where': node class, 'msg': text}``.
"""
import dataclasses
import re
from pathlib import Path

from vlib import diffexec

INTRINSICS = frozenset('''
abs achar acos acosh adjustl adjustr aimag aint all allocated anint any asin asinh associated atan atan2 atanh
bessel_j0 bessel_j1 bessel_jn bessel_y0 bessel_y1 bessel_yn bit_size btest ceiling char cmplx command_argument_count
conjg cos cosh count cpu_time cshift date_and_time dble digits dim dot_product dprod eoshift epsilon erf erfc
erfc_scaled exp exponent floor fraction gamma huge hypot iachar iand ibclr ibits ibset ichar ieor index int ior
is_contiguous is_iostat_end is_iostat_eor ishft ishftc kind lbound leadz len len_trim lge lgt lle llt log log10
log_gamma logical matmul max maxexponent maxloc maxval merge min minexponent minloc minval mod modulo move_alloc
mvbits nearest new_line nint norm2 not null pack parity popcnt poppar precision present product radix random_number
random_seed range real repeat reshape rrspacing scale scan selected_char_kind selected_int_kind selected_real_kind
set_exponent shape sign sin sinh size spacing spread sqrt storage_size sum system_clock tan tanh tiny trailz transfer
transpose trim ubound unpack verify float dfloat sngl idint ifix iabs dabs dsqrt dexp dlog dlog10 dsin dcos dtan
dasin dacos datan datan2 dsinh dcosh dtanh amax0 amax1 amin0 amin1 max0 max1 min0 min1 dmax1 dmin1 amod dmod isign
dsign idim ddim dint dnint idnint loc sizeof c_loc c_funloc c_associated c_f_pointer c_f_procpointer c_sizeof
get_command_argument get_command get_environment_variable execute_command_line exit abort flush
ieee_is_nan ieee_is_finite ieee_value ieee_set_halting_mode ieee_get_halting_mode ieee_selected_real_kind
acosd asind atand cosd sind tand cotan isnan
'''.split())

_SKIP_NODE_FIELDS = {'source', '_source', 'label_source', 'symbol_attrs', 'parent', 'rescope_symbols'}
_SKIP_EXPR_FIELDS = {'scope', 'type', 'case_sensitive', 'source', 'name'}


def _is_expr(x):
    return hasattr(x, 'init_arg_names')


def _is_typed_symbol(x):
    # TypedSymbol (VariableSymbol) and MetaSymbol (Scalar, Array, DeferredTypeSymbol, ProcedureSymbol)
    names = getattr(x, 'init_arg_names', None)
    return names is not None and 'scope' in names and 'name' in names


def _is_unit(x):
    return type(x).__name__ in ('Subroutine', 'Function', 'Module') and hasattr(x, 'symbol_attrs')


def _raw_symbol(sym):
    return getattr(sym, 'symbol', sym) if type(sym).__name__ in ('Scalar', 'Array', 'DeferredTypeSymbol',
                                                                 'ProcedureSymbol') else sym


def scope_state(sym):
    """('none'|'dead'|'alive', scope object or None) read from the weak reference itself"""
    raw = _raw_symbol(sym)
    ref = getattr(raw, '_scope', None)
    if ref is None:
        return 'none', None
    obj = ref()
    if obj is None:
        return 'dead', None
    return 'alive', obj


class _UnitInfo:
    """declarations / imports / scoped nodes / uses of one program unit, collected by the independent walk"""

    def __init__(self, unit, parent_info):
        self.unit = unit
        self.name = str(getattr(unit, 'name', '?')).lower()
        self.parent_info = parent_info
        self.declared = set()
        self.imported = set()
        self.wild_modules = []       # module names imported without only-list
        self.procs = set()           # contained procedures, interface names, statement functions
        self.types = {}              # type name -> set of member names
        self.scoped = []             # scoped nodes lexically inside (Associate, TypeDef, StatementFunction)
        self.uses = []               # (symbol, role, assoc_names(frozenset), where, scope_owner)
        self.children = []           # _UnitInfo of contained units
        self.pending = []            # units found inside sections (interface bodies)
        self.opaque = False          # a non-resolvable wildcard import or include: (b) cannot be decided
        self.decl_syms = {}          # declared name -> symbol object of the declaration

    def chain(self):
        out, i = [], self
        while i is not None:
            out.append(i)
            i = i.parent_info
        return out


class Walker:
    """Independent walk over one unit: dataclass fields of nodes, init_arg_names of expressions."""

    def __init__(self, info, issues, stats):
        self.info = info
        self.issues = issues
        self.stats = stats
        self.assoc = ()              # stack of (Associate node, names)
        self.scope_stack = [info.unit]
        self.where = '?'

    # ---------------------------------------------------------------- helpers
    def _issue(self, kind, key, sym, msg):
        self.issues.append({'kind': kind, 'key': key, 'unit': self.info.name, 'symbol': str(sym)[:60],
                            'where': self.where, 'msg': msg[:300]})

    def _use(self, sym, role):
        names = frozenset(n for _, ns in self.assoc for n in ns)
        self.info.uses.append((sym, role, names, self.where))
        self.stats['symbols'] = self.stats.get('symbols', 0) + 1

    # ---------------------------------------------------------------- expressions
    def expr(self, e, role='var'):
        if e is None or isinstance(e, (bool, int, float, str)):
            return
        if isinstance(e, (tuple, list)):
            for x in e:
                self.expr(x, role)
            return
        if isinstance(e, dict):
            for k, v in e.items():
                self.expr(k, role)
                self.expr(v, role)
            return
        if not _is_expr(e):
            if dataclasses.is_dataclass(e):
                self.node(e)
            return
        cls = type(e).__name__
        if _is_typed_symbol(e):
            self._use(e, role)
            parent = getattr(e, 'parent', None)
            if parent is not None:
                self.expr(parent, 'parent')
            dims = getattr(e, 'dimensions', None) if 'dimensions' in e.init_arg_names else None
            if dims:
                self.expr(dims, 'var')
            return
        if cls == 'InlineCall':
            self.expr(e.function, 'callee')
            self.expr(e.parameters, 'var')
            for kv in (e.kw_parameters or ()):
                if isinstance(kv, (tuple, list)) and len(kv) == 2:
                    self.expr(kv[1], 'var')
                else:
                    self.expr(kv, 'var')
            return
        for n in e.init_arg_names:
            if n in _SKIP_EXPR_FIELDS:
                continue
            try:
                v = getattr(e, n)
            except Exception:  # pylint: disable=broad-except
                continue
            if n == 'kind' and cls in ('IntLiteral', 'FloatLiteral', 'LogicLiteral', 'StringLiteral'):
                # literal kind suffix: a name (str or symbol)
                if _is_expr(v) and not str(getattr(v, 'name', 'x'))[:1].isdigit():
                    self.expr(v, 'var')
                continue
            self.expr(v, 'var')

    # ---------------------------------------------------------------- nodes
    def node(self, n):
        if n is None or isinstance(n, (bool, int, float, str)):
            return
        if isinstance(n, (tuple, list)):
            for x in n:
                self.node(x)
            return
        if isinstance(n, dict):
            for k, v in n.items():
                self.node(k)
                self.node(v)
            return
        if _is_unit(n):
            # nested unit (interface body or contained procedure found inside a section)
            self.info.procs.add(str(n.name).lower())
            self.info.pending.append(n)      # interface bodies do not see their host
            return
        if _is_expr(n):
            self.expr(n)
            return
        if not dataclasses.is_dataclass(n):
            return
        cls = type(n).__name__
        prev_where = self.where
        self.where = cls
        self.stats['nodes'] = self.stats.get('nodes', 0) + 1
        try:
            meth = getattr(self, 'node_' + cls, None)
            if meth is not None:
                meth(n)
            else:
                self.generic(n)
        finally:
            self.where = prev_where

    def generic(self, n, skip=()):
        for f in dataclasses.fields(n):
            if f.name in _SKIP_NODE_FIELDS or f.name in skip:
                continue
            v = getattr(n, f.name, None)
            self.node(v)

    def _check_chain(self, n):
        """scoped node ``n`` must hang below the scope that lexically encloses it"""
        expected = self.scope_stack[-1]
        ref = getattr(n, '_parent', None)
        par = getattr(n, 'parent', None)
        self.stats['chain_checks'] = self.stats.get('chain_checks', 0) + 1
        cls = type(n).__name__
        if par is None:
            state = 'dead' if (ref is not None and callable(ref) and ref() is None) else 'none'
            self._issue('chain', f'chain:{cls}-parent-{state}', getattr(n, 'name', cls),
                        f'{cls} inside {type(expected).__name__} has no parent scope ({state})')
        elif par is not expected:
            what = 'other-' + type(par).__name__
            if _is_unit(par) and _is_unit(self.info.unit) and str(par.name).lower() == self.info.name \
                    and par is not self.info.unit:
                what = 'stale-copy-of-unit'
            self._issue('chain', f'chain:{cls}-parent-{what}', getattr(n, 'name', cls),
                        f'{cls} lexically inside {type(expected).__name__} has parent {type(par).__name__} '
                        f'{getattr(par, "name", "")}')

    def node_Associate(self, n):
        self._check_chain(n)
        self.info.scoped.append(n)
        names = []
        for pair in n.associations:
            sel, nm = pair
            self.where = 'Associate.selector'
            self.expr(sel, 'var')
            self.where = 'Associate.name'
            names.append(str(getattr(nm, 'name', nm)).lower())
            # the associate name itself: scope must be this Associate (checked through `scoped`)
            self.info.uses.append((nm, 'assoc-name', frozenset(names), 'Associate.name'))
            self.stats['symbols'] = self.stats.get('symbols', 0) + 1
            dims = getattr(nm, 'dimensions', None)
            if dims:
                self.expr(dims, 'var')
        self.where = 'Associate'
        self.assoc = self.assoc + ((n, tuple(names)),)
        self.scope_stack.append(n)
        try:
            self.node(n.body)
        finally:
            self.scope_stack.pop()
            self.assoc = self.assoc[:-1]

    def node_TypeDef(self, n):
        self._check_chain(n)
        self.info.scoped.append(n)
        members = set()
        self.scope_stack.append(n)
        try:
            for b in (n.body or ()):
                bcls = type(b).__name__
                if bcls in ('VariableDeclaration', 'ProcedureDeclaration'):
                    self.where = 'TypeDef.' + bcls
                    for s in b.symbols:
                        members.add(str(getattr(s, 'name', s)).lower().split('%')[-1])
                        self.info.uses.append((s, 'member-decl', frozenset(), self.where))
                        self.stats['symbols'] = self.stats.get('symbols', 0) + 1
                        dims = getattr(s, 'dimensions', None) if _is_expr(s) and 'dimensions' in s.init_arg_names else None
                        if dims:
                            self.expr(dims, 'var')
                        self._type_attrs(s)
                    if bcls == 'VariableDeclaration':
                        self.expr(b.dimensions, 'var')
                    else:
                        self.expr(getattr(b, 'interface', None), 'callee')
                else:
                    self.node(b)
        finally:
            self.scope_stack.pop()
        self.where = 'TypeDef'
        self.info.types[str(n.name).lower()] = members

    def node_StatementFunction(self, n):
        self._check_chain(n)
        self.info.scoped.append(n)
        self.info.procs.add(str(getattr(n.variable, 'name', n.variable)).lower())
        args = tuple(str(getattr(a, 'name', a)).lower() for a in n.arguments)
        self.assoc = self.assoc + ((n, args),)
        self.scope_stack.append(n)
        try:
            self.expr(n.variable, 'callee')
            self.expr(n.arguments, 'var')
            self.expr(n.rhs, 'var')
        finally:
            self.scope_stack.pop()
            self.assoc = self.assoc[:-1]

    def node_Import(self, n):
        if n.c_import and str(n.module).lower().endswith('.intfb.h'):
            # interface header of an external routine: declares that procedure
            self.info.procs.add(str(n.module).lower()[:-len('.intfb.h')])
            return
        if n.c_import or n.f_include:
            self.info.opaque = True
            return
        if n.f_import:   # IMPORT statement in interface bodies
            for s in n.symbols:
                self.info.imported.add(str(getattr(s, 'name', s)).lower())
            return
        syms = tuple(n.symbols or ())
        renames = tuple(n.rename_list or ())
        if not syms and not renames:
            self.info.wild_modules.append(str(n.module).lower())
        for s in syms:
            self.info.imported.add(str(getattr(s, 'name', s)).lower())
            if _is_typed_symbol(s):
                self.info.uses.append((s, 'import', frozenset(), 'Import'))
                self.stats['symbols'] = self.stats.get('symbols', 0) + 1
        for r in renames:
            if isinstance(r, (tuple, list)) and len(r) == 2:
                s = r[1]
                self.info.imported.add(str(getattr(s, 'name', s)).lower())
                if _is_typed_symbol(s):
                    self.info.uses.append((s, 'import', frozenset(), 'Import'))
            if renames and not syms:
                # use m, a => b : everything else of m is visible as well
                if str(n.module).lower() not in self.info.wild_modules:
                    self.info.wild_modules.append(str(n.module).lower())

    def _type_attrs(self, s):
        """kind / initial value / character length of a declared symbol are uses as well (read from its type)"""
        try:
            typ = s.type
        except Exception:  # pylint: disable=broad-except
            return
        if typ is None:
            return
        for attr in ('kind', 'initial', 'length'):
            try:
                v = getattr(typ, attr, None)
            except Exception:  # pylint: disable=broad-except
                v = None
            if v is not None and _is_expr(v):
                prev = self.where
                self.where = f'{prev}.type.{attr}'
                self.expr(v, 'typeattr')
                self.where = prev

    def node_VariableDeclaration(self, n):
        for s in n.symbols:
            nm = str(getattr(s, 'name', s)).lower()
            self.info.declared.add(nm)
            self.info.decl_syms[nm] = s
            if _is_typed_symbol(s):
                self.info.uses.append((s, 'decl', frozenset(), 'VariableDeclaration'))
                self.stats['symbols'] = self.stats.get('symbols', 0) + 1
                dims = getattr(s, 'dimensions', None) if 'dimensions' in s.init_arg_names else None
                if dims:
                    self.expr(dims, 'var')
                self._type_attrs(s)
        self.expr(n.dimensions, 'var')

    def node_ProcedureDeclaration(self, n):
        for s in n.symbols:
            nm = str(getattr(s, 'name', s)).lower()
            self.info.declared.add(nm)
            self.info.procs.add(nm)
            if _is_typed_symbol(s):
                self.info.uses.append((s, 'decl', frozenset(), 'ProcedureDeclaration'))
                self.stats['symbols'] = self.stats.get('symbols', 0) + 1
        itf = getattr(n, 'interface', None)
        if itf is not None and _is_expr(itf):
            self.expr(itf, 'callee')

    def node_Interface(self, n):
        spec = getattr(n, 'spec', None)
        if spec is not None:
            self.info.procs.add(str(getattr(spec, 'name', spec)).lower())
        for b in n.body:
            if _is_unit(b):
                self.info.procs.add(str(b.name).lower())
                self.info.pending.append(b)
            else:
                self.node(b)

    def node_Enumeration(self, n):
        for s in n.symbols:
            self.info.declared.add(str(getattr(s, 'name', s)).lower())

    def node_CallStatement(self, n):
        self.expr(n.name, 'callee')
        self.expr(n.arguments, 'var')
        for kv in (n.kwarguments or ()):
            if isinstance(kv, (tuple, list)) and len(kv) == 2:
                self.expr(kv[1], 'var')
            else:
                self.expr(kv, 'var')
        self.node(n.pragma)
        self.expr(getattr(n, 'chevron', None), 'var')

    def node_DataDeclaration(self, n):
        self.generic(n)

    def node_Intrinsic(self, n):
        # Cray pointer statement POINTER(ptr, pointee): declares ptr (an integer)
        for m in re.finditer(r'pointer\s*\(\s*(\w+)\s*,', str(getattr(n, 'text', '')), re.I):
            self.info.declared.add(m.group(1).lower())
        self.generic(n)

    node_GenericStmt = node_Intrinsic

    def node_Allocation(self, n):
        self.generic(n)


def _collect(unit, parent_info, issues, stats):
    """walk ``unit`` (spec, body, contains) and its contained units"""
    info = _UnitInfo(unit, parent_info)
    w = Walker(info, issues, stats)
    stats['units'] = stats.get('units', 0) + 1
    # own name: result variable / recursion
    info.procs.add(info.name)
    rn = getattr(unit, 'result_name', None)
    if rn:
        info.procs.add(str(rn).lower())
    for sec in ('docstring', 'spec', 'body'):
        w.where = sec
        try:
            part = getattr(unit, sec, None)
        except Exception:  # pylint: disable=broad-except
            part = None
        w.node(part)
    contains = getattr(unit, 'contains', None)
    if contains is not None:
        for c in getattr(contains, 'body', ()) or ():
            if _is_unit(c):
                info.procs.add(str(c.name).lower())
                # chain check for the contained unit
                par = getattr(c, 'parent', None)
                stats['chain_checks'] = stats.get('chain_checks', 0) + 1
                if par is not unit:
                    state = 'none' if par is None else (
                        'stale-copy-of-unit' if _is_unit(par) and str(par.name).lower() == info.name
                        else 'other-' + type(par).__name__)
                    issues.append({'kind': 'chain', 'key': f'chain:contained-{type(c).__name__}-parent-{state}',
                                   'unit': info.name, 'symbol': str(c.name), 'where': 'contains',
                                   'msg': f'{c.name} is contained in {unit.name} but its parent scope is '
                                          f'{getattr(par, "name", None)} ({state})'})
                info.children.append(_collect(c, info, issues, stats))
            else:
                w.where = 'contains'
                w.node(c)
    # interface bodies found during the walk
    for u in info.pending:
        info.children.append(_collect(u, None, issues, stats))
    return info


def _module_exports(mod, modules, seen=None):
    """names visible through ``use mod`` (no only-list): declared variables, procedures, types, public imports"""
    seen = seen or set()
    nm = str(mod.name).lower()
    if nm in seen:
        return set(), True
    seen.add(nm)
    issues, stats = [], {}
    info = _collect(mod, None, issues, stats)
    out = set(info.declared) | set(info.procs) | set(info.types) | set(info.imported)
    ok = not info.opaque
    for w in info.wild_modules:
        m = modules.get(w)
        if m is None:
            ok = False
        else:
            sub, sok = _module_exports(m, modules, seen)
            out |= sub
            ok = ok and sok
    return out, ok


def _resolve(info, modules, known, issues, stats):
    """decide (a) and (b) for all uses recorded in ``info`` and its children"""
    chain = info.chain()
    allowed = {id(i.unit) for i in chain}
    # ancestors not represented by a _UnitInfo (unit given without its parent walked)
    p = getattr(chain[-1].unit, 'parent', None)
    extra_anc = []
    while p is not None:
        allowed.add(id(p))
        extra_anc.append(p)
        p = getattr(p, 'parent', None)
    scoped_ids = {id(s) for s in info.scoped}
    visible = set()
    opaque = False
    types = {}
    for i in chain:
        visible |= i.declared | i.imported | i.procs | set(i.types)
        for k, v in i.types.items():
            types.setdefault(k, v)
        opaque = opaque or i.opaque
        for wmod in i.wild_modules:
            m = modules.get(wmod)
            if m is None:
                opaque = True
            else:
                names, ok = _module_exports(m, modules)
                visible |= names
                opaque = opaque or not ok
    for a in extra_anc:
        # ancestors that were not walked: take what their IR declares
        ai = _collect(a, None, [], {})
        visible |= ai.declared | ai.imported | ai.procs | set(ai.types)
        for k, v in ai.types.items():
            types.setdefault(k, v)
        opaque = opaque or ai.opaque or bool(ai.wild_modules)
    # member names of imported types, if the defining module is available
    for m in modules.values():
        try:
            for td in (getattr(m, 'typedef_map', None) or {}).values():
                types.setdefault(str(td.name).lower(), None)
        except Exception:  # pylint: disable=broad-except
            pass

    for sym, role, assoc_names, where in info.uses:
        name = str(getattr(sym, 'name', sym)).lower()
        base = name.split('%')[0]
        # ---- (a) scope
        state, sc = scope_state(sym)
        stats['scope_checks'] = stats.get('scope_checks', 0) + 1
        cls = type(sym).__name__
        if state == 'dead':
            issues.append({'kind': 'scope', 'key': f'scope:dead-weakref:{where}', 'unit': info.name, 'symbol': name,
                           'where': where, 'msg': f'{cls} {name} in {where}: scope weak reference is dead'})
        elif state == 'none':
            issues.append({'kind': 'scope', 'key': f'scope:unscoped:{where}', 'unit': info.name, 'symbol': name,
                           'where': where, 'msg': f'{cls} {name} in {where} of {info.name} has no scope'})
        elif id(sc) not in allowed and id(sc) not in scoped_ids:
            if _is_unit(sc):
                what = 'stale-copy-of-unit' if str(sc.name).lower() == info.name else (
                    'stale-copy-of-ancestor' if str(sc.name).lower() in {c.name for c in chain} else
                    'other-unit')
            else:
                what = 'detached-' + type(sc).__name__
            issues.append({'kind': 'scope', 'key': f'scope:{what}:{where}', 'unit': info.name, 'symbol': name,
                           'where': where,
                           'msg': f'{cls} {name} in {where} of {info.name} has scope {type(sc).__name__} '
                                  f'{getattr(sc, "name", "")} which is not in the scope chain of {info.name}'})
        # ---- (b) declared
        if role in ('decl', 'import', 'member-decl', 'assoc-name'):
            continue
        stats['decl_checks'] = stats.get('decl_checks', 0) + 1
        if base in assoc_names or base in visible:
            continue
        if role == 'callee':
            # procedure references: intrinsics / known procedures; an undeclared *subroutine* is a legal external
            if base in INTRINSICS or base in known:
                continue
            if where == 'CallStatement':
                stats['external_calls'] = stats.get('external_calls', 0) + 1
                continue
        if role == 'parent' and base in visible:
            continue
        if '%' in name and base in visible:
            continue
        if opaque:
            stats['decl_skipped_opaque'] = stats.get('decl_skipped_opaque', 0) + 1
            continue
        if cls == 'ProcedureSymbol' and (base in INTRINSICS or base in known):
            continue
        issues.append({'kind': 'undeclared', 'key': f'undeclared:{role}:{where}', 'unit': info.name, 'symbol': name,
                       'where': where,
                       'msg': f'{name} ({cls}, {role}) used in {where} of {info.name} is neither declared, imported, '
                              f'host-associated nor an associate name'})
    # derived-type members: member must exist in the type definition if it is known
    for sym, role, assoc_names, where in info.uses:
        if role in ('decl', 'import', 'member-decl', 'assoc-name', 'parent'):
            continue
        name = str(getattr(sym, 'name', sym)).lower()
        parts = name.split('%')
        if len(parts) != 2 or parts[0] in assoc_names:
            continue
        decl = None
        for i in chain:
            if parts[0] in i.decl_syms:
                decl = i.decl_syms[parts[0]]
                break
        if decl is None:
            continue
        try:
            tname = str(decl.type.dtype.name).lower()
        except Exception:  # pylint: disable=broad-except
            continue
        members = types.get(tname)
        if members is None:
            continue
        stats['member_checks'] = stats.get('member_checks', 0) + 1
        if parts[1] not in members:
            issues.append({'kind': 'undeclared', 'key': f'undeclared:member:{where}', 'unit': info.name,
                           'symbol': name, 'where': where,
                           'msg': f'{name}: type {tname} has no member {parts[1]}'})
    for ch in info.children:
        _resolve(ch, modules, known, issues, stats)


def units_of(obj):
    """top-level program units of a Sourcefile / unit / list of units"""
    if isinstance(obj, (list, tuple)):
        out = []
        for o in obj:
            out.extend(units_of(o))
        return out
    if _is_unit(obj):
        return [obj]
    irn = getattr(obj, 'ir', None)
    body = getattr(irn, 'body', None)
    if body is not None:
        return [n for n in body if _is_unit(n)]
    return []


def check_ir(obj, known_procedures=(), modules=()):
    """
    (a) + (b) on every unit reachable from ``obj`` (Sourcefile, unit or list of them).  ``modules``: additional
    Module objects that may be imported (definitions).  Returns (issues, stats).
    """
    issues, stats = [], {}
    units = units_of(obj)
    modmap = {}
    for m in list(modules) + units:
        if type(m).__name__ == 'Module':
            modmap[str(m.name).lower()] = m
    known = {str(k).lower() for k in known_procedures}
    # free subroutines in the same file are known external procedures to each other
    for u in units:
        if type(u).__name__ != 'Module':
            known.add(str(u.name).lower())
    for u in units:
        info = _collect(u, None, issues, stats)
        _resolve(info, modmap, known, issues, stats)
    # one issue per (key, unit, symbol)
    seen, out = set(), []
    for i in issues:
        k = (i['key'], i['unit'], i['symbol'])
        if k not in seen:
            seen.add(k)
            out.append(i)
    return out, stats


def check_reparse(text, definitions=None):
    """(c) fgen output is accepted by the fparser frontend"""
    # pylint: disable=import-outside-toplevel
    from loki import Sourcefile
    from loki.frontend import FP
    try:
        sf = Sourcefile.from_source(text, frontend=FP, definitions=definitions)
    except Exception as e:  # pylint: disable=broad-except
        return False, f'{type(e).__name__}: {str(e)[:400]}', None
    return True, '', sf


def prepare_modules(workdir, sources):
    """write and syntax-check dependency modules so that their .mod files exist in ``workdir``"""
    return diffexec.syntax_check(workdir, sources, timeout=300)


def check_compile(workdir, name, text, incdirs=(), timeout=300, fflags=()):
    """(d) gfortran -fsyntax-only; returns (ok, detail, timed_out)"""
    workdir = Path(workdir)
    workdir.mkdir(parents=True, exist_ok=True)
    (workdir / name).write_text(text)
    extra = []
    for d in incdirs:
        extra += ['-I', str(d)]
    rc, _, err = diffexec._run(['gfortran', '-fsyntax-only', '-ffree-line-length-none', '-w', '-cpp'] + list(fflags) + extra + [name],
                               workdir, timeout)
    if rc == -999:
        return False, 'TIMEOUT', True
    if rc != 0:
        return False, err[-1500:], False
    return True, '', False


def norm_compile_error(detail):
    m = re.search(r'Error: (.{0,140})', detail or '')
    if not m:
        m = re.search(r'Fatal Error: (.{0,140})', detail or '')
    if not m:
        return 'unknown'
    msg = re.sub(r"'[^']*'|‘[^’]*’", 'X', m.group(1))
    msg = re.sub(r'\(\d+\)', '', msg)
    msg = re.sub(r'\d+', 'N', msg)
    return re.sub(r'[^A-Za-z]+', '-', msg).strip('-')[:60]
