module kinds_mod
  implicit none
  integer, parameter :: jprb = selected_real_kind(13, 300)
  integer, parameter :: jpim = selected_int_kind(9)
end module kinds_mod
MODULE kmod
  USE kinds_mod, only: JPRB
  implicit none
  type :: ttype
    REAL(kind=jprb) :: P
    real(kind=JPRB) :: q(5)
    INTEGER :: KK
  end type Ttype
CONTAINS
  SUBROUTINE kern(n, M, a1, A2, C1, c2, k1, s1, s2, S3, i1, I2, lg1, T1)
    use kinds_mod, ONLY: jpim, Jprb
    Integer, INTENT(IN) :: n
    integer, intent(in) :: m
    REAL(kind=jprb), intent(In) :: a1(n)
    real(kind=Jprb), INTENT(INOUT) :: A2(n)
    REAL(KIND=JPRB), intent(In) :: c1(n, m)
    real(KIND=jprb), intent(in) :: C2(n, m)
    INTEGER, intent(inout) :: k1(n)
    real(Kind=Jprb), intent(IN) :: S1
    REAL(Kind=jprb), Intent(INOUT) :: s2
    REAL(KIND=JPRB), intent(Out) :: S3
    integer, INTENT(in) :: i1
    integer, INTENT(INOUT) :: I2
    Logical, INTENT(in) :: LG1
    type(Ttype), intent(Inout) :: t1
    real(KIND=jprb) :: X1
    real(kind=jprb) :: x2
    integer :: J1
    logical :: Lg2
    real(KIND=jprb) :: f1(4)
    INTEGER :: i, J, K
    REAL(KIND=JPRB) :: ZW(n), zs, zv(n, M)
    real(kind=jprb) :: zf(4)
    integer :: Jz, kz
    Real(kind=jprb) :: zp, ZU1, zu2
    real(KIND=JPRB) :: zq(1:N, 3, 1:2)
    REAL(KIND=JPRB) :: sfn, sfx
    Sfn(sfx) = sfx*2.0_jprb + 1.0_jprb
    ZQ = 0.75_jprb
    Zw = 0.5_jprb
    zv = 0.25_jprb
    ZF = 1.0_jprb
    zs = 0.0_jprb
    zs = sfn(s1) + sfn(zs + 0.5_jprb)
    s3 = 3.0_jprb
    x1 = 0.25_jprb
    X2 = 1.0_jprb
    j1 = 3
    LG2 = .false.
    f1 = 10.0_jprb
    if (S2 <= T1%P + S1) then
      T1%q(1) = MIN(MAX(c1(1, 1)*(F1(1) - c2(N, 1)), -50.0_jprb), 50.0_jprb)
    ELSE If ((a1(N) >= 1.0_jprb) .or. (T1%P > s1)) then
      X1 = sin(X1)
      T1%kk = min(max(M + i2 + t1%KK, -40), 40)
    ELSE
      if (.not. (lg1)) THEN
        J1 = 4
        do while (j1 > 0)
          t1%Q(2) = (C2(N, m) + s3 + real(i2, Jprb)) / (1.0_jprb + ABS(c2(n, m) + S3 + real(i2, JPRB)))
          j1 = j1 - 1
        end DO
        call hsub(n, a1, T1%p, s3)
      else
        DO I = 1, N
          a2 = sin(a1)
          A2 = SIN(1.5_jprb / (1.0_jprb + abs(X1)))
          a2(:) = SIN(t1%p)
        End do
        if (K1(1) / (1 + abs(j1)) /= k1(N) + 3) Then
          s2 = (s3*t1%P - Sin(a1(1 + MOD(2, N)))) / (1.0_jprb + ABS(s3*t1%p - Sin(a1(1 + mod(2, N)))))
        ELSE if (s1 <= t1%P) then
          T1%q(5) = Sin(real(t1%KK, jprb)**2)
        Else
          if (t1%q(3) >= s3) LG2 = lg2
          Call isub(N, a2, S3, S2)
        END IF
      END IF
      S3 = sum(c2) / (1.0_jprb + real(n*M, jprb))
    end IF
    s3 = MIN(MAX(hele(x2 / (1.0_jprb + abs(X1)), INT(max(min(c2(1 + Mod(3, n), 1 + mod(2, m)), 90.0_jprb), -90.0_jprb))) + (-0.5_jprb), -50.0_jprb), 50.0_jprb)
    j1 = 5 + n
    !$loki outline
    lg2 = .not. (T1%q(3) <= A1(1))
    !$loki end outline
    CALL HLOW(n, ZQ(:, 1, :), zs)
    DO Jz = 1, n
      ZW(jz) = a1(jz)*S1
      !$loki loop-fission
      a2(JZ) = ZW(jz) + 0.25_jprb
    end DO
    zw(1:n) = A1(1:n) + 0.5_jprb
    Zv(:, :) = ZV(:, :)*s1
    ZW(:) = zw + A1
    !$loki loop-unroll depth(1)
    DO JZ = 1, 2
      DO kz = 2, 4, 2
        ZF(KZ) = ZF(KZ) + REAL(jz*kz, jprb)
      END do
    end do
    !$loki loop-fusion group(g1)
    do jz = 1, n
      zw(jz) = A1(jz) + S1
    END Do
    !$loki loop-fusion group(g1)
    do JZ = 1, N
      A2(Jz) = ZW(jz)*0.5_jprb
    end Do
    DO jz = 1, N
      zp = a1(Jz)*s1
      ZW(JZ) = zp + 0.5_jprb
    end do
    !$loki outline name(kern_o1) in(n,a1,s1) inout(a2)
    Do jz = 1, N
      a2(JZ) = a2(JZ) + a1(jz)*s1
    end do
    !$loki end outline
    CALL Hdup(n, n, a1, Zs)
    !$loki remove
    zs = ZS + 1.0_jprb
    do jz = 1, N
      Zw(jz) = Zs
    end do
    !$loki end remove
  contains
  Subroutine isub(nn, xin, XIO, Sout)
    integer, intent(IN) :: nn
    REAL(kind=jprb), INTENT(in) :: XIN(nn)
    real(kind=Jprb), Intent(inout) :: xio
    REAL(kind=JPRB), intent(out) :: SOUT
    INTEGER :: ii
    sout = s1
    do ii = 1, Min(nn, N)
      sout = Sout + xin(II)*0.25_jprb
    end DO
    SOUT = Cos(sout)
    XIO = Xio*0.5_jprb + SOUT
  END SUBROUTINE isub
  function IFUN(x, k) RESULT(R)
    real(KIND=JPRB), intent(in) :: X
    integer, INTENT(IN) :: k
    REAL(kind=JPRB) :: R
    R = x + S1*real(K + i1, jprb)*0.01_jprb
  END Function ifun
  END SUBROUTINE kern
  SUBROUTINE hsub(nn, xin, xio, sout)
    integer, intent(in) :: nn
    real(kind=jprb), Intent(IN) :: xin(NN)
    REAL(KIND=JPRB), Intent(inout) :: XIO
    REAL(Kind=jprb), intent(OUT) :: Sout
    INTEGER :: ii
    sout = 0.0_jprb
    do ii = 1, nn
      SOUT = SOUT + XIN(ii)*2.0_jprb
    END do
    SOUT = Sout / (1.0_jprb + real(nn, jprb))
    xio = SIN(Xio + sout)
  end subroutine HSUB
  FUNCTION hfun(x, K) result(r)
    REAL(KIND=JPRB), intent(In) :: X
    integer, INTENT(in) :: k
    real(KIND=jprb) :: R
    r = x*7.5_jprb + Real(mod(k, 5), jprb)
    IF (k > 3) r = r - 3.0_jprb
  END FUNCTION Hfun
  elemental FUNCTION hele(X, k) Result(r)
    real(kind=jprb), Intent(in) :: X
    integer, Intent(IN) :: K
    REAL(kind=jprb) :: r
    r = cos(X) + REAL(k, jprb)*0.25_jprb
  END function hele
  SUBROUTINE HDUP(N1, N2, XIN, SOUT)
    integer, Intent(in) :: n1, n2
    real(Kind=JPRB), intent(In) :: xin(N1)
    real(Kind=jprb), intent(Inout) :: sout
    sout = SOUT + xin(1)*real(n2, jprb)
  End subroutine hdup
  subroutine hlow(NN, x2, Sout)
    integer, intent(in) :: NN
    real(KIND=Jprb), intent(in) :: x2(NN, 2)
    REAL(KIND=jprb), intent(INOUT) :: sout
    sout = Sout + x2(1, 1) + x2(NN, 2)
  End Subroutine hlow
END Module Kmod
