"""
Observation helpers for program-unit objects (used by C17, C18): scope trees,
symbol-table dumps, scope-chain checks.  Everything here only *reads* Loki objects.
"""
# pylint: disable=import-outside-toplevel,broad-except
from vlib.core import CaseTimeout


def _imports():
    from loki import fgen
    from loki.program_unit import ProgramUnit
    from loki.sourcefile import Sourcefile
    from loki.types import Scope, SymbolAttributes, DerivedType, ProcedureType, BasicType
    from loki.ir import nodes as ir, FindNodes, FindVariables, FindTypedSymbols
    return locals()


def top_units(obj):
    """Program units directly contained in a Sourcefile, or the unit itself."""
    L = _imports()
    if isinstance(obj, L['Sourcefile']):
        return [n for n in (obj.ir.body if obj.ir is not None else ()) if isinstance(n, L['ProgramUnit'])]
    return [obj]


def scope_tree(obj, prefix=''):
    """
    [(path, scope)] of every scope that belongs to ``obj`` (Sourcefile or program unit):
    the units, their contained units (recursively) and scoped IR nodes (TypeDef, Associate, ...).
    """
    L = _imports()
    ProgramUnit, Scope, ir = L['ProgramUnit'], L['Scope'], L['ir']
    out = []

    def walk_ir(node, path, counter):
        # generic walk over IR children, descending into everything but program units
        if isinstance(node, (tuple, list)):
            for c in node:
                walk_ir(c, path, counter)
            return
        if isinstance(node, ProgramUnit):
            walk_unit(node, path)
            return
        if isinstance(node, ir.Node):
            p = path
            if isinstance(node, ir.Interface):
                counter['Interface'] = counter.get('Interface', 0) + 1
                p = f'{path}/Interface:#{counter["Interface"]}'
            if isinstance(node, Scope):
                kind = type(node).__name__
                label = getattr(node, 'name', None) if kind == 'TypeDef' else None
                if label is None:
                    counter[kind] = counter.get(kind, 0) + 1
                    label = f'#{counter[kind]}'
                p = f'{path}/{kind}:{str(label).lower()}'
                out.append((p, node))
            for c in node.children:
                walk_ir(c, p, counter)

    def walk_unit(unit, path):
        p = f'{path}/{type(unit).__name__}:{str(unit.name).lower()}'
        out.append((p, unit))
        counter = {}
        for part in ('docstring', 'spec', 'body', 'contains'):
            sec = getattr(unit, part, None)
            if sec is not None:
                walk_ir(sec, p, counter)

    for u in top_units(obj):
        walk_unit(u, prefix)
    return out


def expr_str(v):
    try:
        return str(v)
    except CaseTimeout:
        raise
    except Exception as e:
        return f'<unprintable {type(e).__name__}>'


def attr_dump(attrs, own=None):
    """
    Canonical string of a SymbolAttributes object.  ``own`` maps id(scope-or-unit) -> path for the
    objects of the observed tree, so links (procedure, typedef, module) are described as
    'own:<path>' / 'ext:<name>' rather than by identity.
    """
    L = _imports()
    DerivedType, ProcedureType, BasicType = L['DerivedType'], L['ProcedureType'], L['BasicType']
    own = own or {}

    def link(o):
        if o is None or o is BasicType.DEFERRED:
            return 'none'
        if id(o) in own:
            return 'own:' + own[id(o)]
        return 'ext:' + str(getattr(o, 'name', type(o).__name__)).lower()

    def val(v):
        if isinstance(v, (tuple, list)):
            return '(' + ', '.join(val(i) for i in v) + ')'
        if isinstance(v, DerivedType):
            return f'DerivedType({str(v.name).lower()}; typedef={link(v.typedef)})'
        if isinstance(v, ProcedureType):
            try:
                proc = v.procedure
            except CaseTimeout:
                raise
            except Exception as e:
                proc = None
                return f'ProcedureType({str(v.name).lower()}; broken:{type(e).__name__})'
            extra = ''
            if isinstance(v.return_type, L['SymbolAttributes']):
                extra = '; returns=' + val(v.return_type.dtype)
            return (f'ProcedureType({str(v.name).lower()}; fn={bool(v.is_function)}; generic={bool(v.is_generic)}; '
                    f'intrinsic={bool(v.is_intrinsic)}; proc={link(proc)}{extra})')
        if isinstance(v, L['ProgramUnit']):
            return f'{type(v).__name__}<{link(v)}>'
        if isinstance(v, L['SymbolAttributes']):
            return attr_dump(v, own)
        if isinstance(v, L['ir'].Node):
            return f'{type(v).__name__}<{link(v)}>'
        return expr_str(v)

    parts = ['dtype=' + val(attrs.dtype)]
    for k in sorted(attrs.__dict__):
        if k in ('dtype', 'source'):
            continue
        v = attrs.__dict__[k]
        if v is None or v is False:
            continue
        parts.append(f'{k}={val(v)}')
    return '<' + ', '.join(parts) + '>'


def own_map(tree):
    return {id(s): p for p, s in tree}


def symtab_dump(obj):
    """{scope path: {name: attribute dump}} for all scopes of ``obj``."""
    tree = scope_tree(obj)
    own = own_map(tree)
    out = {}
    for p, s in tree:
        d = {}
        for name in list(s.symbol_attrs.keys()):
            a = s.symbol_attrs.lookup(name, recursive=False)
            d[str(name).lower()] = attr_dump(a, own) if a is not None else 'None'
        key = p
        n = 1
        while key in out:      # duplicate unit names: keep both
            n += 1
            key = f'{p}~{n}'
        out[key] = d
    return out


def code_of(obj):
    L = _imports()
    if isinstance(obj, L['Sourcefile']):
        return obj.to_fortran()
    return L['fgen'](obj)


def snapshot(obj):
    """Observable state of a copy: generated code + all symbol tables of its scopes."""
    return {'code': code_of(obj), 'tables': symtab_dump(obj)}


def snap_diff(a, b, limit=4):
    """Short description of the differences between two snapshots (empty list when equal)."""
    out = []
    if a['code'] != b['code']:
        la, lb = a['code'].splitlines(), b['code'].splitlines()
        n = 0
        for i in range(max(len(la), len(lb))):
            x = la[i] if i < len(la) else '<eof>'
            y = lb[i] if i < len(lb) else '<eof>'
            if x != y:
                out.append(f'code line {i + 1}: {x.strip()[:90]!r} -> {y.strip()[:90]!r}')
                n += 1
                if n >= limit:
                    break
    ta, tb = a['tables'], b['tables']
    for p in sorted(set(ta) | set(tb)):
        if p not in ta:
            out.append(f'scope {p} appeared')
        elif p not in tb:
            out.append(f'scope {p} disappeared')
        else:
            for n_ in sorted(set(ta[p]) | set(tb[p])):
                x, y = ta[p].get(n_), tb[p].get(n_)
                if x != y:
                    out.append(f'table {p}[{n_}]: {str(x)[:120]} -> {str(y)[:120]}')
        if len(out) > 3 * limit:
            break
    return out


def diff_kinds(a, b):
    """Coarse classification of the differences (for mechanism keys)."""
    kinds = set()
    if a['code'] != b['code']:
        kinds.add('code')
    ta, tb = a['tables'], b['tables']
    for p in set(ta) | set(tb):
        if p not in ta or p not in tb:
            kinds.add('scope-set')
            continue
        for n_ in set(ta[p]) | set(tb[p]):
            x, y = ta[p].get(n_), tb[p].get(n_)
            if x == y:
                continue
            if x is None:
                kinds.add('table-entry-added')
            elif y is None:
                kinds.add('table-entry-removed')
            else:
                kinds.add('table-entry-changed')
    return sorted(kinds)


def typed_symbols(obj):
    """[(path, scope, symbol)] for every typed symbol occurring in the IR of each scope owner unit."""
    L = _imports()
    out = []
    seen_units = []

    def units_of(u):
        seen_units.append(u)
        for c in getattr(u, 'subroutines', ()) or ():
            units_of(c)

    for u in top_units(obj):
        units_of(u)
    for u in seen_units:
        for part in ('spec', 'body'):
            sec = getattr(u, part, None)
            if sec is None:
                continue
            for v in L['FindTypedSymbols'](unique=False).visit(sec):
                out.append((u, v))
    return out


def scope_chain_problems(obj, foreign=None, limit=5):
    """
    Check that every typed symbol in the IR of ``obj``
      * is attached to a scope that is one of obj's own scopes or an enclosing parent of obj's
        top units (never an object in ``foreign``: {id(scope): path} of another copy),
      * is attached to a scope on the scope chain of the unit it occurs in,
      * that scope (or one of its parents) actually declares the symbol, and the symbol's type is the
        table entry found along that chain.
    Returns (list of (kind, message), number of symbols checked).
    """
    foreign = foreign or {}
    tree = scope_tree(obj)
    own = own_map(tree)
    outer = {}
    for u in top_units(obj):
        p = getattr(u, 'parent', None)
        while p is not None:
            outer[id(p)] = p
            p = p.parent
    problems = []
    n = 0
    for unit, v in typed_symbols(obj):
        n += 1
        sc = v.scope
        if sc is None:
            continue          # unscoped symbols carry their own type: nothing to resolve
        if id(sc) in foreign and id(sc) not in outer:
            problems.append((f'foreign-scope:{type(v).__name__}',
                             f'{v} ({type(v).__name__}) in {unit.name} is attached to {foreign[id(sc)]} of the other copy'))
        elif id(sc) not in own and id(sc) not in outer:
            problems.append((f'unknown-scope:{type(v).__name__}', f'{v} in {unit.name} is attached to a scope outside the copy '
                                              f'({type(sc).__name__} {getattr(sc, "name", "")})'))
        else:
            try:
                t = v.type
                ref = sc.symbol_attrs.lookup(v.name)
            except CaseTimeout:
                raise
            except Exception as e:
                problems.append(('type-lookup-exception', f'{v}: {type(e).__name__}: {e}'))
                continue
            if ref is not None and t is not None and attr_dump(t, own) != attr_dump(ref, own):
                problems.append(('type-mismatch', f'{v}: {attr_dump(t, own)} vs table {attr_dump(ref, own)}'))
        if len(problems) >= limit:
            break
    return problems, n


def link_problems(obj, foreign, limit=5):
    """
    Links stored in the symbol tables of ``obj`` (procedure / typedef / module of a type) must not
    point into the tree of the other copy (``foreign``: {id: path}) unless that object encloses obj.
    """
    L = _imports()
    DerivedType, ProcedureType = L['DerivedType'], L['ProcedureType']
    tree = scope_tree(obj)
    outer = set()
    for u in top_units(obj):
        p = getattr(u, 'parent', None)
        while p is not None:
            outer.add(id(p))
            p = p.parent
    problems = []
    n = 0
    for p, s in tree:
        for name in list(s.symbol_attrs.keys()):
            a = s.symbol_attrs.lookup(name, recursive=False)
            if a is None or a.imported:
                continue          # imported symbols link to other program units: outside the cloned scope chain
            n += 1
            tgt = None
            dt = a.dtype
            if isinstance(dt, DerivedType) and dt.typedef is not L['BasicType'].DEFERRED:
                tgt = dt.typedef
            elif isinstance(dt, ProcedureType):
                try:
                    tgt = dt.procedure
                except CaseTimeout:
                    raise
                except Exception:
                    tgt = None
            if tgt is not None and tgt is not L['BasicType'].DEFERRED and id(tgt) in foreign and id(tgt) not in outer:
                problems.append((f'{type(dt).__name__}', f'{p}[{name}] links to {foreign[id(tgt)]} of the other copy'))
                if len(problems) >= limit:
                    return problems, n
    return problems, n
