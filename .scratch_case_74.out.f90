MODULE kinds_mod
  IMPLICIT NONE
  INTEGER, PARAMETER :: jprb = SELECTED_REAL_KIND(13, 300)
  INTEGER, PARAMETER :: jpim = SELECTED_INT_KIND(9)
END MODULE kinds_mod
MODULE kmod
  USE kinds_mod, ONLY: JPRB
  IMPLICIT NONE
  TYPE ttype
    REAL(KIND=jprb) :: P
    REAL(KIND=JPRB) :: q(5)
    INTEGER :: KK
  END TYPE ttype
  CONTAINS
  SUBROUTINE kern (n, m, a1, A2, c1, C2, k1, S1, s2, S3, i1, I2, LG1, t1)
    USE kinds_mod, ONLY: jpim, Jprb
    INTEGER, INTENT(IN) :: n
    INTEGER, INTENT(IN) :: m
    REAL(KIND=jprb), INTENT(IN) :: a1(n)
    REAL(KIND=Jprb), INTENT(INOUT) :: A2(n)
    REAL(KIND=JPRB), INTENT(IN) :: c1(n, m)
    REAL(KIND=jprb), INTENT(IN) :: C2(n, m)
    INTEGER, INTENT(INOUT) :: k1(n)
    REAL(KIND=Jprb), INTENT(IN) :: S1
    REAL(KIND=jprb), INTENT(INOUT) :: s2
    REAL(KIND=JPRB), INTENT(OUT) :: S3
    INTEGER, INTENT(IN) :: i1
    INTEGER, INTENT(INOUT) :: I2
    LOGICAL, INTENT(IN) :: LG1
    TYPE(ttype), INTENT(INOUT) :: t1
    REAL(KIND=jprb) :: X1
    REAL(KIND=jprb) :: x2
    INTEGER :: J1
    LOGICAL :: Lg2
    REAL(KIND=jprb) :: f1(4)
    INTEGER :: i, J, K
    REAL(KIND=JPRB) :: ZW(n), zs, zv(n, M)
    REAL(KIND=jprb) :: zf(4)
    INTEGER :: Jz, kz
    REAL(KIND=jprb) :: zp, ZU1, zu2
    REAL(KIND=JPRB) :: zq(1:N, 3, 1:2)
    REAL(KIND=JPRB) :: sfn, sfx
    Sfn(sfx) = sfx*2.0_jprb + 1.0_jprb
    INTEGER :: ii
    ZQ = 0.75_jprb
    Zw = 0.5_jprb
    zv = 0.25_jprb
    ZF = 1.0_jprb
    zs = 0.0_jprb
    zs = sfn(s1) + sfn(zs + 0.5_jprb)
    s3 = 3.0_jprb
    x1 = 0.25_jprb
    X2 = 1.0_jprb
    j1 = 3
    LG2 = .false.
    f1 = 10.0_jprb
    IF (S2 <= T1%P + S1) THEN
      T1%q(1) = MIN(MAX(c1(1, 1)*(F1(1) - c2(N, 1)), -50.0_jprb), 50.0_jprb)
    ELSE IF (a1(N) >= 1.0_jprb .or. T1%P > s1) THEN
      X1 = SIN(X1)
      T1%kk = MIN(MAX(M + i2 + t1%KK, -40), 40)
    ELSE
      IF (.not.lg1) THEN
        J1 = 4
        DO WHILE (j1 > 0)
          t1%Q(2) = (C2(N, m) + s3 + REAL(i2, kind=Jprb)) / (1.0_jprb + ABS(c2(n, m) + S3 + REAL(i2, kind=JPRB)))
          j1 = j1 - 1
        END DO
        CALL hsub(n, a1, T1%p, s3)
      ELSE
        DO I=1,N
          a2 = SIN(a1)
          A2 = SIN(1.5_jprb / (1.0_jprb + ABS(X1)))
          a2(:) = SIN(t1%p)
        END DO
        IF (K1(1) / (1 + ABS(j1)) /= k1(N) + 3) THEN
          s2 = (s3*t1%P - SIN(a1(1 + MOD(2, N)))) / (1.0_jprb + ABS(s3*t1%p - SIN(a1(1 + MOD(2, N)))))
        ELSE IF (s1 <= t1%P) THEN
          T1%q(5) = SIN(REAL(t1%KK, kind=jprb)**2)
        ELSE
          IF (t1%q(3) >= s3) LG2 = lg2
          ! [Loki] inlined child subroutine: isub
          ! =========================================
          S2 = s1
          DO ii=1,MIN(N, N)
            S2 = S2 + xin(II)*0.25_jprb
          END DO
          S2 = COS(S2)
          S3 = S3*0.5_jprb + S2
          ! =========================================
        END IF
      END IF
      S3 = SUM(c2) / (1.0_jprb + REAL(n*M, kind=jprb))
    END IF
    s3 = MIN(MAX(hele(x2 / (1.0_jprb + ABS(X1)), INT(MAX(MIN(c2(1 + MOD(3, n), 1 + MOD(2, m)), 90.0_jprb), -90.0_jprb))) +  &
    & (-0.5_jprb), -50.0_jprb), 50.0_jprb)
    j1 = 5 + n
!$loki outline
    lg2 = .not.(T1%q(3) <= A1(1))
!$loki end outline
    CALL HLOW(n, ZQ(:, 1, :), zs)
    DO Jz=1,n
      ZW(jz) = a1(jz)*S1
!$loki loop-fission
      a2(JZ) = ZW(jz) + 0.25_jprb
    END DO
    zw(1:n) = A1(1:n) + 0.5_jprb
    Zv(:, :) = ZV(:, :)*s1
    ZW(:) = zw + A1
!$loki loop-unroll depth( 1 )
    DO JZ=1,2
      DO kz=2,4,2
        ZF(KZ) = ZF(KZ) + REAL(jz*kz, kind=jprb)
      END DO
    END DO
!$loki loop-fusion group( g1 )
    DO jz=1,n
      zw(jz) = A1(jz) + S1
    END DO
!$loki loop-fusion group( g1 )
    DO JZ=1,N
      A2(Jz) = ZW(jz)*0.5_jprb
    END DO
    DO jz=1,N
      zp = a1(Jz)*s1
      ZW(JZ) = zp + 0.5_jprb
    END DO
!$loki outline name( kern_o1 ) in( n,a1,s1 ) inout( a2 )
    DO jz=1,N
      a2(JZ) = a2(JZ) + a1(jz)*s1
    END DO
!$loki end outline
    CALL Hdup(n, n, a1, Zs)
!$loki remove
    zs = ZS + 1.0_jprb
    DO jz=1,N
      Zw(jz) = Zs
    END DO
!$loki end remove
    CONTAINS
  END SUBROUTINE kern
  SUBROUTINE hsub (nn, xin, XIO, Sout)
    INTEGER, INTENT(IN) :: nn
    REAL(KIND=jprb), INTENT(IN) :: xin(NN)
    REAL(KIND=JPRB), INTENT(INOUT) :: XIO
    REAL(KIND=jprb), INTENT(OUT) :: Sout
    INTEGER :: ii
    sout = 0.0_jprb
    DO ii=1,nn
      SOUT = SOUT + XIN(ii)*2.0_jprb
    END DO
    SOUT = Sout / (1.0_jprb + REAL(nn, kind=jprb))
    xio = SIN(Xio + sout)
  END SUBROUTINE hsub
  FUNCTION hfun (X, k) RESULT(r)
    REAL(KIND=JPRB), INTENT(IN) :: X
    INTEGER, INTENT(IN) :: k
    REAL(KIND=jprb) :: R
    r = x*7.5_jprb + REAL(MOD(k, 5), kind=jprb)
    IF (k > 3) r = r - 3.0_jprb
  END FUNCTION hfun
  ELEMENTAL FUNCTION hele (X, K) RESULT(r)
    REAL(KIND=jprb), INTENT(IN) :: X
    INTEGER, INTENT(IN) :: K
    REAL(KIND=jprb) :: r
    r = COS(X) + REAL(k, kind=jprb)*0.25_jprb
  END FUNCTION hele
  SUBROUTINE HDUP (n1, n2, xin, sout)
    INTEGER, INTENT(IN) :: n1, n2
    REAL(KIND=JPRB), INTENT(IN) :: xin(N1)
    REAL(KIND=jprb), INTENT(INOUT) :: sout
    sout = SOUT + xin(1)*REAL(n2, kind=jprb)
  END SUBROUTINE HDUP
  SUBROUTINE hlow (NN, x2, sout)
    INTEGER, INTENT(IN) :: NN
    REAL(KIND=Jprb), INTENT(IN) :: x2(NN, 2)
    REAL(KIND=jprb), INTENT(INOUT) :: sout
    sout = Sout + x2(1, 1) + x2(NN, 2)
  END SUBROUTINE hlow
END MODULE kmod