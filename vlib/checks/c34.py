"""C34 -- call-signature rewrites preserve behaviour (differential execution through the real Scheduler)."""
import re
import shutil
import traceback
from pathlib import Path

from vlib import diffexec
from vlib.core import sighash
from vlib.siggen import SigGen

PID = 'C34'
LEVEL = 'exploration'
TECHNIQUE = 'differential execution of generated call trees, original vs. Scheduler-transformed project (sanitizers on)'
LEVEL_TEXT = ('every generated project (types module, 1-2 kernel modules, driver module) is processed by the real '
              'Scheduler with one of the five call-signature rewrites (or the type-bound + derived-type pipeline), '
              'written with FileWriteTransformation, linked with an untouched main program and run next to the '
              'original on 4 non-linear input sets; all outputs are compared')
LEVEL_NOTE = ('gfortran 12 -O0 -fcheck=all + ASan/UBSan + FPE traps is the reference semantics; programs are '
              'well-defined by construction (original must build and run clean); constructs the transformation '
              'docs exclude (aliasing with writes, differing duplicate patterns per routine) are not generated')
RULE = ('SigGen project: derived types with nested components, arrays of components, allocatable/pointer/fixed '
        'members, type-bound procedures (renamed, generic, nested a%b%proc()); kernels k1..k4 in a call DAG of depth '
        '1-3 with derived-type, explicit/assumed-shape/assumed-size/lower-bound-0 array dummies; actuals are whole '
        'arrays, components, sections, scalar elements (sequence association), duplicated read-only actuals. One '
        'transformation mode per case (dt, dta = all_derived_types, tb, tbd = duplicate_typebound_kernels, tbdt = tb then '
        'dt, seq, shape = analysis + explicit shapes, dup, dupr = rename_common, dupd = driver only). At most 1 case in 6 '
        'carries one hazard construct (isolated kernel hzk or a gated call form) with a known defect mechanism. Non-trivial = the transformation changed the generated Fortran of at least one file and '
        'both programs built and ran on all inputs; distinct = hash of sources + mode.')
CASES = {'quick': 96, 'thorough': 1440}
MIN_NONTRIVIAL = {'quick': 40, 'thorough': 600}
ANCHORS = ['loki/transformations/transform_derived_types.py', 'loki/transformations/sanitise/sequence_associations.py',
           'loki/transformations/argument_shape.py', 'loki/transformations/routine_signatures.py']
REQUIRED_REACH = ['expand_derived_args_kernel', 'expand_derived_args_caller', 'visit_CallStatement',
                  'remove_duplicate_args_from_calls', 'do_resolve_sequence_association']
REQUIRED_COUNTERS = {'program_runs': 100, 'transformed_builds': 15}
ASSUMPTIONS = ['gfortran 12 -O0 with run-time checks is the reference semantics',
               'generated programs are well-defined by construction (original must run clean, else discarded)',
               'real outputs compared to relative 1e-11',
               'RemoveDuplicateArgs: all calls of a routine repeat the same duplicate pattern (documented restriction)',
               'type-bound calls are resolved (TypeboundProcedureCallTransformation) before '
               'DerivedTypeArgumentsTransformation is applied, as in the shipped pipelines',
               'every routine of the project is reachable from the driver (a routine outside the call tree that calls a '
               'rewritten routine is an inconsistency of the input project, not of the transformation)']
BUDGET_S = {'quick': 3600, 'thorough': 14400}   # generous: only matters on an overloaded machine
CASE_TIMEOUT_S = 1800
WATCHDOG_S = {'quick': 7200, 'thorough': 28800}   # generous: only matters on an overloaded machine

TMODES = ['dt', 'dt', 'dta', 'tb', 'tbd', 'tbdt', 'tbdt', 'seq', 'seq', 'shape', 'shape', 'dup', 'dupr', 'dupd']
GENMODE = {'dt': 'dt', 'dta': 'dt', 'tb': 'tb', 'tbd': 'tb', 'tbdt': 'tb', 'seq': 'seq', 'shape': 'shape',
           'dup': 'dup', 'dupr': 'dup', 'dupd': 'dup'}
HAZ_FOR = {
    'dt': ['dt_whole_and_member', 'dt_alloc_lbound', 'dt_allocated_inq', 'dt_whole_passed_on', 'dt_func_kw',
           'dt_seq_element', 'dt_func_modimport'],
    'dta': ['dt_whole_and_member', 'dt_alloc_lbound', 'dt_whole_passed_on', 'dt_func_kw', 'dt_seq_element',
            'dt_func_modimport'],
    'tb': ['tb_generic', 'tb_nested_function'], 'tbd': ['tb_generic'],
    'tbdt': ['tb_nested_function', 'tb_generic', 'dt_func_modimport'],
    'seq': ['seq_span', 'seq_kw', 'seq_offset2d'],
    'shape': ['shape_lbound', 'shape_section', 'shape_two_callers', 'shape_member_dim', 'shape_star_deferred',
              'shape_star_literal_index'],
    'dup': ['dup_spec_use', 'dup_diff_bounds', 'dup_kw', 'dup_two_callers'], 'dupr': ['dup_spec_use', 'dup_kw'],
    'dupd': ['dup_kw'],
}


def case_flags(rng, idx, force=None):
    """``force=(tmode, hazard)`` overrides the random choice of mode and hazard (development / replay aid)"""
    tmode = TMODES[idx % len(TMODES)] if idx < 2 * len(TMODES) else rng.choice(TMODES)
    if force:
        tmode = force[0]
    gm = GENMODE[tmode]
    f = {'mode': gm}
    f['n_kernels'] = rng.choice([2, 3, 3, 4])
    f['nest'] = rng.choice([1, 2, 2, 3, 3])
    f['arr_of_comp'] = rng.random() < 0.7
    f['ptr_member'] = rng.random() < 0.3
    f['plain_args'] = rng.random() < 0.6
    f['int_arrays'] = rng.random() < 0.6
    f['split_files'] = rng.random() < 0.4
    f['associate'] = rng.random() < 0.3
    f['inquiry'] = rng.random() < 0.3
    f['func_kernel'] = rng.random() < 0.25 and gm in ('dt', 'tb')
    f['max_stmts'] = rng.choice([4, 6, 8])
    f['typebound'] = gm == 'tb'
    f['tb_generic'] = False
    f['tb_nested'] = rng.random() < 0.8
    f['tb_function'] = rng.random() < 0.7
    f['seq_actuals'] = gm == 'seq' or (gm in ('dt', 'dup') and rng.random() < 0.3)
    f['assumed_shape'] = gm == 'shape' or rng.random() < 0.3
    f['lb0_dummies'] = rng.random() < 0.3
    f['dups'] = gm == 'dup'
    f['kw_calls'] = rng.random() < 0.25 and gm in ('tb', 'shape', 'dt')
    hz = None
    # one case in 6 carries a hazard construct (known / suspected defect mechanisms stay in their slice)
    if idx % 6 == 5 and tmode in HAZ_FOR:
        hz = rng.choice(HAZ_FOR[tmode])
    if force:
        hz = force[1]
    f['hazard'] = hz
    if hz == 'tb_nested_function':
        f['nest'] = max(f['nest'], 2)
        f['tb_nested'] = f['tb_function'] = True
    if hz == 'tb_generic':
        f['tb_generic'] = True
    if hz == 'dup_kw':
        f['kw_calls'] = True
    if hz == 'dt_seq_element':
        f['seq_actuals'] = True
    if hz == 'dt_func_kw':
        f['func_kernel'] = f['kw_calls'] = True
    if hz == 'dt_func_modimport':
        f['func_kernel'] = f['split_files'] = True
    if tmode == 'tbdt' and hz != 'tb_nested_function':
        # type-bound function references are not (reliably) Scheduler dependencies of the caller: the tb + dt pipeline
        # leaves their call sites unexpanded (known finding, slice tb_nested_function)
        f['tb_function'] = False
    if hz in ('dt_whole_and_member',):
        f['nest'] = max(f['nest'], 2)
    return tmode, f


def innermost_loki_frame(exc):
    """name of the innermost loki frame of the root cause (follows __cause__ / __context__)"""
    seen = 0
    while (exc.__cause__ or exc.__context__) is not None and seen < 8:
        exc = exc.__cause__ or exc.__context__
        seen += 1
    name = '?'
    for fr in traceback.extract_tb(exc.__traceback__):
        if '/loki/' in fr.filename:
            name = fr.name
    return f'{type(exc).__name__}@{name}'


def make_pipeline(tmode):
    from loki.transformations.transform_derived_types import (
        DerivedTypeArgumentsTransformation, TypeboundProcedureCallTransformation)
    from loki.transformations.sanitise import SequenceAssociationTransformation
    from loki.transformations.argument_shape import (
        ArgumentArrayShapeAnalysis, ExplicitArgumentArrayShapeTransformation)
    from loki.transformations.routine_signatures import RemoveDuplicateArgs
    return {
        'dt': lambda: [DerivedTypeArgumentsTransformation()],
        'dta': lambda: [DerivedTypeArgumentsTransformation(all_derived_types=True)],
        'tb': lambda: [TypeboundProcedureCallTransformation()],
        'tbd': lambda: [TypeboundProcedureCallTransformation(duplicate_typebound_kernels=True)],
        'tbdt': lambda: [TypeboundProcedureCallTransformation(), DerivedTypeArgumentsTransformation()],
        'seq': lambda: [SequenceAssociationTransformation()],
        'shape': lambda: [ArgumentArrayShapeAnalysis(), ExplicitArgumentArrayShapeTransformation()],
        'dup': lambda: [RemoveDuplicateArgs()],
        'dupr': lambda: [RemoveDuplicateArgs(rename_common=True)],
        'dupd': lambda: [RemoveDuplicateArgs(recurse_to_kernels=False)],
    }[tmode]()


def transform(case, tmode, wd):
    """run the real Scheduler; returns (new_files, changed_files, n_items)"""
    from loki import Scheduler, SchedulerConfig
    from loki.frontend import FP
    from loki.transformations.build_system import FileWriteTransformation
    src, out = wd / 'src', wd / 'out'
    for d in (src, out, wd / 'xmods'):
        d.mkdir(parents=True, exist_ok=True)
    for name, text in case.files:
        (src / name).write_text(text)
    config = SchedulerConfig.from_dict({
        'default': {'mode': 'idem', 'role': 'kernel', 'expand': True, 'strict': True, 'enable_imports': True},
        'routines': {'driver': {'role': 'driver'}}})
    sched = Scheduler(paths=[src], config=config, seed_routines=['driver'], frontend=FP, xmods=[wd / 'xmods'],
                      output_dir=out)
    sources = {}
    for item in sched.items:
        sf = getattr(item, 'source', None)
        if sf is not None and getattr(sf, 'path', None) is not None:
            sources[Path(sf.path).name] = sf
    before = {n: sf.to_fortran() for n, sf in sources.items()}
    for t in make_pipeline(tmode):
        sched.process(t)
    sched.process(FileWriteTransformation())
    new, changed = [], []
    for name, text in case.files:
        p = out / (Path(name).stem + '.idem.F90')
        if p.exists():
            txt = p.read_text()
            if name in before and before[name] != txt:
                changed.append(name)
            new.append((name, txt))
        else:
            new.append((name, text))
    return new, changed, len(sched.items)


def build_pair(wd, orig_files, new_files, changed, main, timeout=900):
    """
    Build original and transformed project.  Files the transformation left untouched are taken from the original
    (their regenerated text is C01's subject, not ours) and the objects / module files of the untouched *leading*
    files in dependency order are reused.  Returns (orig_exe, new_exe, status, detail).
    """
    od, nd = wd / 'orig', wd / 'new'
    for d in (od, nd):
        shutil.rmtree(d, ignore_errors=True)
        d.mkdir(parents=True)
    flags = list(diffexec.FFLAGS)

    def comp(d, name, text):
        (d / name).write_text(text)
        rc, _, err = diffexec._run(['gfortran'] + flags + ['-c', name, '-o', name + '.o'], d, timeout)  # pylint: disable=protected-access
        return rc, err

    def link(d, names):
        rc, _, err = diffexec._run(['gfortran'] + flags + [n + '.o' for n in names] + ['-o', 'a.out'], d, timeout)  # pylint: disable=protected-access
        return rc, err

    ofiles = list(orig_files) + [main]
    for name, text in ofiles:
        rc, err = comp(od, name, text)
        if rc != 0:
            return None, None, 'timeout' if rc == -999 else 'orig_bad', f'{name}: {err[-1200:]}'
    rc, err = link(od, [n for n, _ in ofiles])
    if rc != 0:
        return None, None, 'timeout' if rc == -999 else 'orig_bad', 'link: ' + err[-1200:]
    nfiles = [(n, t if n in changed else dict(orig_files)[n]) for n, t in new_files] + [main]
    reuse = True
    for name, text in nfiles:
        if reuse and name not in changed and name != main[0]:
            for f in od.iterdir():
                if f.name == name + '.o' or f.suffix == '.mod':
                    shutil.copy(f, nd / f.name)
            # only module files produced so far are present in od at this point? no: od holds all of them; a stale
            # .mod of a later (changed) module is overwritten when that module is recompiled below
            continue
        reuse = False
        rc, err = comp(nd, name, text)
        if rc != 0:
            return od / 'a.out', None, 'timeout' if rc == -999 else 'new_build_fail', f'fc: {name}: {err[-1500:]}'
    rc, err = link(nd, [n for n, _ in nfiles])
    if rc != 0:
        return od / 'a.out', None, 'timeout' if rc == -999 else 'new_build_fail', 'link: ' + err[-1500:]
    return od / 'a.out', nd / 'a.out', 'ok', ''


def differential(wd, orig_files, new_files, changed, main, stdins):
    oexe, nexe, status, detail = build_pair(wd, orig_files, new_files, changed, main)
    if status != 'ok':
        return {'status': status, 'detail': detail, 'runs': 0}
    nruns = 0
    for sin in stdins:
        ro = diffexec.run(oexe, stdin=sin, timeout=300)
        if ro['rc'] == -999:
            return {'status': 'timeout', 'detail': 'original timed out', 'runs': nruns}
        if ro['san'] or ro['rc'] != 0:
            return {'status': 'orig_bad', 'detail': f"original rc={ro['rc']} {ro['san'][:2]} {ro['err'][-300:]}", 'runs': nruns}
        rn = diffexec.run(nexe, stdin=sin, timeout=300)
        if rn['rc'] == -999:
            return {'status': 'timeout', 'detail': 'transformed program timed out', 'runs': nruns}
        nruns += 1
        eq, why = diffexec.outputs_equal(ro, rn)
        if not eq:
            return {'status': 'differ', 'detail': why, 'stdin': sin, 'orig_out': ro['out'][-1500:],
                    'new_out': rn['out'][-1500:], 'new_err': rn['err'][-800:], 'runs': nruns}
    return {'status': 'equal', 'detail': '', 'runs': nruns}


def _norm_compile_error(detail):
    m = re.search(r'Error: (.{0,120})', detail or '')
    if not m:
        return 'unknown'
    msg = re.sub(r"'[^']*'|‘[^’]*’", 'X', m.group(1))
    msg = re.sub(r'\(\d+\)', '', msg)
    return re.sub(r'[^A-Za-z]+', '-', msg).strip('-')[:60]


def classify(tmode, hazard, symptom, detail):
    """
    Mechanism key.  Cases of the hazard slice carry exactly one hazard construct: they are keyed by the construct and
    the class of the symptom (the compiler's first message varies with the surrounding program).  All other cases are
    keyed by transformation mode, symptom and the normalised first compiler / run-time message.
    """
    if symptom == 'compile':
        cls, tail = 'compile', 'compile:' + _norm_compile_error(detail)
    elif symptom == 'differ':
        d = detail or ''
        if 'exit status' in d or 'run-time check' in d:
            m = re.search(r'(Fortran runtime error: [A-Za-z ]{0,40}|AddressSanitizer: [a-z-]+|SIGSEGV|SIGFPE)', d)
            cls, tail = 'runtime', 'runtime:' + (re.sub(r'[^A-Za-z]+', '-', m.group(1)).strip('-') if m else 'abnormal-exit')
        else:
            cls = tail = 'output-differs'
    else:
        cls, tail = symptom.split(':')[0], symptom
    if hazard:
        return f'sig:{hazard}:{cls}'
    return f'sig:{tmode}:{tail}'


def run_case(idx, rng, tier, ctx):
    tmode, flags = case_flags(rng, idx)
    case = SigGen(rng, flags).generate()
    hazard = case.meta['hazard']
    res = {'sig': sighash([case.units, tmode]), 'nontrivial': False, 'violations': [], 'inconclusive': None,
           'features': sorted(case.features) + ['tmode_' + tmode], 'counters': {'cases_' + tmode: 1}}
    wd = ctx['scratch'] / f'c{idx}'
    shutil.rmtree(wd, ignore_errors=True)
    wd.mkdir(parents=True)
    witness = {'tmode': tmode, 'flags': flags, 'files': dict(case.files), 'main': case.driver}
    try:
        # generator sanity first: the original must build and run clean
        try:
            new, changed, nitems = transform(case, tmode, wd)
        except Exception as e:  # pylint: disable=broad-except
            # decide whether the original is sound before blaming the transformation
            chk = differential(wd / 'chk', case.files, case.files, [], ('main.F90', case.driver), case.stdins[:1])
            if chk['status'] in ('orig_bad', 'timeout'):
                res['inconclusive'] = ('generator defect: ' if chk['status'] == 'orig_bad' else 'timeout: ') + chk['detail'][:300]
                return res
            key = classify(tmode, hazard, f'exception:{innermost_loki_frame(e)}', '')
            res['violations'].append({'key': key, 'msg': f'{type(e).__name__}: {e}'[:500], 'witness': witness})
            return res
        res['counters']['scheduler_items'] = nitems
        res['counters']['files_changed'] = len(changed)
        d = differential(wd / 'x', case.files, new, changed, ('main.F90', case.driver), case.stdins)
        res['counters']['program_runs'] = d['runs'] * 2
        res['counters']['transformed_builds'] = 1 if d['status'] != 'orig_bad' else 0
        witness['transformed'] = {n: t for n, t in new if n in changed}
        if d['status'] == 'orig_bad':
            res['inconclusive'] = 'generator defect: ' + d['detail'][:400]
        elif d['status'] == 'timeout':
            res['inconclusive'] = 'timeout (wall-clock effects are never a verdict): ' + d['detail'][:200]
        elif d['status'] == 'new_build_fail':
            res['violations'].append({'key': classify(tmode, hazard, 'compile', d['detail']),
                                      'msg': d['detail'][:700], 'witness': witness})
        elif d['status'] == 'differ':
            witness['diff'] = {k: d.get(k) for k in ('detail', 'stdin', 'orig_out', 'new_out', 'new_err')}
            res['violations'].append({'key': classify(tmode, hazard, 'differ', d['detail'] + ' ' + d.get('new_err', '')),
                                      'msg': d['detail'][:700], 'witness': witness})
        else:
            res['nontrivial'] = bool(changed)
            if hazard:
                res['counters']['hazard_cases_equal'] = 1
            res['sample'] = {'tmode': tmode, 'features': sorted(case.features), 'changed': changed,
                             'calls': case.meta['calls'], 'lines': len(case.units.splitlines())}
    finally:
        shutil.rmtree(wd, ignore_errors=True)
    return res
