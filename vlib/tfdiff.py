"""
Differential execution of original vs transformed Fortran sources for the transformation checks C32 / C33
(built on vlib.diffexec: gfortran -O0 -fcheck=all, ASan + UBSan, FPE traps, snan initialisation).

Differences to ``diffexec.differential``: an absolute tolerance for reals (transformations may re-associate real
expressions, so results close to zero must not be compared relatively), separate statuses for run-time reports and
time-outs of the transformed program, and compile-error normalisation for mechanism keys.
"""
import re
import shutil
import traceback
from pathlib import Path

from vlib import diffexec


class BuildTimeout(diffexec.BuildError):
    """the compiler did not finish in time (wall-clock effect: inconclusive, never a compile error)"""


def differential(workdir, orig_sources, new_sources, driver, stdins, rtol=1e-9, atol=1e-9, timeout=120):
    """
    status: equal | differ | runtime (transformed program stopped with a run-time report / non-zero exit) |
            orig_bad | new_build_fail | new_timeout
    """
    workdir = Path(workdir)
    od, nd = workdir / 'orig', workdir / 'new'
    shutil.rmtree(od, ignore_errors=True)
    shutil.rmtree(nd, ignore_errors=True)
    try:
        oexe = build_single(od, list(orig_sources) + [driver])
    except diffexec.BuildError as e:
        return {'status': 'orig_bad', 'detail': str(e), 'runs': 0}
    try:
        nexe = build_single(nd, list(new_sources) + [driver])
    except BuildTimeout:
        return {'status': 'new_timeout', 'detail': 'compiling the transformed program timed out', 'runs': 0}
    except diffexec.BuildError as e:
        return {'status': 'new_build_fail', 'detail': str(e), 'runs': 0}
    nruns = 0
    for sin in stdins:
        ro = diffexec.run(oexe, stdin=sin, timeout=timeout)
        if ro['rc'] == -999:
            return {'status': 'orig_bad', 'detail': 'original timed out', 'runs': nruns}
        if ro['san'] or ro['rc'] != 0:
            return {'status': 'orig_bad', 'detail': f"original rc={ro['rc']} {ro['san'][:2]} {ro['err'][-300:]}",
                    'runs': nruns}
        rn = diffexec.run(nexe, stdin=sin, timeout=timeout)
        nruns += 1
        if rn['rc'] == -999:
            return {'status': 'new_timeout', 'detail': 'transformed program timed out', 'stdin': sin, 'runs': nruns}
        if rn['san'] or rn['rc'] != 0:
            return {'status': 'runtime', 'detail': f"transformed rc={rn['rc']} {rn['san'][:2]} {rn['err'][-300:]}",
                    'stdin': sin, 'runs': nruns, 'new_err': rn['err'][-800:]}
        eq, why = diffexec.outputs_equal(ro, rn, rtol=rtol, atol=atol)
        if not eq:
            return {'status': 'differ', 'detail': why, 'stdin': sin, 'orig_out': ro['out'][-1500:],
                    'new_out': rn['out'][-1500:], 'runs': nruns}
    return {'status': 'equal', 'detail': '', 'runs': nruns}


def build_single(workdir, sources, timeout=300):
    """compile and link all sources (dependency order) as one file with one gfortran invocation (cheaper under load)"""
    workdir = Path(workdir)
    workdir.mkdir(parents=True, exist_ok=True)
    text = '\n'.join(t for _, t in sources)
    (workdir / 'all.F90').write_text(text)
    rc, _, err = diffexec._run(['gfortran'] + diffexec.FFLAGS + ['all.F90', '-o', 'a.out'], workdir, timeout)
    if rc == -999:
        raise BuildTimeout('fc', 'compiler timed out')
    if rc != 0:
        raise diffexec.BuildError('fc', f'all.F90: {err[-1500:]}')
    return workdir / 'a.out'


def norm_compile_error(detail):
    m = re.search(r'Error: (.{0,120})', detail or '')
    if not m:
        return 'unknown'
    msg = re.sub(r"'[^']*'|‘[^’]*’", 'X', m.group(1))
    msg = re.sub(r'\(\d+\)', '', msg)
    return re.sub(r'[^A-Za-z]+', '-', msg).strip('-')[:60]


def innermost_loki_frame(exc):
    name = '?'
    for fr in traceback.extract_tb(exc.__traceback__):
        if '/loki/' in fr.filename:
            name = fr.name
    return name


SYMPTOM = {'differ': 'differ', 'runtime': 'runtime', 'new_build_fail': 'compile'}
