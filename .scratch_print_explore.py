import sys, json, collections
from pathlib import Path
from vlib import wflab, wfrun, core, wellformed as wf
from vlib.checks import c41
res = collections.Counter(); ex = {}
for seed in (0, 1):
  for k in range(5):
    for slot in range(6):
        idx = 40 + 64 * k + slot
        entries, is_sched = c41.slice_entries(slot)
        rng = core.case_rng('C41', seed, idx)
        gates = c41.gates_for(idx)
        assert gates['io_in_kernel']
        gates.update(wflab.slice_requirements(entries, rng))
        wc = wflab.make_case(rng, idx, gates)
        if 'print' not in wc.text.lower(): continue
        fresh = wfrun.Fresh(wc.text)
        for e in entries:
            for o in wflab.option_combos(e.space)[:6]:
                if e.pre and not e.pre(wc, o): continue
                sf = fresh.get()
                x = wflab.X(sf, wc)
                try:
                    e.apply(x, o)
                except Exception as exn:
                    continue
                issues, _ = wf.check_ir(sf)
                for i in issues:
                    if 'PrintStmt' in i['where']:
                        key = (e.name, i['kind'], i['key'])
                        res[key] += 1
                        ex.setdefault(key, (seed, idx, o, i['msg']))
for k, n in sorted(res.items()):
    print(n, k, ex[k])
