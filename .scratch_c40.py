import sys, collections
from vlib import wflab, wfrun, core
from vlib.checks import c40
seed = int(sys.argv[1]); n = int(sys.argv[2])
e = wflab.REG_BY_NAME['do_remove_dead_code']
stat = collections.Counter()
for idx in range(n):
    rng = core.case_rng('C40', seed, idx)
    gates = c40.gates_for(idx)
    gates.update(wflab.slice_requirements(c40.ENTRIES, rng))
    if rng.random() < 0.25:
        gates['pflags'].pop('kinds_module', None)
    gates['mixed_case'] = rng.random() < 0.35
    wc = wflab.make_case(rng, idx, gates)
    sel = 'd:dead_select' in wc.features
    stat['select' if sel else 'other'] += 1
    fresh = wfrun.Fresh(wc.text)
    for o in wflab.option_combos(e.space):
        sf = fresh.get(); x = wflab.X(sf, wc)
        e.apply(x, o); t1 = sf.to_fortran()
        e.apply(x, o); t2 = sf.to_fortran()
        if t1 != t2:
            stat[('DIFF', sel)] += 1
            print(idx, o, 'select' if sel else '', c40.first_text_diff(t1, t2))
print(dict(stat))
