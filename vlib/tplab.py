"""
Transpilation lab for C35 / C36: run Loki's Fortran->C (+ISO-C wrapper) or Fortran->Python
transformations on a generated kernel, build / execute original and translation, compare outputs.
"""
import json
import re
import shutil
import subprocess
import sys
import traceback
from pathlib import Path

from vlib import diffexec

# tolerances (relative, absolute) per printed tag; see tpgen: stored reals are bounded by 8, subexpressions by 64
RUN_TIMEOUT = 180
TOL = {'d': (1e-11, 1e-10), 'f': (1e-4, 1e-3)}


def loki_frame(exc):
    name = '?'
    for fr in traceback.extract_tb(exc.__traceback__):
        if '/loki/' in fr.filename:
            name = f'{Path(fr.filename).stem}.{fr.name}'
    return name


def exc_key(exc):
    e = exc
    # TransformationError wraps the real cause
    while e.__cause__ is not None:
        e = e.__cause__
    msg = re.sub(r'[^A-Za-z_ ]+', ' ', str(e))[:40].strip().replace(' ', '-')
    return f'{type(e).__name__}@{loki_frame(e)}:{msg}'


# ----------------------------------------------------------------------------- C path
def transpile_c(case, outdir, use_c_ptr):
    """apply the transformations as the Loki tests do; returns {filename: text}"""
    from loki import Subroutine, Module
    from loki.transformations.transpile import FortranCTransformation, FortranISOCWrapperTransformation
    outdir = Path(outdir)
    shutil.rmtree(outdir, ignore_errors=True)
    outdir.mkdir(parents=True)
    module = Module.from_source(case.tmod) if case.tmod else None
    routine = Subroutine.from_source(case.kernel, definitions=module)
    f2cwrap = FortranISOCWrapperTransformation(use_c_ptr=use_c_ptr)
    if module is not None:
        f2cwrap.apply(source=module, path=outdir, role='header')
    f2c = FortranCTransformation()
    f2c.apply(source=routine, path=outdir, role='kernel')
    f2cwrap.apply(source=routine, path=outdir, role='kernel')
    return {p.name: p.read_text() for p in sorted(outdir.iterdir())}


FFLAGS_PLAIN = [f for f in diffexec.FFLAGS if not f.startswith('-fsanitize') and not f.startswith('-fno-sanitize')]
SAN_LINK = ['-fsanitize=address,undefined']


class CaseBuild:
    """
    Builds the executables of one case in one directory with as few compiler processes as possible: all
    Fortran units of an executable are concatenated into one file and compiled + linked by one gfortran
    command (-fcheck=all, FPE traps); the generated C is compiled with gcc ASan+UBSan; every executable is
    linked against the sanitizer run-times.  If a concatenated build fails the parts are compiled one by
    one to attribute the failure.
    """

    def __init__(self, wd):
        self.wd = Path(wd)
        shutil.rmtree(self.wd, ignore_errors=True)
        self.wd.mkdir(parents=True)
        self.cobj = None
        self.ncompile = 0

    def write(self, name, text):
        (self.wd / name).write_text(text)

    def _cmd(self, cmd):
        rc, _out, err = diffexec._run(cmd, self.wd, 600)       # pylint: disable=protected-access
        self.ncompile += 1
        if rc == -999:
            raise diffexec.BuildError('timeout', ' '.join(cmd[-3:]))
        return rc, err

    def fortran_exe(self, name, parts, exe, objs=()):
        """parts: list of (stage, text).  One gfortran command; on failure attribute it to a part."""
        text = '\n'.join(t for _s, t in parts)
        self.write(name, text)
        rc, err = self._cmd(['gfortran'] + FFLAGS_PLAIN + SAN_LINK + [name] + list(objs) + ['-o', exe])
        if rc == 0:
            return self.wd / exe
        # attribute: compile the parts separately, in order
        for q, (stage, t) in enumerate(parts):
            pn = f'part{q}_{name}'
            self.write(pn, (parts[0][1] if parts[0][0] == 'define' and q else '') + t)
            if stage == 'define':
                continue
            rc2, err2 = self._cmd(['gfortran'] + FFLAGS_PLAIN + ['-c', pn, '-o', pn + '.o'])
            if rc2 != 0:
                raise diffexec.BuildError(stage, err2[-1500:])
        raise diffexec.BuildError('link', err[-1500:])

    def c_object(self, files):
        sig = tuple(sorted((n, t) for n, t in files.items() if n.endswith(('.h', '.c'))))
        if self.cobj == sig:
            return 'kern_c.o'
        for n, t in files.items():
            if n.endswith(('.h', '.c')):
                self.write(n, t)
        rc, err = self._cmd(['gcc'] + diffexec.CFLAGS + ['-c', 'kern_c.c', '-o', 'kern_c.o'])
        if rc != 0:
            self.cobj = None
            raise diffexec.BuildError('cc', err[-1500:])
        self.cobj = sig
        return 'kern_c.o'


def build_orig(case, cb):
    """original kernel (wrapped in module kmod) + untouched driver"""
    parts = []
    if case.tmod:
        parts.append(('orig', case.tmod))
    parts.append(('orig', 'module kmod\ncontains\n' + case.kernel + 'end module kmod\n'))
    parts.append(('orig', case.driver))
    try:
        return cb.fortran_exe('orig_all.F90', parts, 'orig.exe')
    except diffexec.BuildError as e:
        raise diffexec.BuildError('orig', e.msg) from e


def build_c(case, files, cb, tag):
    """generated C kernel + generated wrapper module(s) + the same driver (with USE_FC defined)"""
    obj = cb.c_object(files)
    parts = [('define', '#define USE_FC\n')]
    if case.tmod:
        parts.append(('orig', case.tmod))
        if 'tmod_fc.F90' in files:
            parts.append(('fc', files['tmod_fc.F90']))
    parts.append(('fc', files['kern_fc.F90']))
    parts.append(('fc', case.driver))
    return cb.fortran_exe(f'new_{tag}.F90', parts, f'new_{tag}.exe', objs=[obj])


def parse_output(out):
    vals = []
    for ln in out.splitlines():
        p = ln.split()
        if len(p) != 3:
            vals.append(('?', '?', ln))
            continue
        vals.append((p[0], p[1], p[2]))
    return vals


def _num(tag, s):
    if tag == 'i':
        return int(s)
    if tag == 'l':
        return s == 'T'
    return float(s)


def compare_values(ref, new, tainted):
    """ref/new: lists of (name, tag, value-as-python); returns list of mismatch dicts"""
    mism = []
    if len(ref) != len(new):
        return [{'name': '*', 'tag': 'shape', 'why': f'{len(ref)} vs {len(new)} output values'}]
    pos = {}
    cur = 0
    for (na, ta, va), (nb, tb, vb) in zip(ref, new):
        if na == '===':
            cur, pos = va, {}
        q = pos[na] = pos.get(na, -1) + 1
        if na != nb or ta != tb:
            return [{'name': na, 'tag': 'shape', 'why': f'output record {na}/{ta} vs {nb}/{tb}'}]
        if ta in ('i', 'l'):
            ok = va == vb
        else:
            rt, at = TOL['f'] if (tainted or ta == 'f') else TOL['d']
            ok = (va == vb) or abs(va - vb) <= at + rt * max(abs(va), abs(vb))
            if va != va or vb != vb:
                ok = (va != va) and (vb != vb)
        if not ok:
            mism.append({'set': cur, 'name': na, 'tag': ta, 'pos': q, 'ref': va, 'new': vb})
    return mism


def run_pair(oexe, nexe, case, counters, cache=None):
    """run both executables on all input sets; returns ('ok'|'orig_bad'|'runtime'|'differ'|'timeout', detail)"""
    cache = {} if cache is None else cache
    for q, sin in enumerate(case.stdins):
        if q not in cache:
            ro = diffexec.run(oexe, stdin=sin, timeout=RUN_TIMEOUT)
            counters['program_runs'] = counters.get('program_runs', 0) + 1
            if ro['rc'] != 0 or ro['san']:
                return 'orig_bad', f"input {q}: rc={ro['rc']} {ro['san'][:2]} {ro['err'][-300:]}"
            try:
                cache[q] = [(n, t, _num(t, v)) for n, t, v in parse_output(ro['out'])]
            except ValueError as e:
                return 'orig_bad', f'unparsable original output: {e}'
        a = cache[q]
        rn = diffexec.run(nexe, stdin=sin, timeout=RUN_TIMEOUT)
        counters['program_runs'] = counters.get('program_runs', 0) + 1
        if rn['rc'] == -999:
            return 'timeout', f'input {q}: translated program timed out'
        if rn['rc'] != 0 or rn['san']:
            return 'runtime', {'input': q, 'rc': rn['rc'], 'san': rn['san'][:3], 'err': rn['err'][-600:]}
        try:
            b = [(n, t, _num(t, v)) for n, t, v in parse_output(rn['out'])]
        except ValueError as e:
            return 'differ', {'input': q, 'mismatches': [{'name': '*', 'tag': 'shape', 'why': f'unparsable: {e}'}]}
        counters['values_compared'] = counters.get('values_compared', 0) + len(a)
        counters['output_comparisons'] = counters.get('output_comparisons', 0) + 1
        mism = compare_values(a, b, case.tainted)
        if mism:
            return 'differ', {'input': q, 'stdin': sin, 'mismatches': mism[:6], 'n_mismatch': len(mism)}
    return 'ok', ''


def norm_msg(err):
    """a stable short token out of a compiler / linker / sanitizer message"""
    mu = re.search(r'undefined reference to [`\'"‘]?(\w+)', err)
    m = re.search(r'(?:error|Error): (.{0,90})', err)
    if mu:
        t = 'undefined-reference-to-' + mu.group(1)
    elif m:
        t = m.group(1)
    else:
        t = err.strip().splitlines()[-1] if err.strip() else 'unknown'
    t = re.sub(r"[‘’'`\"]", '', t)
    t = re.sub(r'\b(ia|ra|la|wr|wi)\d\b', 'ARR', t)
    t = re.sub(r'\d+', 'N', t)
    return re.sub(r'[^A-Za-z_]+', '-', t).strip('-')[:60]


def san_token(san, err):
    txt = ' '.join(san) + ' ' + err
    for pat, tok in ((r'heap-buffer-overflow', 'heap-buffer-overflow'), (r'stack-buffer-overflow', 'stack-buffer-overflow'),
                     (r'dynamic-stack-buffer-overflow', 'vla-overflow'), (r'SEGV', 'segv'),
                     (r'signed integer overflow', 'int-overflow'), (r'division by zero', 'div-by-zero'),
                     (r'out of bounds', 'index-out-of-bounds'), (r'Fortran runtime error: ([A-Za-z ]{0,40})', None),
                     (r'SIGFPE', 'sigfpe')):
        m = re.search(pat, txt)
        if m:
            return tok or re.sub(r'[^A-Za-z]+', '-', m.group(1)).strip('-')
    return 'nonzero-exit'


# ----------------------------------------------------------------------------- Python path
def transpile_py(case, outdir):
    from loki import Subroutine
    from loki.transformations.transpile import FortranPythonTransformation
    outdir = Path(outdir)
    shutil.rmtree(outdir, ignore_errors=True)
    outdir.mkdir(parents=True)
    routine = Subroutine.from_source(case.kernel)
    FortranPythonTransformation().apply(source=routine, path=outdir)
    return (outdir / 'kern.py').read_text()


PY_RUNNER = r'''
import importlib.util, json, sys, traceback, warnings
import numpy as np
warnings.simplefilter('ignore')
spec = json.load(open(sys.argv[1]))
res = {'import_error': None, 'runs': []}
try:
    sp = importlib.util.spec_from_file_location('kern', sys.argv[2])
    mod = importlib.util.module_from_spec(sp)
    sp.loader.exec_module(mod)
    fn = mod.kern
except BaseException as e:
    res['import_error'] = f'{type(e).__name__}: {e}'
    json.dump(res, open(sys.argv[3], 'w'))
    sys.exit(0)
DT = {'int': np.int32, 'log': np.bool_}
def dtype(typ, kind, kb):
    if typ == 'real':
        return np.float32 if kb.get(kind) == 4 else np.float64
    return DT[typ]
for inp in spec['inputs']:
    env = {k: inp[k] for k in ('n', 'm', 'lo') if k in inp}
    call, arrays, names = [], {}, []
    for name, typ, kind, intent, dims in spec['args']:
        dt = dtype(typ, kind, spec['kindbytes'])
        if dims:
            shape = tuple(eval(hi, {}, env) - eval(lo, {}, env) + 1 for lo, hi in dims)
            if intent == 'out':
                a = np.full(shape, {'int': -777, 'log': False}.get(typ, -777.0), dtype=dt, order='F')
            else:
                a = np.array(inp[name], dtype=dt).reshape(shape, order='F')
                a = np.asfortranarray(a)
            arrays[name] = a
            call.append(a)
        elif intent == 'out':
            continue
        else:
            v = inp[name]
            call.append(bool(v) if typ == 'log' else dt(v))
    run = {'error': None, 'ret': None, 'arrays': {}}
    try:
        ret = fn(*call)
        if ret is None:
            ret = ()
        if not isinstance(ret, tuple):
            ret = (ret,)
        out = []
        for r in ret:
            if isinstance(r, np.ndarray):
                r = r.item() if r.size == 1 else r.tolist()
            cls = type(r).__name__
            if isinstance(r, (bool, np.bool_)):
                out.append(['l', bool(r), cls])
            elif isinstance(r, (int, np.integer)):
                out.append(['i', int(r), cls])
            elif isinstance(r, (float, np.floating)):
                out.append(['r', float(r), cls])
            else:
                out.append(['?', repr(r), cls])
        run['ret'] = out
        for k, a in arrays.items():
            run['arrays'][k] = [x.item() for x in a.flatten(order='F')]
    except BaseException as e:
        tb = traceback.extract_tb(e.__traceback__)
        line = next((f.line for f in reversed(tb) if f.filename.endswith('kern.py')), '')
        run['error'] = {'type': type(e).__name__, 'msg': str(e)[:300], 'line': line}
    res['runs'].append(run)
json.dump(res, open(sys.argv[3], 'w'))
'''


def run_python(case, pysrc, wd, timeout=120):
    wd = Path(wd)
    wd.mkdir(parents=True, exist_ok=True)
    (wd / 'kern.py').write_text(pysrc)
    (wd / 'runner.py').write_text(PY_RUNNER)
    (wd / 'spec.json').write_text(json.dumps({'inputs': case.inputs, 'args': case.args,
                                              'kindbytes': case.kindbytes}))
    try:
        p = subprocess.run([sys.executable, 'runner.py', 'spec.json', 'kern.py', 'res.json'], cwd=str(wd),
                           capture_output=True, text=True, timeout=timeout)
    except subprocess.TimeoutExpired:
        return None, 'TIMEOUT'
    if not (wd / 'res.json').exists():
        return None, (p.stderr or '')[-800:]
    return json.loads((wd / 'res.json').read_text()), ''
