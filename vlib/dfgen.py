"""
Generator of routines inside the subset of the tracing IR interpreter (vlib/irinterp.py), for
the dataflow-analysis properties C26 / C27.

The generator keeps a *model* of (a) what is surely written at every program point (so that every
generated program is well-defined: nothing is read before it is fully defined) and (b) of how the
region-based analysis in loki/analyse/dataflow_analysis.py combines def/use sets (``sdef`` = names it
will hold in ``defines`` so far in this body, ``used`` = names in ``uses``).  A read is *hazardous*
when the analysis' "defined earlier in this body => not a use" rule would drop it although the
earlier definition is only a may-definition (one branch, one element, zero-trip loop, masked
assignment, ...).  Hazardous shapes -- each of which triggers a known mechanism -- are only generated
when the corresponding flag in ``hz`` is set, so that the bulk of the cases stays clean and any
*other* deviation is visible.

    g = DFGen(rng, hz={'kill': False, 'live': False, 'noint': False, ...}, mode='same'|'enrich'|'unenriched')
    case = g.generate()
    case.source_k / case.source_h / case.driver / case.inputs / case.meta
"""
import random
import re
import zlib
from dataclasses import dataclass, field

from vlib.fgenlab import ExprGen

RK = 'jprb'
INPUTS = ((3, 1), (4, 2), (2, 5), (5, 3))     # (n, seed) per input set

HAZARDS = ('kill', 'live', 'noint', 'assoc_expr', 'memq', 'loopvar_after', 'zero_trip', 'call_dim', 'raw_kill')

_IDENT = re.compile(r'[a-z_][a-z0-9_]*')
_MEMQ_CALL = re.compile(r'\b(size|lbound|ubound)\(\s*([a-z_][a-z0-9_]*)\s*(,\s*[0-9]+\s*)?\)')


class Var:
    __slots__ = ('name', 'typ', 'rank', 'role', 'lb', 'alias_of', 'part')

    def __init__(self, name, typ, rank=0, role='local', lb=1, alias_of=None, part=None):
        self.name = name
        self.typ = typ
        self.rank = rank
        self.role = role          # in | inout | out | none | local | alias
        self.lb = lb
        self.alias_of = alias_of  # base variable name for associate names
        self.part = part          # 'whole' | 'section' | 'element' for aliases

    def dims(self):
        if self.rank == 0:
            return ''
        d1 = 'n' if self.lb == 1 else '0:n - 1'
        return f'({d1})' if self.rank == 1 else f'({d1}, 2)'

    def decl(self):
        t = {'int': 'integer', 'real': f'real(kind={RK})', 'logical': 'logical'}[self.typ]
        if self.role in ('in', 'inout', 'out'):
            t += f', intent({self.role})'
        return f'{t} :: {self.name}{self.dims()}'


class Frame:
    __slots__ = ('kind', 'used', 'sdef', 'must', 'sdef_all', 'must_all', 'nbranch', 'alias', 'wmust')

    def __init__(self, kind):
        self.kind = kind
        self.used = set()
        self.sdef = set()
        self.must = set()
        self.sdef_all = set()
        self.must_all = None
        self.nbranch = 0
        self.alias = {}
        self.wmust = set()     # WHERE body: arrays written under the current mask (aligned reads are safe)


class Model:
    """Model of definedness and of the analysis' def/use bookkeeping (see module docstring)."""

    def __init__(self, initdef, initlive):
        self.frames = [Frame('top')]
        self.initdef = set(initdef)
        self.initlive = set(initlive)
        self.loop_depth = 0
        self.loop_live = None
        self.accs = []

    def base(self, v):
        for f in reversed(self.frames):
            if v in f.alias:
                v = f.alias[v]
        return v

    def defined(self, v):
        if v in self.initdef:
            return True
        for f in reversed(self.frames):
            if v in f.must:
                return True
            if v in f.alias:
                v = f.alias[v]
                if v in self.initdef:
                    return True
        return False

    def read_status(self, v, where_aligned=False):
        if not self.defined(v):
            return 'undef'
        for f in reversed(self.frames):
            if v in f.must or (where_aligned and v in f.wmust):
                return 'safe'
            if not (v in f.used or v not in f.sdef):
                return 'hazard'
            if v in f.alias:
                v = f.alias[v]
        return 'safe'

    def live_now(self):
        s = set(self.initlive)
        for f in self.frames:
            s |= f.sdef
            s |= {f.alias.get(x, x) for x in f.sdef}
        return s

    def write_live_ok(self, v):
        if self.loop_depth == 0:
            return True
        return self.base(v) in self.loop_live

    def note_read(self, v, hdr=False):
        f = self.frames[-1]
        if v not in f.sdef:
            f.used.add(v)
        b = self.base(v)
        for a in self.accs:
            a['R'].add(b)
            if hdr:
                a['hdr'].add(b)

    def note_write(self, v, must):
        f = self.frames[-1]
        f.sdef.add(v)
        if must:
            f.must.add(v)
        b = self.base(v)
        for a in self.accs:
            a['W'].add(b)

    def open(self, kind, alias=None):
        f = Frame(kind)
        if alias:
            f.alias = dict(alias)
        self.frames.append(f)
        if kind in ('loop', 'while'):
            if self.loop_depth == 0:
                self.loop_live = self.live_now()
            self.loop_depth += 1
        return f

    def next_branch(self, keep_sdef=False):
        f = self.frames[-1]
        f.sdef_all |= f.sdef
        f.must_all = set(f.must) if f.must_all is None else (f.must_all & f.must)
        f.nbranch += 1
        if not keep_sdef:
            f.sdef = set()
        f.must = set()
        f.wmust = set()

    def close(self, must_ok, drop=()):
        """pop the construct frame and fold it into the parent as the analysis does"""
        f = self.frames.pop()
        if f.kind in ('loop', 'while'):
            self.loop_depth -= 1
        f.sdef_all |= f.sdef
        must = set(f.must) if f.must_all is None else set(f.must_all)
        p = self.frames[-1]
        ren = f.alias
        for v in f.used:
            v = ren.get(v, v)
            if v in drop:
                continue
            if v not in p.sdef:
                p.used.add(v)
        for v in f.sdef_all:
            if v in drop:
                continue
            p.sdef.add(ren.get(v, v))
        added = set()
        if must_ok:
            for v in must:
                if v in drop:
                    continue
                if v in ren:
                    continue          # handled by the caller (whole-variable aliases only)
                if v not in p.must:
                    added.add(v)
                p.must.add(v)
        return must, added


@dataclass
class RoutineInfo:
    name: str
    dummies: list
    lines: list
    summary: dict = field(default_factory=dict)   # dummy -> dict(reads, writes, must)
    blocks: list = field(default_factory=list)    # list of dict(kind, stmts=[acc...])
    features: set = field(default_factory=set)
    hz_used: set = field(default_factory=set)
    first_line: int = 0


@dataclass
class DFCase:
    source_k: str
    source_h: str
    driver: str
    inputs: list
    kernel: RoutineInfo
    callees: list
    mode: str
    features: set
    hz_used: set
    meta: dict


class _ExprGen(ExprGen):
    def damp(self, e):
        """bound a real expression (without duplicating its text: fparser is slow on long lines)"""
        c = self.rng.randrange(4)
        if c == 0:
            return f'sin({e})'
        if c == 1:
            return f'3.0_{self.rk}*tanh({e})'
        if c == 2:
            return f'min(max({e}, -50.0_{self.rk}), 50.0_{self.rk})'
        return f'2.0_{self.rk}*cos({e})'


class _Env:
    """leaf provider for ExprGen"""

    def __init__(self, rg):
        self.rg = rg

    def int_leaves(self):
        return self.rg.leaves('int')

    def real_leaves(self):
        return self.rg.leaves('real')

    def log_leaves(self):
        return self.rg.leaves('logical')


class RoutineGen:
    """Generates one routine body together with its model."""

    def __init__(self, rng, name, hz, is_kernel, callees, mode, budget, case_mix=True):
        self.rng = rng
        self.name = name
        self.case_mix = case_mix
        self.hz = hz
        self.is_kernel = is_kernel
        self.callees = callees        # list of RoutineInfo that may be called
        self.mode = mode
        self.budget = budget
        self.eg = _ExprGen(rng, {'intrinsics': True}, rk=RK)
        self.env = _Env(self)
        self.vars = {}
        self.order = []
        self.loops = []               # active loops: dict(var, lo2, hin1, dim)
        self.hidden = set()           # names not referenced directly (aliased in an associate)
        self.busy = set()             # names not writable at the moment
        self.lines = []
        self.features = set()
        self.hz_used = set()
        self.blocks = []
        self.model = None
        self.where_ctx = False
        self.nstmt = 0
        self.stmt_memq = set()     # arrays offered as memory-query arguments in the current statement
        self.stmt_whole = set()    # arrays offered as whole-array operands in the current statement

    # -- variables --------------------------------------------------------------
    def add(self, v):
        self.vars[v.name] = v
        self.order.append(v.name)
        return v

    def setup_vars(self):
        rng = self.rng
        pre = '' if self.is_kernel else 'c'
        roles_dummy = ['in', 'inout', 'out', 'inout', 'in']
        if self.hz.get('noint'):
            roles_dummy += ['none', 'none', 'none']

        def role(p_dummy):
            if rng.random() < p_dummy:
                return rng.choice(roles_dummy)
            return 'local'
        pd = 0.55 if self.is_kernel else 0.8
        nrole = 'in'
        if self.hz.get('noint') and rng.random() < 0.3:
            nrole = 'none'
        self.add(Var('n', 'int', 0, nrole))
        kk = self.is_kernel
        for k in range(rng.randint(2, 4) if kk else rng.randint(1, 2)):
            self.add(Var(f'{pre}x{k + 1}', 'real', 0, role(pd)))
        for k in range(rng.randint(1, 3) if kk else 1):
            self.add(Var(f'{pre}k{k + 1}', 'int', 0, role(pd)))
        for k in range(rng.randint(1, 2) if kk else rng.randint(0, 1)):
            self.add(Var(f'{pre}g{k + 1}', 'logical', 0, role(pd * 0.6)))
        for k in range(rng.randint(2, 3) if kk else rng.randint(1, 2)):
            self.add(Var(f'{pre}a{k + 1}', 'real', 1, role(pd), lb=rng.choice([1, 1, 0])))
        if rng.random() < (0.6 if kk else 0.3):
            self.add(Var(f'{pre}b1', 'real', 2, role(pd), lb=rng.choice([1, 1, 0])))
        if rng.random() < (0.5 if kk else 0.25):
            self.add(Var(f'{pre}m1', 'int', 1, role(pd)))
        if rng.random() < (0.5 if kk else 0.2):
            self.add(Var(f'{pre}q1', 'logical', 1, role(pd * 0.6)))
        for nm in ('i', 'j', 'l'):
            self.add(Var(nm, 'int', 0, 'loopvar'))
        self.add(Var('w1', 'int', 0, 'local'))
        if not self.is_kernel:
            # a callee needs at least one dummy it writes
            ds = [v for v in self.vars.values() if v.role in ('inout', 'out', 'none') and v.name != 'n']
            if not ds:
                v = self.vars[f'{pre}x1']
                v.role = 'inout'

    @property
    def dummies(self):
        return [self.vars[nm] for nm in self.order if self.vars[nm].role in ('in', 'inout', 'out', 'none')]

    # -- readable / writable ----------------------------------------------------
    def can_read(self, nm, aligned=False):
        """True if reading ``nm`` here is well-defined and allowed by the hazard flags"""
        if nm in self.hidden:
            return False
        st = self.model.read_status(nm, aligned)
        if st == 'undef':
            return False
        if st == 'hazard':
            return bool(self.hz.get('kill'))
        return True

    def did_read(self, nm, hdr=False, aligned=False):
        if self.model.read_status(nm, aligned) == 'hazard':
            self.hz_used.add('kill')
        self.model.note_read(nm, hdr)

    def can_write(self, nm):
        v = self.vars[nm]
        if nm in self.hidden or nm in self.busy:
            return False
        if v.role in ('in', 'loopvar') or nm in ('n', 'w1'):
            return False
        if v.role == 'alias' and v.part is None:
            return False
        if not self.model.write_live_ok(nm):
            return bool(self.hz.get('live'))
        return True

    def did_write(self, nm, must):
        if not self.model.write_live_ok(nm):
            self.hz_used.add('live')
        self.model.note_write(nm, must)

    def names(self, typ=None, rank=None, pred=None):
        out = []
        for nm in self.order:
            v = self.vars[nm]
            if v.role == 'loopvar' or nm in ('n', 'w1'):
                continue
            if typ is not None and v.typ != typ:
                continue
            if rank is not None and v.rank != rank:
                continue
            if pred is not None and not pred(nm):
                continue
            out.append(nm)
        return out

    # -- subscripts -------------------------------------------------------------
    def _idx1(self, lb, const_only=False):
        """index text into a dimension of extent n with lower bound lb"""
        rng = self.rng
        if const_only:
            return str(rng.choice([1, 2]) + (lb - 1))
        cands = []
        for lp in self.loops:
            if lp['dim'] != 'n':
                continue
            cands += [lp['var']] * 4
            if lp['lo2']:
                cands += [f"{lp['var']} - 1"] * 2
            if lp['hin1']:
                cands += [f"{lp['var']} + 1"] * 2
            cands.append(f"n + 1 - {lp['var']}")
        consts = ['1', '2', 'n', 'n - 1']
        ints = [nm for nm in self.names('int', 0) if self.can_read(nm)]
        c = rng.random()
        if cands and c < 0.75:
            e = rng.choice(cands)
        elif ints and c < 0.85:
            k = rng.choice(ints)
            e = f'1 + mod(abs({k}), n)' if rng.random() < 0.5 else f'max(1, min(n, {k}))'
        else:
            e = rng.choice(consts)
        if lb == 0:
            e = f'{e} - 1'
        return e

    def _idx2(self):
        for lp in self.loops:
            if lp['dim'] == '2' and self.rng.random() < 0.8:
                return lp['var']
        return self.rng.choice(['1', '2'])

    def elem(self, nm, const_only=False):
        v = self.vars[nm]
        if v.rank == 1:
            return f'{nm}({self._idx1(v.lb, const_only)})'
        if const_only:
            return f'{nm}({self._idx1(v.lb, True)}, {self.rng.choice([1, 2])})'
        return f'{nm}({self._idx1(v.lb)}, {self._idx2()})'

    # -- leaves for ExprGen -----------------------------------------------------
    def leaves(self, typ):
        rng = self.rng
        out = []
        for nm in self.names(typ):
            if not self.can_read(nm):
                continue
            v = self.vars[nm]
            t = nm if v.rank == 0 else self.elem(nm)
            out.append((t, 40) if typ == 'int' else t)
        if typ == 'int':
            if self.can_read('n'):
                out.append(('n', 5))
            for lp in self.loops:
                out.append((lp['var'], 6))
            arrs = [nm for nm in self.names(None) if self.vars[nm].rank > 0 and nm not in self.hidden]
            arrs = [a for a in arrs if a not in self.stmt_whole or self.hz.get('memq')]
            if arrs and rng.random() < 0.3:
                a = rng.choice(arrs)
                self.stmt_memq.add(a)
                v = self.vars[a]
                q = rng.choice(['size({a})', 'size({a}, 1)', 'ubound({a}, 1)', 'lbound({a}, 1)'])
                if v.role != 'alias':
                    out.append((q.format(a=a), 10))
                    self.features.add('memquery')
            if self.hz.get('loopvar_after') and self.model.defined('i') and \
                    'i' not in [lp['var'] for lp in self.loops] and 'i' not in self.busy:
                out.append(('i', 7))
                self.hz_used.add('loopvar_after')
        if typ == 'real' and rng.random() < 0.25:
            arrs = [nm for nm in self.names('real', 1) if self.can_read(nm)
                    and (nm not in self.stmt_memq or self.hz.get('memq'))]
            if arrs:
                a = rng.choice(arrs)
                self.stmt_whole.add(a)
                out.append(rng.choice([f'sum({a})', f'maxval({a})', f'minval({a})']))
                self.features.add('reduction')
        return out

    def reads_of(self, text):
        """variable names read by an expression text (arguments of memory queries excluded)"""
        t = _MEMQ_CALL.sub(' ', text.lower())
        return [w for w in _IDENT.findall(t) if w in self.vars]

    def expr(self, typ, depth=None, hdr=False):
        rng = self.rng
        depth = rng.choice([0, 1, 1, 2, 2, 3]) if depth is None else depth
        if typ == 'int':
            t, b = self.eg.int_expr(self.env, depth)
            if b > 40:
                t = f'mod({t}, {rng.choice([17, 19, 23, 37])})'
        elif typ == 'real':
            t = self.eg.real_expr(self.env, depth)
            if _IDENT.search(re.sub(r'_jprb|[0-9.]+', '', t)):
                t = self.eg.damp(t)
        else:
            t = self.eg.log_expr(self.env, depth)
        for nm in self.reads_of(t):
            self.did_read(nm, hdr)
        return t

    # -- emit -------------------------------------------------------------------
    def emit(self, ind, text):
        self.lines.append('  ' * ind + text)
        return len(self.lines) - 1

    def begin_stmt(self, block, compound=False, kind=''):
        acc = {'line': len(self.lines), 'R': set(), 'W': set(), 'M': set(), 'compound': compound,
               'hdr': set(), 'alias': set(), 'kind': kind, 'has': {kind}}
        for a in self.model.accs:
            a['has'].add(kind)
        self.stmt_memq = set()
        self.stmt_whole = set()
        block.append(acc)
        self.model.accs.append(acc)
        self.nstmt += 1
        return acc

    def end_stmt(self, acc, must=()):
        self.model.accs.pop()
        acc['M'] = {self.model.base(m) for m in must}

    # -- statements -------------------------------------------------------------
    def stmt_scalar_assign(self, ind, block):
        rng = self.rng
        cands = [nm for nm in self.names(None, 0) if self.can_write(nm)]
        if not cands:
            return False
        nm = rng.choice(cands)
        acc = self.begin_stmt(block, kind='assign')
        v = self.vars[nm]
        rhs = self.expr(v.typ)
        self.emit(ind, f'{nm} = {rhs}')
        self.did_write(nm, True)
        self.end_stmt(acc, [nm])
        self.features.add('scalar_assign')
        return True

    def stmt_elem_assign(self, ind, block):
        rng = self.rng
        cands = [nm for nm in self.names() if self.vars[nm].rank > 0 and self.can_write(nm)]
        if not cands:
            return False
        nm = rng.choice(cands)
        v = self.vars[nm]
        acc = self.begin_stmt(block, kind='elem')
        rhs = self.expr(v.typ)
        lhs = self.elem(nm)
        for r in self.reads_of(lhs):
            if r != nm:
                self.did_read(r)
        self.emit(ind, f'{lhs} = {rhs}')
        self.did_write(nm, False)
        self.end_stmt(acc)
        self.features.add('element_assign')
        return True

    def _arr_ref(self, nm, cls):
        """text of an array-valued reference to nm in shape class cls ('n', 'nm1a', 'nm1b', 'n2')"""
        v = self.vars[nm]
        lo = v.lb
        if v.rank == 2:
            if cls == 'n2':
                return nm
            col = self.rng.choice([1, 2])
            if cls == 'n':
                return f'{nm}(:, {col})'
            a = (lo, f'n - {2 - lo}' if 2 - lo else 'n') if cls == 'nm1a' else (lo + 1, 'n' if lo == 1 else 'n - 1')
            return f'{nm}({a[0]}:{a[1]}, {col})'
        if cls == 'n':
            return nm if self.rng.random() < 0.7 else f'{nm}(:)'
        if cls == 'nm1a':      # first n-1 elements
            return f'{nm}({lo}:n - 1)' if lo == 1 else f'{nm}(0:n - 2)'
        return f'{nm}(2:n)' if lo == 1 else f'{nm}(1:n - 1)'

    def arr_expr(self, typ, cls, depth=2, aligned=False):
        """array-valued expression text of shape class cls; returns (text, reads)"""
        rng = self.rng
        rank = 2 if cls == 'n2' else None

        def ops(t):
            out = []
            for nm in self.names(t):
                v = self.vars[nm]
                if v.rank == 0 or not self.can_read(nm, aligned and cls == 'n' and v.rank == 1):
                    continue
                if rank == 2 and v.rank != 2:
                    continue
                if v.role == 'alias' and (v.rank != 1 or cls != 'n'):
                    continue
                out.append(nm)
            return out
        reads = []

        def operand(t, force=False):
            cs = ops(t)
            if cs and (force or rng.random() < 0.85):
                nm = rng.choice(cs)
                reads.append(nm)
                v = self.vars[nm]
                if v.role == 'alias':
                    return nm
                c = cls
                if aligned and cls == 'n' and v.rank == 1:
                    return nm
                if cls in ('nm1a', 'nm1b'):
                    c = rng.choice(['nm1a', 'nm1b'])
                return self._arr_ref(nm, c)
            s = self.scalar_leaf(t)
            return s

        def rec(d):
            if typ == 'real':
                if d <= 0 or rng.random() < 0.3:
                    return operand('real')
                k = rng.choice(['add', 'mul', 'abs', 'max', 'sin', 'scal', 'merge', 'conv'])
                if k == 'add':
                    return f'{rec(d - 1)} {rng.choice("+-")} ({rec(d - 1)})'
                if k == 'mul':
                    return f'({rec(d - 1)})*({rec(d - 1)})'
                if k == 'abs':
                    return f'abs({rec(d - 1)})'
                if k == 'max':
                    return f'{rng.choice(["max", "min"])}({rec(d - 1)}, {rec(d - 1)})'
                if k == 'sin':
                    return f'{rng.choice(["sin", "cos"])}({rec(d - 1)})'
                if k == 'scal':
                    return f'({rec(d - 1)})*{self.scalar_leaf("real")}'
                if k == 'conv':
                    ia = ops('int')
                    if ia:
                        nm = rng.choice(ia)
                        reads.append(nm)
                        return f'real({self._arr_ref(nm, cls)}, {RK})'
                    return operand('real')
                return f'merge({rec(d - 1)}, {rec(d - 1)}, {mask(0)})'
            if typ == 'int':
                if d <= 0 or rng.random() < 0.4:
                    return operand('int')
                k = rng.choice(['add', 'abs', 'max', 'scal'])
                if k == 'add':
                    return f'{rec(d - 1)} {rng.choice("+-")} ({rec(d - 1)})'
                if k == 'abs':
                    return f'abs({rec(d - 1)})'
                if k == 'max':
                    return f'{rng.choice(["max", "min"])}({rec(d - 1)}, {rec(d - 1)})'
                return f'({rec(d - 1)}) + {self.scalar_leaf("int")}'
            return mask(d)

        def mask(d):
            k = rng.choice(['rcmp', 'rcmp', 'lvar', 'icmp', 'not', 'and'])
            if k == 'lvar' and ops('logical'):
                return operand('logical', True)
            if k == 'icmp' and ops('int'):
                return f'{operand("int", True)} {rng.choice(["<", ">", "==", "/=", ">="])} {self.scalar_leaf("int")}'
            if k == 'not' and d > 0:
                return f'.not. ({mask(d - 1)})'
            if k == 'and' and d > 0:
                return f'({mask(d - 1)}) {rng.choice([".and.", ".or."])} ({mask(d - 1)})'
            if ops('real'):
                return f'{operand("real", True)} {rng.choice(["<", ">", "<=", ">="])} {self.scalar_leaf("real")}'
            if ops('logical'):
                return operand('logical', True)
            if ops('int'):
                return f'{operand("int", True)} > {self.scalar_leaf("int")}'
            return None
        t = rec(depth)
        if t is None or 'None' in t:
            return None, []
        if typ == 'real':
            t = f'min(max({t}, -50.0_{RK}), 50.0_{RK})'
        elif typ == 'int':
            t = f'mod({t}, {rng.choice([17, 19, 23])})'
        return t, self.reads_of(t)

    def scalar_leaf(self, typ):
        rng = self.rng
        cs = [nm for nm in self.names(typ, 0) if self.can_read(nm)]
        if cs and rng.random() < 0.7:
            nm = rng.choice(cs)
            self.did_read(nm, self.where_ctx)
            return nm
        if typ == 'real':
            return self.eg.rlit()
        if typ == 'int':
            return str(self.eg.ilit())
        return rng.choice(['.true.', '.false.'])

    def _has_array(self, text):
        return any(self.vars[w].rank > 0 for w in _IDENT.findall(text.lower()) if w in self.vars)

    def stmt_array_assign(self, ind, block):
        rng = self.rng
        cands = [nm for nm in self.names() if self.vars[nm].rank > 0 and self.can_write(nm)
                 and self.vars[nm].role != 'alias']
        if not cands:
            return False
        nm = rng.choice(cands)
        v = self.vars[nm]
        if v.rank == 2:
            cls = rng.choice(['n2', 'n', 'nm1a'])
        else:
            cls = rng.choice(['n', 'n', 'nm1a', 'nm1b'])
        acc = self.begin_stmt(block, kind='array')
        rhs, reads = self.arr_expr(v.typ, cls, depth=rng.choice([0, 1, 2]))
        if rhs is None:
            rhs, reads = self.scalar_leaf(v.typ), []
        for r in reads:
            self.did_read(r)
        lhs = self._arr_ref(nm, cls)
        whole = (v.rank == 1 and cls == 'n') or (v.rank == 2 and cls == 'n2')
        self.emit(ind, f'{lhs} = {rhs}')
        self.did_write(nm, whole)
        self.end_stmt(acc, [nm] if whole else [])
        self.features.add('array_assign' if whole else 'section_assign')
        return True

    def _free_loopvar(self, dim):
        used = {lp['var'] for lp in self.loops}
        for nm in (('l',) if dim == '2' else ('i', 'j')):
            if nm not in used and nm not in self.busy:
                return nm
        return None

    def stmt_loop(self, ind, block, depth):
        rng = self.rng
        has2 = any(v.rank == 2 for v in self.vars.values())
        dim = '2' if (has2 and rng.random() < 0.2) else 'n'
        lv = self._free_loopvar(dim)
        if lv is None:
            return False
        acc = self.begin_stmt(block, compound=True, kind='loop')
        lo2 = hin1 = False
        sure = True
        hdr_reads = []
        if dim == '2':
            hdr = f'{lv} = 1, 2'
        else:
            c = rng.random()
            arrs = [nm for nm in self.names(None, 1) if nm not in self.hidden and self.vars[nm].role != 'alias']
            if c < 0.35:
                hdr = f'{lv} = 1, n'
                hdr_reads = ['n']
            elif c < 0.5:
                hdr, lo2, hdr_reads = f'{lv} = 2, n', True, ['n']
            elif c < 0.62:
                hdr, hin1, hdr_reads = f'{lv} = 1, n - 1', True, ['n']
            elif c < 0.72:
                hdr, hdr_reads = f'{lv} = n, 1, -1', ['n']
            elif c < 0.8:
                hdr, hdr_reads = f'{lv} = 1, n, 2', ['n']
            elif c < 0.9 and arrs:
                a = rng.choice(arrs)
                hdr = f'{lv} = 1, size({a})' if rng.random() < 0.5 else f'{lv} = 1, size({a}, 1)'
                self.features.add('memquery_bound')
            elif self.hz.get('zero_trip'):
                ints = [nm for nm in self.names('int', 0) if self.can_read(nm)]
                if ints:
                    k = rng.choice(ints)
                    hdr, hdr_reads = f'{lv} = 1, min(n, {k})', ['n', k]
                    sure = False
                    self.hz_used.add('zero_trip')
                else:
                    hdr, hdr_reads = f'{lv} = 1, n', ['n']
            else:
                hdr, hdr_reads = f'{lv} = 1, 3 - 1', []
        if 'n' in hdr_reads and not self.can_read('n'):
            self.model.accs.pop()
            block.pop()
            return False
        self.model.open('loop')
        for r in hdr_reads:
            self.did_read(r, True)
        # the loop variable is defined by the loop for its body
        self.model.frames[-1].must.add(lv)
        self.emit(ind, f'do {hdr}')
        self.loops.append({'var': lv, 'lo2': lo2, 'hin1': hin1, 'dim': dim})
        body = []
        self.blocks.append({'kind': 'loop', 'stmts': body, 'line': len(self.lines) - 1})
        fills = self.block(ind + 1, body, depth + 1, rng.randint(1, 3), in_loop=lv)
        self.loops.pop()
        self.emit(ind, 'end do')
        full = hdr in (f'{lv} = 1, n', f'{lv} = n, 1, -1') or ('size(' in hdr)
        must, added = self.model.close(sure, drop=(lv,))
        if sure and full:
            for a in fills:
                if a not in self.model.frames[-1].must:
                    added.add(a)
                self.model.frames[-1].must.add(a)
        # after the loop the DO variable holds a value
        self.model.initdef.add(lv)
        self.end_stmt(acc, added)
        self.features.add('loop')
        return True

    def stmt_while(self, ind, block, depth):
        rng = self.rng
        if 'w1' in self.busy:
            return False
        if not self.model.write_live_ok('w1') and not self.hz.get('live'):
            return False
        acc = self.begin_stmt(block, kind='assign')
        self.emit(ind, 'w1 = 0')
        self.did_write('w1', True)
        cnt = rng.choice(['2', '3', 'n', 'n - 1'])
        if cnt.startswith('n') and not self.can_read('n'):
            cnt = '2'
        self.busy.add('w1')
        self.end_stmt(acc, ['w1'])
        acc = self.begin_stmt(block, compound=True, kind='while')
        self.model.open('while')
        self.did_read('w1', True)
        if cnt.startswith('n'):
            self.did_read('n', True)
        extra = ''
        if rng.random() < 0.4:
            ls = [nm for nm in self.names('logical', 0) if self.can_read(nm)]
            if ls:
                g = rng.choice(ls)
                self.did_read(g, True)
                extra = f' .and. (w1 < 1 .or. {g})'
        self.emit(ind, f'do while (w1 < {cnt}{extra})')
        body = []
        self.block(ind + 1, body, depth + 1, rng.randint(1, 2))
        self.did_read('w1')
        self.emit(ind + 1, 'w1 = w1 + 1')
        self.did_write('w1', True)
        self.emit(ind, 'end do')
        self.model.close(False)
        self.busy.discard('w1')
        self.end_stmt(acc)
        self.features.add('while')
        return True

    def stmt_if(self, ind, block, depth):
        rng = self.rng
        acc = self.begin_stmt(block, compound=True, kind='if')
        self.model.open('if')
        cond = self.expr('logical', rng.choice([0, 1, 1, 2]), hdr=True)
        if rng.random() < 0.2:
            # inline if
            cands = [nm for nm in self.names(None, 0) if self.can_write(nm)]
            if cands:
                nm = rng.choice(cands)
                rhs = self.expr(self.vars[nm].typ, 1)
                self.emit(ind, f'if ({cond}) {nm} = {rhs}')
                self.did_write(nm, True)
                self.model.next_branch()
                self.model.close(False)
                self.end_stmt(acc)
                acc['pure_if'] = True
                self.features.add('inline_if')
                return True
        # "pure" IF: only scalar assignments in the branches (read_after_write_vars handles these exactly)
        pure = rng.random() < 0.3
        branches = []
        self.emit(ind, f'if ({cond}) then')
        branches.append([])
        self.block(ind + 1, branches[-1], depth + 1, rng.randint(1, 3), only_scalar=pure)
        self.model.next_branch()
        nelif = rng.choice([0, 0, 1, 2]) if depth < 2 else 0
        # else-if chains are nested Conditionals in the IR: else_body = (Conditional,)
        opened = 0
        for _ in range(nelif):
            self.model.open('if')
            opened += 1
            c2 = self.expr('logical', 1, hdr=True)
            self.emit(ind, f'else if ({c2}) then')
            branches.append([])
            self.block(ind + 1, branches[-1], depth + 1, rng.randint(1, 2), only_scalar=pure)
            self.model.next_branch()
            self.features.add('elseif')
        has_else = rng.random() < 0.5
        if has_else:
            self.emit(ind, 'else')
            branches.append([])
            self.block(ind + 1, branches[-1], depth + 1, rng.randint(1, 2), only_scalar=pure)
            self.model.next_branch()
            self.features.add('else')
        self.emit(ind, 'end if')
        added = set()
        for _ in range(opened):
            _, a = self.model.close(has_else)
            # the nested conditional is the else branch of its parent
            self.model.next_branch()
        _, added = self.model.close(has_else)
        self.end_stmt(acc, added)
        acc['pure_if'] = all(st['kind'] == 'assign' for b in branches for st in b)
        if acc['pure_if']:
            self.features.add('pure_if')
        self.features.add('if')
        return True

    def stmt_select(self, ind, block, depth):
        rng = self.rng
        acc = self.begin_stmt(block, compound=True, kind='select')
        self.model.open('select')
        ints = [nm for nm in self.names('int', 0) if self.can_read(nm)]
        if ints and rng.random() < 0.6:
            k = rng.choice(ints)
            self.did_read(k, True)
            sel = rng.choice([f'mod(abs({k}), 4)', k, f'{k} / 3'])
        else:
            e = self.expr('int', 1, hdr=True)
            sel = f'mod(abs({e}), 4)'
        self.emit(ind, f'select case ({sel})')
        vals = rng.sample(['0', '1', '2', '3', '(-1)'], 3)
        ncase = rng.randint(1, 3)
        used_range = False
        for c in range(ncase):
            v = vals[c]
            if c == ncase - 1 and rng.random() < 0.3:
                v = '4:'
                used_range = True
            elif rng.random() < 0.2 and c + 1 < len(vals) and not used_range and c == ncase - 1:
                v = f'{v}, {vals[-1]}' if vals[-1] != v and c < 2 else v
            self.emit(ind, f'case ({v})')
            self.block(ind + 1, [], depth + 1, rng.randint(1, 2))
            self.model.next_branch()
        has_default = rng.random() < 0.5
        if has_default:
            self.emit(ind, 'case default')
            self.block(ind + 1, [], depth + 1, rng.randint(1, 2))
            self.model.next_branch()
        self.emit(ind, 'end select')
        _, added = self.model.close(has_default)
        self.end_stmt(acc, added)
        self.features.add('select')
        return True

    def stmt_where(self, ind, block):
        rng = self.rng
        targets = [nm for nm in self.names(None, 1) if self.can_write(nm) and self.vars[nm].role != 'alias'
                   and self.vars[nm].typ in ('real', 'int')]
        if not self.hz.get('live'):
            # the ELSEWHERE default body is analysed without the definitions of the earlier bodies
            lv = self.model.live_now()
            targets = [nm for nm in targets if nm in lv]
        if not targets:
            return False
        acc = self.begin_stmt(block, compound=True, kind='where')
        self.model.open('where')
        self.where_ctx = True
        m, reads = self.arr_expr('logical', 'n', depth=rng.choice([0, 1]))
        if m is None:
            self.where_ctx = False
            self.model.close(False)
            self.model.accs.pop()
            block.pop()
            return False
        for r in reads:
            self.did_read(r, True)
        nbody = rng.choice([1, 2, 2, 3])
        masks = [m]
        # the analysis takes the symbols of *all* masks first
        for _ in range(nbody - 2 if nbody > 2 else 0):
            m2, reads2 = self.arr_expr('logical', 'n', depth=0)
            if m2 is None:
                break
            for r in reads2:
                self.did_read(r, True)
            masks.append(m2)
        self.where_ctx = False
        self.emit(ind, f'where ({masks[0]})')

        def body():
            for _ in range(rng.randint(1, 2)):
                ts = [nm for nm in targets if self.can_write(nm)]
                if not ts:
                    break
                nm = rng.choice(ts)
                rhs, rr = self.arr_expr(self.vars[nm].typ, 'n', depth=rng.choice([0, 1, 1]), aligned=True)
                if rhs is None:
                    rhs, rr = self.scalar_leaf(self.vars[nm].typ), []
                for r in rr:
                    self.did_read(r, aligned=self.vars[r].rank == 1)
                self.emit(ind + 1, f'{nm} = {rhs}')
                self.did_write(nm, False)
                self.model.frames[-1].wmust.add(nm)
        body()
        self.model.next_branch(keep_sdef=True)
        for m2 in masks[1:]:
            self.emit(ind, f'elsewhere ({m2})')
            body()
            self.model.next_branch(keep_sdef=True)
            self.features.add('elsewhere_mask')
        if nbody >= 2:
            self.emit(ind, 'elsewhere')
            # the default body starts from fresh defines in the analysis
            self.model.frames[-1].sdef_all |= self.model.frames[-1].sdef
            self.model.frames[-1].sdef = set()
            body()
            self.model.next_branch()
            self.features.add('elsewhere')
        self.emit(ind, 'end where')
        self.model.close(False)
        self.end_stmt(acc)
        self.features.add('where')
        return True

    def stmt_associate(self, ind, block, depth):
        rng = self.rng
        pool = [nm for nm in self.names() if nm not in self.hidden and nm not in self.busy
                and self.vars[nm].role not in ('alias',) and self.model.defined(nm)]
        if not pool:
            return False
        acc = self.begin_stmt(block, compound=True, kind='associate')
        nassoc = rng.randint(1, 2)
        chosen = rng.sample(pool, min(nassoc, len(pool)))
        alias = {}
        items = []
        newvars = []
        sel_reads = []
        k0 = sum(1 for v in self.vars.values() if v.role == 'alias')
        for k, nm in enumerate(chosen):
            v = self.vars[nm]
            an = f'z{k0 + k + 1}'
            if v.rank == 0:
                part, sel, rank = 'whole', nm, 0
            else:
                c = rng.random()
                if c < 0.45 or v.rank == 2 and c < 0.6:
                    part, sel, rank = 'whole', nm, v.rank
                elif c < 0.75:
                    part, rank = 'element', 0
                    sel = self.elem(nm, const_only=not self.hz.get('assoc_expr'))
                    sel_reads += [r for r in self.reads_of(sel) if r != nm]
                    if sel_reads:
                        self.hz_used.add('assoc_expr')
                else:
                    part, rank = 'section', 1
                    sel = self._arr_ref(nm, 'n') if v.rank == 2 else f'{nm}(:)'
            if part == 'whole' and rank == 2:
                # keep aliases of rank-2 arrays out of the expression generator (rank <= 1 alias use only)
                part, rank = 'section', 1
                sel = self._arr_ref(nm, 'n')
            if v.role == 'in':
                wr = None
            else:
                wr = part
            alias[an] = nm
            items.append(f'{an} => {sel}')
            newvars.append(Var(an, v.typ, rank, 'alias', v.lb if (part == 'whole' and rank) else 1,
                               alias_of=nm, part=wr))
        expr_alias = None
        if self.hz.get('assoc_expr') and rng.random() < 0.7:
            an = f'z{k0 + len(chosen) + 1}'
            # no intrinsic calls: Loki's frontend cannot derive the shape of a selector containing a call
            e = f"{self.scalar_leaf('real')} {rng.choice('+-*')} {self.scalar_leaf('real')}"
            for r in self.reads_of(e):
                self.did_read(r, True)
            if _IDENT.search(re.sub(r'_jprb|[0-9.]+', '', e)):
                items.append(f'{an} => {e}')
                expr_alias = Var(an, 'real', 0, 'alias', 1, alias_of=None, part=None)
                self.hz_used.add('assoc_expr')
        for r in sel_reads:
            self.did_read(r, True)
        for nm in chosen:
            acc['alias'].add(self.model.base(nm))
        self.emit(ind, f"associate ({', '.join(items)})")
        fr = self.model.open('assoc', alias=alias)
        for v in newvars:
            self.add(v)
        if expr_alias is not None:
            self.add(expr_alias)
            fr.must.add(expr_alias.name)
        hidden_new = [nm for nm in chosen if nm not in self.hidden]
        self.hidden.update(hidden_new)
        self.block(ind + 1, [], depth + 1, rng.randint(1, 3))
        self.emit(ind, 'end associate')
        self.hidden.difference_update(hidden_new)
        for v in newvars + ([expr_alias] if expr_alias is not None else []):
            self.hidden.add(v.name)       # alias names are dead after the block
        must, added = self.model.close(True, drop=((expr_alias.name,) if expr_alias is not None else ()))
        p = self.model.frames[-1]
        for v in newvars:
            if v.name in must and v.part == 'whole':
                if v.alias_of not in p.must:
                    added.add(v.alias_of)
                p.must.add(v.alias_of)
        self.end_stmt(acc, added)
        self.features.add('associate')
        return True

    def stmt_call(self, ind, block):
        rng = self.rng
        if not self.callees:
            return False
        cal = rng.choice(self.callees)
        acc = self.begin_stmt(block, kind='call')
        enriched = self.mode != 'unenriched'
        used_bases = set()
        actuals = []
        ok = True
        for d in cal.dummies:
            sm = cal.summary[d.name]
            need_read = d.role in ('in', 'inout') or (d.role == 'none' and sm['reads'])
            need_write = d.role in ('inout', 'out') or (d.role == 'none' and sm['writes'])
            if d.name == 'n':
                actuals.append((d, 'n', ['n'], None, 'whole'))
                if not self.can_read('n'):
                    ok = False
                continue

            def usable(nm, d=d, need_read=need_read, need_write=need_write):
                v = self.vars[nm]
                if nm in used_bases or v.typ != d.typ or v.role == 'alias':
                    return False
                if need_write and not self.can_write(nm):
                    return False
                if need_read and not self.can_read(nm):
                    return False
                if not need_read and not need_write and not self.model.defined(nm):
                    return False
                return nm not in self.hidden
            if d.rank == 0:
                sc = [nm for nm in self.names(d.typ, 0) if usable(nm)]
                ar = [nm for nm in self.names(d.typ) if self.vars[nm].rank > 0 and usable(nm)]
                c = rng.random()
                if not need_write and c < 0.3 and d.role in ('in',):
                    e = self.expr(d.typ, 1)
                    if d.typ == 'real' and not re.search(r'[a-z]', re.sub(r'_jprb', '', e)):
                        e = f'{e}'
                    actuals.append((d, e, [], None, 'expr'))
                    continue
                if ar and (c < 0.5 or not sc):
                    nm = rng.choice(ar)
                    el = self.elem(nm)
                    rd = [r for r in self.reads_of(el) if r != nm]
                    actuals.append((d, el, rd + ([nm] if need_read else []), nm if need_write else None, 'element'))
                    used_bases.add(nm)
                    if not need_read and not need_write:
                        actuals[-1] = (d, el, rd, None, 'element')
                    continue
                if sc:
                    nm = rng.choice(sc)
                    actuals.append((d, nm, [nm] if need_read else [], nm if need_write else None, 'whole'))
                    used_bases.add(nm)
                    continue
                ok = False
                break
            # array dummies: rank 1 (n) or rank 2 (n, 2)
            if d.rank == 1:
                c1 = [nm for nm in self.names(d.typ, 1) if usable(nm)]
                c2 = [nm for nm in self.names(d.typ, 2) if usable(nm)]
                if c2 and (not c1 or rng.random() < 0.3):
                    nm = rng.choice(c2)
                    txt = f'{nm}(:, {rng.choice([1, 2])})'
                    kind = 'section'
                elif c1:
                    nm = rng.choice(c1)
                    txt, kind = nm, 'whole'
                else:
                    ok = False
                    break
            else:
                c2 = [nm for nm in self.names(d.typ, 2) if usable(nm)]
                if not c2:
                    ok = False
                    break
                nm = rng.choice(c2)
                txt, kind = nm, 'whole'
            actuals.append((d, txt, [nm] if need_read else [], nm if need_write else None, kind))
            used_bases.add(nm)
        if ok:
            # the analysis drops every symbol that is a subscript of an array actual from the call's defines
            subs = set()
            for d, txt, rd, wr, kind in actuals:
                if kind in ('element', 'section'):
                    subs |= {r for r in self.reads_of(txt) if r != txt.split('(')[0].strip()}
                elif kind == 'expr':
                    subs |= set(self.reads_of(txt))
            clash = [a for a in actuals if a[4] == 'whole' and a[1] in subs and a[0].name != 'n']
            if clash:
                if self.hz.get('call_dim'):
                    self.hz_used.add('call_dim')
                else:
                    ok = False
        if not ok:
            self.model.accs.pop()
            block.pop()
            return False
        # model: what the analysis will derive, and what is really read / written
        kw = rng.random() < 0.25
        parts = []
        musts = []
        notes_r, notes_w, true_w = [], [], []
        for pos, (d, txt, rd, wr, kind) in enumerate(actuals):
            sm = cal.summary[d.name]
            names_in_actual = self.reads_of(txt)
            base = txt.split('(')[0].strip() if kind != 'expr' else None
            if enriched:
                an_use = d.role in ('in', 'inout')
                an_def = d.role in ('inout', 'out')
            else:
                an_use = an_def = True
            if d.role == 'none' and enriched and (sm['reads'] or sm['writes']):
                self.hz_used.add('noint')
            # reads that really happen: subscripts, expression operands, bases the callee reads
            really = set(rd) | {r for r in names_in_actual if r != base}
            for r in really:
                if self.model.read_status(r) == 'hazard':
                    self.hz_used.add('kill')
                b = self.model.base(r)
                for a in self.model.accs:
                    a['R'].add(b)
            # what the analysis records as used / defined
            for r in names_in_actual:
                if r == base:
                    if an_use:
                        notes_r.append(r)
                elif an_use or an_def:
                    notes_r.append(r)
                if not enriched and kind == 'expr':
                    notes_w.append((r, False))
            if base is not None:
                full = kind == 'whole' and d.role == 'out' and sm['must'] and wr is not None
                if an_def:
                    notes_w.append((base, full))
                    if full:
                        musts.append(base)
                if wr is not None:
                    true_w.append(base)
            parts.append(f'{d.name}={txt}' if (kw and pos >= 1) else txt)
        self.emit(ind, f"call {cal.name}({', '.join(parts)})")
        for r in notes_r:
            self.model.note_read(r)
        for base in true_w:
            if not self.model.write_live_ok(base):
                self.hz_used.add('live')
            b = self.model.base(base)
            for a in self.model.accs:
                a['W'].add(b)
        for r, full in notes_w:
            self.model.note_write(r, full)
        self.end_stmt(acc, musts)
        self.features.add('call')
        if kw:
            self.features.add('call_kwargs')
        for d, txt, rd, wr, kind in actuals:
            self.features.add(f'arg_{d.role}_{kind}')
        return True

    def stmt_memq_same(self, ind, block):
        """whole-array operand that is also the argument of a memory query in the same expression"""
        rng = self.rng
        arrs = [nm for nm in self.names('real', 1) if self.can_read(nm) and self.vars[nm].role != 'alias']
        tg = [nm for nm in self.names('real', 1) if self.can_write(nm) and self.vars[nm].role != 'alias']
        if not arrs or not tg:
            return False
        a = rng.choice(arrs)
        t = rng.choice(tg)
        acc = self.begin_stmt(block, kind='array')
        self.emit(ind, f'{t} = {a} + real(size({a}), {RK})')
        for a2 in self.model.accs:
            a2['R'].add(self.model.base(a))
        self.did_write(t, True)
        self.end_stmt(acc, [t])
        self.hz_used.add('memq')
        return True

    # -- blocks -----------------------------------------------------------------
    def block(self, ind, block, depth, nstmts, in_loop=None, only_scalar=False):
        """generate nstmts statements; returns names of arrays filled element-wise by a(<loopvar>) = ..."""
        rng = self.rng
        fills = []
        made = 0
        tries = 0
        while made < nstmts and tries < nstmts * 4:
            tries += 1
            if self.nstmt >= self.budget and made > 0:
                break
            kinds = ['scalar'] * 5 + ['elem'] * 4 + ['array'] * 2
            if depth < 3 and self.nstmt < self.budget:
                kinds += ['loop'] * 3 + ['if'] * 3 + ['select', 'while', 'associate', 'where', 'where']
            else:
                kinds += ['where']
            if self.callees:
                kinds += ['call'] * 6
            if self.hz.get('memq'):
                kinds += ['memq'] * 2
            k = rng.choice(kinds)
            if only_scalar:
                k = 'scalar'
            if in_loop and k == 'elem' and rng.random() < 0.5:
                ok = self.stmt_fill(ind, block, in_loop, fills)
            elif k == 'scalar':
                ok = self.stmt_scalar_assign(ind, block)
            elif k == 'elem':
                ok = self.stmt_elem_assign(ind, block)
            elif k == 'array':
                ok = self.stmt_array_assign(ind, block)
            elif k == 'loop':
                ok = self.stmt_loop(ind, block, depth)
            elif k == 'while':
                ok = self.stmt_while(ind, block, depth)
            elif k == 'if':
                ok = self.stmt_if(ind, block, depth)
            elif k == 'select':
                ok = self.stmt_select(ind, block, depth)
            elif k == 'where':
                ok = self.stmt_where(ind, block)
            elif k == 'associate':
                ok = self.stmt_associate(ind, block, depth)
            elif k == 'call':
                ok = self.stmt_call(ind, block)
            else:
                ok = self.stmt_memq_same(ind, block)
            if ok:
                made += 1
        if made == 0:
            acc = self.begin_stmt(block, kind='assign')
            self.emit(ind, 'continue')
            self.end_stmt(acc)
        return fills

    def stmt_fill(self, ind, block, lv, fills):
        """a(lv) = expr with the loop variable as the subscript (fills the array over a full-range loop)"""
        rng = self.rng
        lp = [x for x in self.loops if x['var'] == lv][0]
        if lp['dim'] != 'n':
            return False
        cands = [nm for nm in self.names(None, 1) if self.can_write(nm) and self.vars[nm].role != 'alias']
        if not cands:
            return False
        nm = rng.choice(cands)
        v = self.vars[nm]
        acc = self.begin_stmt(block, kind='elem')
        rhs = self.expr(v.typ)
        sub = lv if v.lb == 1 else f'{lv} - 1'
        self.did_read(lv)
        self.emit(ind, f'{nm}({sub}) = {rhs}')
        self.did_write(nm, False)
        self.end_stmt(acc)
        if len(self.model.frames) >= 1 and self.model.frames[-1].kind == 'loop':
            fills.append(nm)
        self.features.add('fill_assign')
        return True

    # -- whole routine ----------------------------------------------------------
    def generate(self):
        rng = self.rng
        self.setup_vars()
        initdef = {v.name for v in self.vars.values() if v.role in ('in', 'inout', 'none')}
        initlive = {v.name for v in self.vars.values() if v.role in ('in', 'inout')}
        self.model = Model(initdef, initlive)
        top = []
        self.blocks.append({'kind': 'top', 'stmts': top, 'line': -1})
        # initialise out dummies always, locals mostly
        for nm in list(self.order):
            v = self.vars[nm]
            if v.role == 'loopvar' or nm in ('n', 'w1'):
                continue
            if v.role == 'out' or (v.role == 'local' and rng.random() < 0.8):
                acc = self.begin_stmt(top, kind='array' if v.rank else 'assign')
                if v.rank:
                    rhs, reads = (self.arr_expr(v.typ, 'n2' if v.rank == 2 else 'n', depth=rng.choice([0, 0, 1]))
                                  if rng.random() < 0.5 else (None, []))
                    if rhs is None:
                        rhs, reads = self.scalar_leaf(v.typ), []
                    for r in reads:
                        self.did_read(r)
                else:
                    rhs = self.expr(v.typ, rng.choice([0, 1]))
                self.emit(1, f'{nm} = {rhs}')
                self.did_write(nm, True)
                self.end_stmt(acc, [nm])
        self.nstmt = 0
        self.block(1, top, 0, rng.randint(max(3, self.budget // 3), max(4, self.budget // 2)))
        # make sure every local is used at the end (and results depend on everything)
        tops = self.model.frames[0]
        info = RoutineInfo(self.name, self.dummies, self.lines, features=self.features, hz_used=self.hz_used)
        for d in self.dummies:
            info.summary[d.name] = {'reads': d.name in tops.used, 'writes': d.name in tops.sdef,
                                    'must': d.name in tops.must}
        info.blocks = self.blocks
        return info

    def text(self, info):
        args = ', '.join(d.name for d in info.dummies)
        L = [f'subroutine {self.name}({args})']
        scal = [v for v in info.dummies if v.rank == 0]
        arr = [v for v in info.dummies if v.rank > 0]
        for v in scal + arr:
            L.append('  ' + v.decl())
        for nm in self.order:
            v = self.vars[nm]
            if v.role in ('local', 'loopvar'):
                L.append('  ' + v.decl())
        info.first_line = len(L)
        L += self.respell(info) if self.case_mix else info.lines
        L.append(f'end subroutine {self.name}')
        return L

    _TOKEN = re.compile(r'(?<![A-Za-z0-9_.])[a-z_][a-z0-9_]*(?![A-Za-z0-9_])')

    def respell(self, info):
        """Letter-case variation of the body text (Fortran names are case-insensitive): every occurrence of an
        associate name is spelled in upper case with probability 1/2 -- so the ASSOCIATE statement and the uses
        in the block mostly differ -- and, in half of the routines, 15 % of the occurrences of ordinary variables
        are spelled in upper case or capitalised.  The model, the block table and the declarations keep the lower
        case names; the spelling is drawn from a generator seeded by the text (the case stream is not touched).
        Keyword-argument names (``name=`` without blank) are left alone."""
        r = random.Random(zlib.crc32('\n'.join(info.lines).encode()))
        mix_all = r.random() < 0.5
        changed = [False, False]

        def sub(m):
            w = m.group(0)
            v = self.vars.get(w)
            if v is None:
                return w
            rest = m.string[m.end():m.end() + 2]
            if rest[:1] == '=' and rest != '==':
                return w           # keyword of an actual argument
            if v.role == 'alias':
                if r.random() < 0.5:
                    changed[0] = True
                    return w.upper()
                return w
            if mix_all and r.random() < 0.15:
                changed[1] = True
                return w.upper() if r.random() < 0.6 else w.capitalize()
            return w
        out = [self._TOKEN.sub(sub, ln) for ln in info.lines]
        if changed[0]:
            info.features.add('case_mix_associate')
        if changed[1]:
            info.features.add('case_mix_variables')
        return out


class DFGen:
    def __init__(self, rng, hz=None, mode='same', budget=12, ncallees=None, tag='', case_mix=True):
        self.rng = rng
        self.case_mix = case_mix     # letter-case variation of names in the routine bodies (RoutineGen.respell)
        self.tag = str(tag)
        self.hz = dict(hz or {})
        self.mode = mode
        self.budget = budget
        self.ncallees = rng.choice([0, 1, 1, 2, 2, 2, 3]) if ncallees is None else ncallees

    def generate(self):
        rng = self.rng
        callees = []
        ctexts = []
        for k in range(self.ncallees):
            rg = RoutineGen(rng, f'h{k + 1}', self.hz, False, list(callees) if rng.random() < 0.3 else [],
                            'same', rng.choice([3, 4, 6]), case_mix=self.case_mix)
            info = rg.generate()
            ctexts.append(rg.text(info))
            callees.append(info)
        kg = RoutineGen(rng, 'kern', self.hz, True, callees, self.mode, self.budget, case_mix=self.case_mix)
        kinfo = kg.generate()
        ktext = kg.text(kinfo)
        kinds = ['module dfkinds', '  implicit none', '  integer, parameter :: jprb = selected_real_kind(13, 300)',
                 'end module dfkinds', '']
        if self.mode == 'same':
            L = [f'module kmod{self.tag}', '  use dfkinds, only: jprb', '  implicit none', 'contains']
            for ct in ctexts:
                L += ['  ' + x for x in ct]
            off = len(L)
            L += ['  ' + x for x in ktext]
            L.append(f'end module kmod{self.tag}')
            source_k = '\n'.join(L) + '\n'
            source_h = ''
            kinfo.first_line += off + 1
        else:
            H = [f'module hmod{self.tag}', '  use dfkinds, only: jprb', '  implicit none', 'contains']
            for ct in ctexts:
                H += ['  ' + x for x in ct]
            H.append(f'end module hmod{self.tag}')
            source_h = '\n'.join(H) + '\n'
            L = [f'module kmod{self.tag}', '  use dfkinds, only: jprb']
            if callees:
                L.append(f'  use hmod{self.tag}, only: ' + ', '.join(c.name for c in callees))
            L += ['  implicit none', 'contains']
            off = len(L)
            L += ['  ' + x for x in ktext]
            L.append(f'end module kmod{self.tag}')
            source_k = '\n'.join(L) + '\n'
            kinfo.first_line += off + 1
        driver = self._driver(kinfo)
        feats = set(kinfo.features)
        hzu = set(kinfo.hz_used)
        for c in callees:
            feats |= {f'callee_{f}' for f in c.features}
            hzu |= c.hz_used
        feats.add(f'mode_{self.mode}')
        return DFCase(source_k=source_k, source_h=source_h, driver=driver, inputs=list(INPUTS), kernel=kinfo,
                      callees=callees, mode=self.mode, features=feats, hz_used=hzu,
                      meta={'kinds': '\n'.join(kinds), 'hz': dict(self.hz), 'tag': self.tag})

    @staticmethod
    def init_value(v, k, seed, idx):
        """initial value of element idx (0-based, array element order) of the k-th dummy"""
        if v.typ == 'real':
            return float((idx * 7 + seed * 13 + k * 5) % 11 - 5) * 0.25
        if v.typ == 'int':
            return (idx * 5 + seed * 3 + k * 7) % 9 - 4
        return (idx + seed + k) % 3 == 0

    def _driver(self, kinfo):
        L = [f'subroutine drive{self.tag}(n, sd)', '  use dfkinds, only: jprb', f'  use kmod{self.tag}, only: kern',
             '  implicit none', '  integer :: n, sd, ii']
        body, prt = [], []
        for k, v in enumerate(kinfo.dummies):
            if v.name == 'n':
                continue
            t = {'int': 'integer', 'real': f'real(kind={RK})', 'logical': 'logical'}[v.typ]
            if v.rank:
                L.append(f'  {t}, allocatable :: {v.name}(:{", :" if v.rank == 2 else ""})')
                L.append(f'  {t}, allocatable :: flat_{v.name}(:)')
                lo = '' if v.lb == 1 else '0:'
                up = 'n' if v.lb == 1 else 'n - 1'
                shp = f'{lo}{up}' + (', 2' if v.rank == 2 else '')
                body.append(f'  allocate({v.name}({shp}))')
                cnt = 'n*2' if v.rank == 2 else 'n'
                body.append(f'  allocate(flat_{v.name}({cnt}))')
                init = {'real': f'real(mod((ii - 1)*7 + sd*13 + {k * 5}, 11) - 5, {RK})*0.25_{RK}',
                        'int': f'mod((ii - 1)*5 + sd*3 + {k * 7}, 9) - 4',
                        'logical': f'mod((ii - 1) + sd + {k}, 3) == 0'}[v.typ]
                if v.role != 'out':
                    body.append(f'  do ii = 1, {cnt}\n    flat_{v.name}(ii) = {init}\n  end do')
                    body.append(f'  {v.name} = reshape(flat_{v.name}, shape({v.name}))')
                prt.append(f'  flat_{v.name} = reshape({v.name}, shape(flat_{v.name}))')
                fmt = {'real': '(A,1X,I0,1X,ES25.17E3)', 'int': '(A,1X,I0,1X,I0)', 'logical': '(A,1X,I0,1X,L1)'}[v.typ]
                prt.append(f"  do ii = 1, {cnt}\n    print '{fmt}', '{v.name}', ii, flat_{v.name}(ii)\n  end do")
            else:
                L.append(f'  {t} :: {v.name}')
                init = {'real': f'real(mod(sd*13 + {k * 5}, 11) - 5, {RK})*0.25_{RK}',
                        'int': f'mod(sd*3 + {k * 7}, 9) - 4',
                        'logical': f'mod(sd + {k}, 3) == 0'}[v.typ]
                if v.role != 'out':
                    body.append(f'  {v.name} = {init}')
                fmt = {'real': '(A,1X,ES25.17E3)', 'int': '(A,1X,I0)', 'logical': '(A,1X,L1)'}[v.typ]
                prt.append(f"  print '{fmt}', '{v.name}', {v.name}")
        L += body
        L.append(f"  call kern({', '.join(v.name for v in kinfo.dummies)})")
        L.append("  print '(A,1X,I0)', 'n', n")
        L += prt
        L.append(f'end subroutine drive{self.tag}')
        return '\n'.join(L) + '\n'


def combine_program(cases):
    """one Fortran source with all modules, driver subroutines and a main program that runs every
    case on every input (marker lines ``@@ <case> <input>`` separate the outputs)"""
    L = [cases[0].meta['kinds']]
    for c in cases:
        L.append(c.source_h or '')
        L.append(c.source_k)
        L.append(c.driver)
    ninp = len(INPUTS)
    L.append('program main')
    L.append('  implicit none')
    L.append(f'  integer :: t, nn({ninp}), sd({ninp})')
    L.append('  nn = (/' + ', '.join(str(n) for n, _ in INPUTS) + '/)')
    L.append('  sd = (/' + ', '.join(str(s) for _, s in INPUTS) + '/)')
    L.append(f'  do t = 1, {ninp}')
    for k, c in enumerate(cases):
        L.append(f"    print '(A,1X,I0,1X,I0)', '@@', {k}, t")
        L.append(f"    call drive{c.meta['tag']}(nn(t), sd(t))")
    L.append('  end do')
    L.append('end program main')
    return '\n'.join(L) + '\n'
