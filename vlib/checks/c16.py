"""C16 -- attach + detach of dataflow analysis, pragmas and pragma regions (functions and context managers,
also when the body raises) leaves IR structure, generated code and node identities unchanged."""
import collections

from vlib import irlab
from vlib.core import sighash

PID = 'C16'
LEVEL = 'exploration'
TECHNIQUE = 'before/after monitor: structural snapshot + generated code + id() map around attach/detach plans'
LEVEL_TEXT = ('every attach/detach plan executed on a generated program unit was bracketed by an independent structural '
              'snapshot (all dataclass fields, attached nodes, transient dataflow slots, stray attributes), the '
              'generated Fortran and the list of node identities; after the plan all three must be as before and the '
              'dataflow properties must raise RuntimeError again')
LEVEL_NOTE = ('snapshots are taken with an own walk over dataclass fields (no Loki visitor); plans pair every attach with '
              'the matching detach (same node types / same pragma_post flag) in LIFO and non-LIFO orders')
RULE = ('E1 programs decorated with !$loki / !$acc / !$omp pragmas before and after loops, calls and declarations, '
        'consecutive pragmas, pragmas at the start / end of bodies and inside SELECT / WHERE, matched, nested, reversed, '
        'cross-level and unmatched region pragmas (a small slice with a bare `end`), plus a zoo module; per unit 12 '
        'plans out of: attach_pragmas/detach_pragmas for every node type (pragma_post on/off), pragmas_attached, '
        'attach/detach_pragma_regions (keyword filter), pragma_regions_attached, attach/detach_dataflow_analysis, '
        'dataflow_analysis_attached, nested and interleaved combinations, context bodies that raise. Non-trivial = '
        'some plan changed the tree while attached; distinct = hash of unit text and plan list.')
CASES = {'quick': 220, 'thorough': 3000}
MIN_NONTRIVIAL = {'quick': 110, 'thorough': 1400}
ANCHORS = ['loki/ir/pragma_utils.py', 'loki/analyse/dataflow_analysis.py', 'loki/analyse/abstract_dfa.py']
REQUIRED_REACH = ['attach_pragmas', 'detach_pragmas', 'pragmas_attached', 'attach_pragma_regions',
                  'detach_pragma_regions', 'pragma_regions_attached', 'attach_dataflow_analysis',
                  'detach_dataflow_analysis', 'dataflow_analysis_attached', 'get_matching_region_pragmas']
REQUIRED_COUNTERS = {'plans_run': 1000, 'snapshots_compared': 1000, 'plans_with_effect': 300,
                     'regions_seen_while_attached': 50, 'pragmas_seen_attached': 300, 'raising_bodies': 100}
ASSUMPTIONS = ['fgen of the unit is the "generated code" of the property',
               'identity preservation is checked as: the pre-order list of id() of all nodes (including attached '
               'pragmas and comments) is the same before and after']
BUDGET_S = {'quick': 600, 'thorough': 3000}
CASE_TIMEOUT_S = 180
PLANS_PER_UNIT = 12


class Boom(Exception):
    pass


def setup_worker(tier, ctx):
    import sys
    sys.setrecursionlimit(20000)


# ------------------------------------------------------------------------------------------------
# snapshot
# ------------------------------------------------------------------------------------------------

def unit_trees(unit):
    out = []
    if getattr(unit, 'spec', None) is not None:
        out.append(unit.spec)
    if getattr(unit, 'body', None) is not None:
        out.append(unit.body)
    return tuple(out)


def snapshot(unit):
    trees = unit_trees(unit)
    nodes = irlab.preorder(trees, enter_typedef=True, attached=True)
    try:
        code = unit.to_fortran()
    except Exception as e:  # pylint: disable=broad-except
        code = f'<fgen raised {type(e).__name__}: {str(e)[:100]}>'
    stale = sorted({type(n).__name__ for n in nodes if any(n.__dict__.get(k) is not None for k in irlab.DFA_SLOTS)})
    return {'enc': irlab.enc(trees, None, with_private='nodfa'), 'code': code, 'ids': [id(n) for n in nodes],
            'nodes': nodes, 'roots': [id(t) for t in trees], 'stale': stale}


# ------------------------------------------------------------------------------------------------
# plan steps
# ------------------------------------------------------------------------------------------------

def node_types(rng, ir):
    single = [ir.Loop, ir.WhileLoop, ir.CallStatement, ir.VariableDeclaration, ir.ProcedureDeclaration]
    r = rng.random()
    if r < 0.55:
        return rng.choice(single), None
    if r < 0.8:
        return tuple(rng.sample(single, 2)), None
    if r < 0.9:
        return tuple(single), None
    return (ir.Loop, ir.WhileLoop), None


def tname(T):
    return '+'.join(t.__name__ for t in T) if isinstance(T, tuple) else T.__name__


class Obs:
    """What the monitors saw while things were attached."""

    def __init__(self):
        self.changed = False
        self.pragmas_attached = 0
        self.regions = 0
        self.dfa_nodes = 0


def observe(unit, before, obs, want=None):
    """Look at the attached state with the independent walk."""
    import loki.ir as ir
    trees = unit_trees(unit)
    if irlab.enc(trees, None, with_private=True) != before['enc']:
        obs.changed = True     # (dataflow slots count as a change while attached)
    for n in irlab.preorder(trees, enter_typedef=True):
        if want == 'pragmas':
            for f in ('pragma', 'pragma_post'):
                v = n.__dict__.get(f)
                if v and not isinstance(n, ir.PragmaRegion):
                    obs.pragmas_attached += len(v) if isinstance(v, tuple) else 1
        elif want == 'regions' and isinstance(n, ir.PragmaRegion):
            obs.regions += 1
        elif want == 'dfa' and n.__dict__.get('_live_symbols') is not None:
            obs.dfa_nodes += 1


def make_plan(rng, unit, ir, allow_dfa=True):
    """list of step descriptors (json-able) -- interpreted by run_plan."""
    kinds = ['pragmas_fn', 'pragmas_fn', 'pragmas_ctx', 'pragmas_ctx_raise', 'regions_fn', 'regions_ctx',
             'regions_ctx_raise', 'dfa_fn', 'dfa_ctx', 'dfa_ctx_raise', 'nested', 'nested', 'nested_raise',
             'interleaved', 'interleaved', 'same_type_twice']
    k = rng.choice(kinds)
    while not allow_dfa and k.startswith('dfa'):
        k = rng.choice(kinds)
    T, _ = node_types(rng, ir)
    post = rng.random() < 0.7
    kw = rng.choice([None, None, 'loki', 'acc', 'omp', 'LOKI'])
    plan = {'kind': k, 'types': tname(T), 'post': post, 'keyword': kw}
    if k in ('nested', 'nested_raise'):
        pool = ['pragmas', 'regions', 'dfa', 'pragmas2'] if allow_dfa else ['pragmas', 'regions', 'pragmas2']
        layers = rng.sample(pool, rng.randint(2, len(pool)))
        plan['layers'] = layers
        T2, _ = node_types(rng, ir)
        plan['types2'] = tname(T2)
        plan['_T2'] = T2
    if k == 'interleaved':
        ops = ['pragmas', 'regions', 'dfa'] if allow_dfa else ['pragmas', 'regions']
        a = rng.sample(ops, rng.randint(2, len(ops)))
        while True:
            d = list(a)
            rng.shuffle(d)
            # the dataflow detacher cannot reach pragma nodes that are attached to other nodes at that moment
            # (documented: attached pragmas are outside the traversal), so dataflow is kept LIFO w.r.t. the others
            if 'dfa' not in a or all((a.index('dfa') < a.index(o)) == (d.index('dfa') > d.index(o))
                                     for o in a if o != 'dfa'):
                break
        plan['attach_order'] = a
        plan['detach_order'] = d
    plan['_T'] = T
    return plan


def run_plan(plan, unit, before, obs):
    """Execute; exceptions of Loki propagate to the caller (except the deliberate Boom)."""
    import loki.ir as ir
    from loki.ir import (attach_pragmas, detach_pragmas, pragmas_attached, attach_pragma_regions,
                         detach_pragma_regions, pragma_regions_attached)
    from loki.analyse import (attach_dataflow_analysis, detach_dataflow_analysis, dataflow_analysis_attached)
    T, post, kw, k = plan['_T'], plan['post'], plan['keyword'], plan['kind']

    def att_pragmas(T=T):
        if getattr(unit, 'spec', None) is not None:
            unit.spec = attach_pragmas(unit.spec, T, attach_pragma_post=post)
        if getattr(unit, 'body', None) is not None:
            unit.body = attach_pragmas(unit.body, T, attach_pragma_post=post)

    def det_pragmas(T=T):
        if getattr(unit, 'spec', None) is not None:
            unit.spec = detach_pragmas(unit.spec, T, detach_pragma_post=post)
        if getattr(unit, 'body', None) is not None:
            unit.body = detach_pragmas(unit.body, T, detach_pragma_post=post)

    def att_regions():
        if getattr(unit, 'spec', None) is not None:
            unit.spec = attach_pragma_regions(unit.spec, keyword=kw)
        if getattr(unit, 'body', None) is not None:
            unit.body = attach_pragma_regions(unit.body, keyword=kw)

    def det_regions():
        if getattr(unit, 'spec', None) is not None:
            unit.spec = detach_pragma_regions(unit.spec)
        if getattr(unit, 'body', None) is not None:
            unit.body = detach_pragma_regions(unit.body)

    if k == 'pragmas_fn':
        att_pragmas()
        observe(unit, before, obs, 'pragmas')
        det_pragmas()
    elif k in ('pragmas_ctx', 'pragmas_ctx_raise'):
        try:
            with pragmas_attached(unit, T, attach_pragma_post=post):
                observe(unit, before, obs, 'pragmas')
                if k.endswith('raise'):
                    raise Boom()
        except Boom:
            pass
    elif k == 'regions_fn':
        att_regions()
        observe(unit, before, obs, 'regions')
        det_regions()
    elif k in ('regions_ctx', 'regions_ctx_raise'):
        try:
            with pragma_regions_attached(unit, keyword=kw):
                observe(unit, before, obs, 'regions')
                if k.endswith('raise'):
                    raise Boom()
        except Boom:
            pass
    elif k == 'dfa_fn':
        attach_dataflow_analysis(unit)
        observe(unit, before, obs, 'dfa')
        touch_dfa(unit)
        detach_dataflow_analysis(unit)
    elif k in ('dfa_ctx', 'dfa_ctx_raise'):
        try:
            with dataflow_analysis_attached(unit):
                observe(unit, before, obs, 'dfa')
                touch_dfa(unit)
                if k.endswith('raise'):
                    raise Boom()
        except Boom:
            pass
    elif k in ('nested', 'nested_raise'):
        from contextlib import ExitStack
        try:
            with ExitStack() as st:
                for layer in plan['layers']:
                    if layer == 'pragmas':
                        st.enter_context(pragmas_attached(unit, T, attach_pragma_post=post))
                    elif layer == 'pragmas2':
                        st.enter_context(pragmas_attached(unit, plan['_T2'], attach_pragma_post=post))
                    elif layer == 'regions':
                        st.enter_context(pragma_regions_attached(unit, keyword=kw))
                    else:
                        st.enter_context(dataflow_analysis_attached(unit))
                observe(unit, before, obs, 'pragmas')
                observe(unit, before, obs, 'regions')
                observe(unit, before, obs, 'dfa')
                if k.endswith('raise'):
                    raise Boom()
        except Boom:
            pass
    elif k == 'interleaved':
        fa = {'pragmas': att_pragmas, 'regions': att_regions, 'dfa': lambda: attach_dataflow_analysis(unit)}
        fd = {'pragmas': det_pragmas, 'regions': det_regions, 'dfa': lambda: detach_dataflow_analysis(unit)}
        for a in plan['attach_order']:
            fa[a]()
        observe(unit, before, obs, 'pragmas')
        observe(unit, before, obs, 'regions')
        for d in plan['detach_order']:
            fd[d]()
    elif k == 'same_type_twice':
        with pragmas_attached(unit, T, attach_pragma_post=post):
            observe(unit, before, obs, 'pragmas')
            try:
                with pragmas_attached(unit, T, attach_pragma_post=post):
                    raise Boom()
            except Boom:
                pass
            # documented: leaving the inner context detaches; re-attach by hand is not needed for the end state


def touch_dfa(unit):
    """Read the analysis while attached (must not raise)."""
    n = 0
    for x in irlab.preorder(unit_trees(unit), enter_typedef=False)[:40]:
        if x.__dict__.get('_live_symbols') is not None:
            for prop in ('live_symbols', 'defines_symbols', 'uses_symbols'):
                try:
                    getattr(x, prop)
                    n += 1
                except RuntimeError:
                    pass    # completeness of the analysis is not the subject of this property
    return n


# ------------------------------------------------------------------------------------------------
# comparison
# ------------------------------------------------------------------------------------------------

def viol(res, key, msg, witness):
    if key in res['_seen']:
        return
    res['_seen'].add(key)
    res['violations'].append({'key': key, 'msg': msg, 'witness': witness})


def plan_key(plan):
    k = plan['kind']
    if k.startswith('pragmas') or k == 'same_type_twice':
        return 'pragmas'
    if k.startswith('regions'):
        return 'regions'
    if k.startswith('dfa'):
        return 'dataflow'
    if k.startswith('nested'):
        return 'nested:' + '+'.join(sorted(set(l.rstrip('2') for l in plan['layers'])))
    return 'interleaved:' + '+'.join(sorted(plan['attach_order']))


def compare(unit, before, plan, res, text, uname, after_exception=False):
    """Returns True if the unit is still intact."""
    import loki.ir as ir
    C = res['counters']
    C['snapshots_compared'] += 1
    after = snapshot(unit)
    pj = {k: v for k, v in plan.items() if not k.startswith('_')}
    w = {'plan': pj, 'unit': uname, 'source': text}
    pk = plan_key(plan)
    if after_exception:
        pk = 'after-exception:' + pk
    ok = True
    if after['stale']:
        ok = False
        if after_exception:
            viol(res, 'dataflow:attach-raised:unit-left-annotated',
                 f'attach_dataflow_analysis raised and left dataflow data on {after["stale"]} nodes', w)
        else:
            for cls in after['stale']:
                viol(res, f'dataflow:still-attached-after-detach:{cls}',
                     f'{cls} nodes still carry dataflow data after detaching ({pj})', w)
    if after['enc'] != before['enc']:
        ok = False
        diff = irlab.first_diff(before['enc'], after['enc'])
        w['diff'] = diff
        viol(res, f'attach-detach:{pk}:structure-changed:{diff_class(diff)}',
             f'IR structure differs after {pj}: {diff}', w)
    if after['code'] != before['code']:
        ok = False
        w['code_before'] = before['code'][:4000]
        w['code_after'] = after['code'][:4000]
        if after['enc'] == before['enc']:
            viol(res, f'attach-detach:{pk}:code-changed-only', f'generated code differs after {pj}', w)
        elif not any(v['key'].startswith(f'attach-detach:{pk}:structure-changed') for v in res['violations']):
            viol(res, f'attach-detach:{pk}:code-changed', f'generated code differs after {pj}', w)
    if after['ids'] != before['ids'] and after['enc'] == before['enc']:
        ok = False
        gone = [type(n).__name__ for n in before['nodes'] if id(n) not in set(after['ids'])]
        viol(res, f'attach-detach:{pk}:identity-lost:{gone[0] if gone else "order"}',
             f'node identities differ after {pj} although the structure is equal; replaced: {gone[:6]}', w)
    if after['roots'] != before['roots']:
        C['root_objects_replaced'] += 1
    # dataflow properties must raise again
    if 'dfa' in pj.get('kind', '') or 'dfa' in pj.get('layers', []) or 'dfa' in pj.get('attach_order', []):
        C['runtimeerror_probes'] += 1
        for n in irlab.preorder(unit_trees(unit), enter_typedef=True):
            bad = None
            for prop in ('live_symbols', 'defines_symbols', 'uses_symbols'):
                try:
                    getattr(n, prop)
                    bad = prop
                    break
                except (RuntimeError, KeyError):
                    pass    # (nodes that never got the placeholder slots answer KeyError: nothing attached either)
            if bad and not after_exception:
                ok = False
                viol(res, f'dataflow:still-attached-after-detach:{type(n).__name__}',
                     f'{type(n).__name__}.{bad} does not raise RuntimeError after detaching the dataflow analysis '
                     f'({pj})', w)
                break
    return ok


def diff_class(diff):
    import re
    if not diff:
        return 'unknown'
    head = diff.split(': ')[0]
    parts = re.findall(r'/([A-Za-z_]+)|\.([A-Za-z_+]+)', head)
    names = [a or b for a, b in parts]
    tail = ''
    if 'node ' in diff.split(': ', 1)[-1][:40]:
        tail = ':' + diff.split(': ', 1)[-1].split(' != ')[0].replace('node ', '')
    return ('-'.join(names[-2:]) if names else 'top') + tail


# ------------------------------------------------------------------------------------------------
# case
# ------------------------------------------------------------------------------------------------

def make_units(rng, ctx, feats):
    r = rng.random()
    odd = rng.random() < 0.06
    if r < 0.85:
        text, f = irlab.gen_text(rng, {'io_in_kernel': rng.random() < 0.15, 'max_stmts': rng.choice([6, 10, 14, 20])},
                                 decor={'odd_end': odd, 'n_regions': rng.choice([1, 2, 3]),
                                        'p_loop': rng.choice([0.3, 0.6]), 'p_post': rng.choice([0.2, 0.5])})
        feats |= {'gen:' + x for x in f}
        sf = irlab.parse(text)
        routines = irlab.all_routines(sf)
        units = [('kern', routines[0])]
        others = routines[1:]
        if others:
            o = rng.choice(others)
            units.append((o.name, o))
        if rng.random() < 0.25:
            units.append(('kmod', sf['kmod']))
        return text, sf, units
    empty_where = rng.random() < 0.3
    src = irlab.ZOO_SRC
    if empty_where:
        src = src.replace("    elsewhere (x < 0.0_jprb)\n      x = 0.0_jprb\n", "    elsewhere (x < 0.0_jprb)\n")
        feats.add('zoo_empty_elsewhere_slice')
    text, f = irlab.decorate(src, rng, {'odd_end': odd, 'p_decl': 0.1})
    feats |= {'gen:' + x for x in f}
    feats.add('zoo')
    sf = irlab.parse(irlab.KINDS_SRC + text)
    mod = sf['zoo_mod']
    units = [('zoo', mod['zoo'])]
    if rng.random() < 0.5:
        units.append(('zoo_mod', mod))
    else:
        units.append(('swap_i', mod['swap_i']))
    return irlab.KINDS_SRC + text, sf, units


def run_case(idx, rng, tier, ctx):
    import loki.ir as ir
    feats = set()
    res = {'sig': None, 'nontrivial': False, 'violations': [], 'inconclusive': None,
           'counters': collections.Counter(), 'features': [], '_seen': set()}
    try:
        text, sf, units = make_units(rng, ctx, feats)
    except Exception as e:  # pylint: disable=broad-except
        res['inconclusive'] = f'generation/parse failed: {type(e).__name__}: {str(e)[:200]}'
        res.pop('_seen')
        return res
    C = res['counters']
    plans_desc = []
    effect = 0
    for uname, unit in units:
        try:
            before = snapshot(unit)
        except irlab.UnknownExpr as e:
            res['inconclusive'] = f'unknown expression class {e}'
            break
        if before['code'].startswith('<fgen raised'):
            res['inconclusive'] = 'fgen fails on the untouched unit: ' + before['code']
            break
        C['nodes_tracked'] += len(before['ids'])
        C['pragma_nodes'] += sum(1 for n in before['nodes'] if isinstance(n, ir.Pragma))
        intact = True
        # units with ASSOCIATE / TYPE: known dataflow mechanisms, dataflow plans in a small slice only
        scoped = any(isinstance(n, ir.ScopedNode) for n in before['nodes'])
        allow_dfa = not scoped or rng.random() < 0.12
        if scoped and allow_dfa:
            feats.add('dataflow_on_scoped_nodes_slice')
        for _ in range(PLANS_PER_UNIT):
            plan = make_plan(rng, unit, ir, allow_dfa)
            pj = {k: v for k, v in plan.items() if not k.startswith('_')}
            plans_desc.append([uname, pj])
            obs = Obs()
            C['plans_run'] += 1
            if plan['kind'].endswith('raise') or plan['kind'] == 'same_type_twice':
                C['raising_bodies'] += 1
            try:
                run_plan(plan, unit, before, obs)
            except Exception as e:  # pylint: disable=broad-except
                import traceback
                tb = traceback.extract_tb(e.__traceback__)
                where = next((f.name for f in reversed(tb) if ('/loki/ir/' in f.filename or '/loki/analyse/' in
                                                               f.filename) and not f.name.startswith('<')), '?')
                has_td = any(isinstance(n, ir.TypeDef) for n in before['nodes'])
                if isinstance(e, RuntimeError) and where == 'uses_symbols' and has_td:
                    key = 'dataflow:attach-raises-RuntimeError:unit-with-TypeDef'
                else:
                    key = f'attach-detach:raises-{type(e).__name__}:{where}'
                viol(res, key, f'{pj} raised {type(e).__name__} in {where}: {str(e)[:200]}',
                     {'plan': pj, 'unit': uname, 'source': text})
                # the unit may be half attached: compare anyway (exception safety), then stop using it
                if plan['kind'] not in ('pragmas_fn', 'regions_fn', 'dfa_fn', 'interleaved'):
                    compare(unit, before, plan, res, text, uname, after_exception=True)
                intact = False
                break
            if obs.changed:
                effect += 1
                C['plans_with_effect'] += 1
            C['pragmas_seen_attached'] += obs.pragmas_attached
            C['regions_seen_while_attached'] += obs.regions
            C['dfa_nodes_seen_attached'] += obs.dfa_nodes
            feats.add('plan:' + plan['kind'])
            if not compare(unit, before, plan, res, text, uname):
                intact = False
                break
        if not intact:
            continue
    res['nontrivial'] = effect > 0
    res['sig'] = sighash([text, plans_desc])
    res['counters'] = dict(C)
    res['features'] = sorted(feats)
    res['sample'] = {'units': [u for u, _ in units], 'plans': plans_desc[:4],
                     'pragmas': C.get('pragma_nodes', 0), 'plans_with_effect': effect}
    res.pop('_seen')
    return res
