"""C04 -- generated Fortran respects free-form line limits without altering tokens."""
import re
import shutil
from vlib import diffexec
from vlib.fgenlab import ProgGen
from vlib.core import sighash

PID = 'C04'
LEVEL = 'exploration'
TECHNIQUE = 'token-stream monitor: independent free-form tokenizer over wrapped vs unwrapped backend output, line-length oracle, compiler acceptance'
LEVEL_TEXT = ('The real Fortran backend renders each generated IR at line widths 132 (default and IFS style), 100, 80 and 60 and at an '
              'effectively infinite width; an independent free-form tokenizer joins continuation lines and requires the token sequence of '
              'every wrapped rendering to equal that of the unwrapped one, every line to be within the width unless it holds a single token '
              '(plus a trailing comment), and gfortran (-ffree-line-length-132 -Werror=line-truncation) to accept the 132 rendering; a '
              'sample of narrow renderings is also compiled and run against the unwrapped rendering. Held on the programs explored.')
LEVEL_NOTE = 'the tokenizer is mine (names, numbers with kinds, whole character literals with doubled quotes, operators, comments)'
RULE = ('E1 generated modules with long expressions, long argument lists, long string literals (quotes, ampersands, exclamation marks '
        'inside), deep nesting and inline comments inserted; non-trivial = at least one rendering needed a continuation line; '
        'distinct = hash of the source text')
CASES = {'quick': 200, 'thorough': 4000}
MIN_NONTRIVIAL = {'quick': 100, 'thorough': 2000}
ANCHORS = ['loki/tools/strings.py', 'loki/backend/pprint.py']
REQUIRED_REACH = ['_add_item_to_line']
ASSUMPTIONS = ['gfortran 12 free-form rules are the reference for continuation handling']
BUDGET_S = {'quick': 400, 'thorough': 3000}
WIDTHS = [132, 100, 80, 60]

_TOK = re.compile(r"""
    (?P<str>'(?:[^']|'')*'|"(?:[^"]|"")*")
  | (?P<num>(?:\d+\.?\d*|\.\d+)(?:[eEdD][+-]?\d+)?(?:_\w+)?)
  | (?P<dotop>\.[A-Za-z]+\.)
  | (?P<name>[A-Za-z_]\w*)
  | (?P<op>\*\*|//|==|/=|<=|>=|=>|::|\(/|/\)|[-+*/=<>(),:%;\[\]])
  | (?P<ws>\s+)
  | (?P<other>.)
""", re.X)


def join_continuations(text):
    """free-form source -> list of logical statements (continuations joined), comments separated"""
    stmts, comments = [], []
    cur = None
    for raw in text.split('\n'):
        line = raw
        code, com = split_comment(line)
        if com is not None:
            comments.append(com)
        c = code.strip()
        if cur is not None:
            if c.startswith('&'):
                c = c[1:]
            else:
                c = ' ' + c
            # note: without a leading '&' the continuation starts at the first non-blank character
        if not c.strip() and cur is None:
            continue
        if c.rstrip().endswith('&'):
            c = c.rstrip()[:-1]
            cur = (cur or '') + c
            continue
        stmts.append((cur or '') + c)
        cur = None
    if cur is not None:
        stmts.append(cur)
    return stmts, comments


def split_comment(line):
    """split a source line into code and trailing comment (None if no comment), respecting character literals.
    A literal left open at the end of the line (continued character context) is respected as well."""
    q = None
    for i, ch in enumerate(line):
        if q:
            if ch == q:
                q = None
        elif ch in '\'"':
            q = ch
        elif ch == '!':
            return line[:i], line[i:]
    return line, None


def tokens(stmt):
    out = []
    for m in _TOK.finditer(stmt):
        k = m.lastgroup
        if k == 'ws':
            continue
        t = m.group()
        out.append(t if k == 'str' else t.lower())
    return out


def join_pragmas(comments):
    """join directive continuation lines ('!$kw ... &' followed by '!$kw & ...') into one normalised comment each"""
    out, cur, kw = [], None, None
    for c in comments:
        t = c.strip()
        m = re.match(r'!\$(\w+)', t)
        if cur is not None:
            if m and m.group(1).lower() == kw:
                rest = t[m.end():].strip()
                if rest.startswith('&'):
                    rest = rest[1:].strip()
                if rest.endswith('&'):
                    cur += ' ' + rest[:-1].strip()
                    continue
                out.append(re.sub(r'\s+', ' ', cur + ' ' + rest))
                cur = None
                continue
            out.append(re.sub(r'\s+', ' ', cur) + ' <DANGLING-CONTINUATION>')
            cur = None
        if m and t.endswith('&'):
            cur, kw = t[:-1].strip(), m.group(1).lower()
            continue
        out.append(re.sub(r'\s+', ' ', t))
    if cur is not None:
        out.append(re.sub(r'\s+', ' ', cur) + ' <DANGLING-CONTINUATION>')
    return out


def token_stream(text):
    stmts, comments = join_continuations(text)
    comments = join_pragmas(comments)
    toks = []
    for s in stmts:
        toks += tokens(s) + ['<eos>']
    return toks, comments


def hostile_inserts(src, rng):
    """insert long strings / comments / long call into the kernel body"""
    lines = src.split('\n')
    idx = [i for i, l in enumerate(lines) if l.strip().startswith(('if (', 'do ', 'select case')) and 'kern' not in l]
    body_start = next((i for i, l in enumerate(lines) if re.match(r'\s*integer :: i, j, k', l)), None)
    if body_start is None:
        return src, []
    feats = []
    ins = []
    n = rng.randint(1, 4)
    for _ in range(n):
        kind = rng.choice(['longstr', 'longstr2', 'comment', 'quotes', 'concat', 'pragma'])
        L = rng.choice([40, 70, 100, 125, 140, 200])
        filler = ''.join(rng.choice('abcdefghij klmnop,;:()=+-/&!') for _ in range(L)).replace('//', '/')
        if kind == 'longstr':
            ins.append(f"    print '(A)', '{filler}'")
        elif kind == 'longstr2':
            ins.append(f'    print *, "{filler}", i1, "{filler[:L // 3]}"')
        elif kind == 'quotes':
            f2 = filler.replace('a', "''").replace('b', '"')
            ins.append(f"    print '(A)', '{f2}'")
        elif kind == 'pragma':
            sent = rng.choice(['acc', 'omp', 'loki'])
            names = ['a1', 'a2', 'x1', 'x2', 's1', 's2', 'i1', 'i2', 'n', 'm']
            clause = ' '.join(f"{rng.choice(['copyin', 'private', 'present', 'map'])}({', '.join(rng.sample(names, rng.randint(2, 6)))})"
                              for _ in range(max(1, L // 28)))
            ins.append(f'    !${sent} data {clause}')
        elif kind == 'concat':
            ins.append(f"    print '(A)', '{filler[:L // 2]}' // '{filler[L // 2:]}' // 'x'")
        else:
            ins.append(f'    x1 = x1*0.5_8  ! {filler}')
        feats.append(kind + str(L))
    pos = body_start + 1
    # after initialisations: find first line after body_start that is not a simple init assignment
    while pos < len(lines) and re.match(r'\s*\w+ = [\d.]', lines[pos]) or re.match(r'\s*\w+ = \.false\.', lines[pos] if pos < len(lines) else ''):
        pos += 1
    lines[pos:pos] = ins
    return '\n'.join(lines), feats


def run_case(idx, rng, tier, ctx):
    from loki import Sourcefile
    from loki.backend import fgen
    from loki.backend.style import FortranStyle, IFSFortranStyle
    flags = {'io_in_kernel': True, 'long_expr': True, 'expr_depth': rng.choice([3, 4, 5]), 'max_depth': rng.choice([3, 4, 6]),
             'max_stmts': rng.choice([8, 14]), 'kinds_module': False, 'mixed_case': rng.random() < 0.2, 'overlap': True}
    case = ProgGen(rng, flags).generate()
    src, feats = hostile_inserts(case.units, rng)
    res = {'sig': sighash(src), 'nontrivial': False, 'violations': [], 'inconclusive': None,
           'features': sorted(set(f.rstrip('0123456789') for f in feats)), 'counters': {}}
    viol = res['violations']
    try:
        sf = Sourcefile.from_source(src)
    except Exception as e:  # pylint: disable=broad-except
        res['inconclusive'] = f'source not accepted by frontend: {type(e).__name__}: {str(e)[:200]}'
        return res
    ref = fgen(sf, style=FortranStyle(linewidth=10 ** 6))
    refs = {'default': token_stream(ref), 'ifs': token_stream(fgen(sf, style=IFSFortranStyle(linewidth=10 ** 6)))}
    res['counters'] = {'renderings': 0, 'lines_checked': 0, 'tokens_compared': 0, 'continuation_lines': 0}
    renderings = {}
    for W in WIDTHS:
        for sname, style in (('default', FortranStyle(linewidth=W)),) + ((('ifs', IFSFortranStyle(linewidth=W)),) if W == 132 else ()):
            try:
                out = fgen(sf, style=style)
            except Exception as e:  # pylint: disable=broad-except
                viol.append({'key': f'linewrap:raises:{type(e).__name__}', 'msg': f'width {W}: {e}',
                             'witness': {'source': src, 'width': W}})
                continue
            renderings[(W, sname)] = out
            res['counters']['renderings'] += 1
            olines = out.split('\n')
            res['counters']['lines_checked'] += len(olines)
            ncont = sum(1 for l in olines if split_comment(l)[0].rstrip().endswith('&'))
            res['counters']['continuation_lines'] += ncont
            if ncont:
                res['nontrivial'] = True
            # (1) line length
            for ln in olines:
                code, com = split_comment(ln)
                if len(code.rstrip()) <= W:
                    continue        # within the width, or the excess is a trailing comment carried from the source
                c = code.strip()
                if c.startswith('&'):
                    c = c[1:]
                if c.rstrip().endswith('&'):
                    c = c.rstrip()[:-1]
                ntok = len(tokens(c))
                if ntok > 1:
                    first = tokens(c)[0]
                    viol.append({'key': f"linewrap:line-too-long:{'with-string' if any(t[0] in chr(39) + chr(34) for t in tokens(c)) else 'no-string'}",
                                 'msg': f'width {W} style {sname}: line of {len(ln)} chars with {ntok} tokens: {ln[:160]!r}',
                                 'witness': {'source': src, 'width': W, 'line': ln}})
                    break
            # (2) token sequence preserved (IFS style changes no tokens either)
            toks, comments = token_stream(out)
            ref_toks, ref_comments = refs[sname]
            res['counters']['tokens_compared'] += len(toks)
            lone = next((i for i, l in enumerate(olines) if l.strip() == '&'), None)
            if lone is not None and toks != ref_toks:
                # a continuation line that holds only an ampersand: find the statement it belongs to
                j = lone
                while j > 0 and split_comment(olines[j - 1])[0].rstrip().endswith('&'):
                    j -= 1
                kw = re.match(r'\s*(?:\w+:\s*)?([A-Za-z]+)', olines[j])
                viol.append({'key': f"linewrap:continuation-line-holding-only-ampersand:{kw.group(1).upper() if kw else '?'}",
                             'msg': f'width {W} style {sname}: ' + ' | '.join(x.strip() for x in olines[j:lone + 2])[:300],
                             'witness': {'source': src, 'width': W, 'wrapped': out}})
            elif toks != ref_toks:
                k = next((i for i, (a, b) in enumerate(zip(toks, ref_toks)) if a != b), min(len(toks), len(ref_toks)))
                a = toks[k] if k < len(toks) else '<end>'
                b = ref_toks[k] if k < len(ref_toks) else '<end>'
                kind = 'string' if (a[:1] in '\'"' or b[:1] in '\'"') else ('number' if (a[:1].isdigit() or b[:1].isdigit()) else
                                                                              ('name' if (a[:1].isalpha() or b[:1].isalpha()) else 'operator'))
                if kind == 'string':
                    nxt = toks[k + 1] if k + 1 < len(toks) else ''
                    if a + nxt == b:
                        kind = 'string:split-at-doubled-quote'
                    elif a.replace(' ', '') == b.replace(' ', ''):
                        kind = 'string:blanks-changed-inside-literal'
                    else:
                        kind = 'string:other'
                viol.append({'key': f'linewrap:token-sequence-changed:{kind}',
                             'msg': f'width {W} style {sname}: token {k}: wrapped {a[:80]!r} vs unwrapped {b[:80]!r}; context {toks[max(0, k - 4):k + 2]}',
                             'witness': {'source': src, 'width': W, 'wrapped': out}})
            elif sorted(c.strip() for c in comments) != sorted(c.strip() for c in ref_comments):
                viol.append({'key': 'linewrap:comment-text-changed',
                             'msg': f'width {W} style {sname}: comments differ', 'witness': {'source': src, 'width': W, 'wrapped': out}})
    # (3) compiler acceptance of the 132 rendering with truncation as error; sample of narrow renderings run
    if not viol and (132, 'default') in renderings and all(len(l) <= 132 for l in renderings[(132, 'default')].split('\n')):
        wd = ctx['scratch'] / f'c{idx}'
        ok, why = diffexec.syntax_check(wd, [('k.F90', renderings[(132, 'default')])],
                                        extra=['-ffree-line-length-132', '-Werror=line-truncation'])
        if not ok and 'TIMEOUT' in why:
            res['inconclusive'] = 'compiler timeout'
        elif not ok and 'runcat' in why or (not ok and 'Line truncated' in why):
            viol.append({'key': 'linewrap:compiler-truncates-132-rendering', 'msg': why[-300:],
                         'witness': {'source': src, 'wrapped': renderings[(132, 'default')]}})
        elif not ok:
            # not a line-length problem: is the unwrapped rendering accepted?
            ok2, why2 = diffexec.syntax_check(wd, [('k.F90', ref)])
            if 'TIMEOUT' in why2:
                res['inconclusive'] = 'compiler timeout'
            elif ok2:
                viol.append({'key': 'linewrap:wrapped-rendering-rejected-by-compiler', 'msg': why[-300:],
                             'witness': {'source': src, 'wrapped': renderings[(132, 'default')]}})
        res['counters']['compiler_checks'] = 1
        if idx % 4 == 0 and not viol:
            W = rng.choice([80, 60])
            d = diffexec.differential(wd, [('k.F90', ref)], [('k.F90', renderings[(W, 'default')])], ('drv.F90', case.driver),
                                      stdins=case.stdins[:2])
            res['counters']['program_runs'] = d['runs'] * 2
            if d['status'] == 'orig_bad' and 'TIMEOUT' in d['detail']:
                res['inconclusive'] = 'timeout'
            if d['status'] in ('differ', 'new_build_fail'):
                viol.append({'key': f"linewrap:narrow-rendering-{'does-not-compile' if d['status'] == 'new_build_fail' else 'behaves-differently'}",
                             'msg': f'width {W}: {d["detail"][:300]}', 'witness': {'source': src, 'width': W, 'wrapped': renderings[(W, 'default')]}})
        shutil.rmtree(wd, ignore_errors=True)
    res['sample'] = {'inserted': feats, 'lines': src.count('\n'), 'continuation_lines': res['counters']['continuation_lines']}
    return res
