"""
C32 workload generator: Fortran call trees for constant propagation, dead-code removal and removal of
unused variables / dummy arguments.

    case = CPGen(rng, flags, hazard=None).generate()
    case.files    -> [('hmod.F90', text), ('cmod.F90', text)]   (everything Loki processes, dependency order)
    case.driver   -> ('drv.F90', text)                          (PROGRAM unit; Loki never sees it)
    case.stdins   -> input sets
    case.features -> set of feature names

Call tree: ``main`` (driver) -> ``entry`` (module cmod; scheduler role *driver*) -> ``kern`` (module cmod) ->
helpers in module ``hmod`` (another file), ``lsub`` (same module) and an internal procedure of ``kern``.

Variable classes inside ``kern`` (the split keeps *known* defect mechanisms of the transformations out of the main
slice, so each of them can be exercised by a dedicated ``hazard`` snippet with its own mechanism key):

* K (c1..c4, r1, r2, l1, l2, tv%tk, tv%tp): may hold literal constants; never passed to intent(out|inout) dummies,
  never assigned in DO WHILE / SELECT CASE bodies; inside a DO loop only in the unconditional *prologue* of the body
  (assigned before any read, from values not assigned in the loop).
* V (v1..v3, y1, y2): always assigned ``<input leaf> +- expr`` (cannot fold to a literal), or written by calls.

Programs are well-defined by construction: everything initialised, integers bounded (|x| <= 50 for variables),
reals damped, subscripts in bounds, divisors guarded.  Constant real sub-expressions stay exactly representable in
single precision (dyadic literals, bounded size) so that folding them in another precision cannot change a value;
non-dyadic folding is exercised by a hazard snippet.
"""
import math
import random
import re
from dataclasses import dataclass, field

NOI = 16     # integer output taps (last 4 reserved for hazard snippets)
NOR = 10     # real output taps (last 2 reserved for hazard snippets)
IB = 50      # bound of integer variables

DEFAULT_FLAGS = dict(max_stmts=12, max_depth=3, internal=True, derived=True, keyword_calls=True,
                     while_loops=True, select=True, neg_step=False, const_loops=True, n_min=1, do_loops=True)

HAZARDS = [
    # constant propagation
    'call_out', 'call_inout', 'loop_carried', 'accumulator', 'accumulator_varbound', 'cond_assign_in_loop',
    'save_init', 'while_literal_counter', 'select_assign', 'associate_alias', 'zero_trip_const',
    'zero_trip_inner', 'exit_in_loop', 'cycle_in_loop', 'real_kind_fold', 'internal_present', 'unroll_cycle', 'unroll_exit', 'neg_folded_pow_base',
    'stale_second_pass', 'mixed_case_redef', 'member_basename', 'pointer_alias', 'neg_step_unroll',
    'while_zero_trip_assign', 'param_array_2d', 'nested_loop_prologue_outer', 'int_div_neg', 'array_const_elems',
    'simp_int_quot_sum', 'simp_int_quot_product', 'simp_int_quot_like_terms', 'simp_real_div_literal',
    'simp_real_coeff_div_int', 'simp_real_cancel_to_int', 'simp_neg_product', 'simp_real_quot_sum_literal',
    # dead code
    'simp_cond_int_quot', 'simp_cond_real_literal', 'elseif_false_no_else', 'elseif_true_body_starts_with_if',
    'elseif_true_body_starts_with_block_if', 'elseif_false_else_starts_with_if', 'select_literal_range', 'select_logical',
    'select_body_emptied',
    # unused vars / args
    'local_kind_param', 'param_in_initializer', 'dummy_only_in_print', 'local_only_in_internal',
    'dummy_only_in_internal', 'optional_present', 'dummy_only_in_dimension', 'char_len_local', 'sched_both', 'uvars_scalars_with_loops', 'nested_fun_call',
]


@dataclass
class Case:
    files: list
    driver: tuple
    stdins: list
    features: set
    meta: dict = field(default_factory=dict)

    @property
    def units(self):
        return '\n'.join(t for _, t in self.files)


VARNAMES = {'y1', 'y2', 'x1', 'a', 'b', 'w', 'v1', 'v2', 'v3', 'k1', 'k2', 'n', 'ia', 'tab', 'i', 'j', 'r1', 'r2', 'rp',
            'tv%tp', 'c1', 'c2', 'c3', 'c4', 'tv%tk', 'np', 'nq', 'hp', 'lt', 'ptab'}


def _names(t):
    return set(re.findall(r'[a-z][a-z0-9_%]*', t))


def _p(t):
    """parenthesise unless obviously atomic"""
    t = t.strip()
    if t.replace('_', '').replace('%', '').replace('.', '').isalnum():
        return t
    if t[0].isalpha() and t.endswith(')') and t.count('(') == 1:
        return t
    return f'({t})'


class CPGen:

    def __init__(self, rng, flags=None, hazard=None):
        self.rng = rng
        self.hrng = random.Random(rng.getrandbits(48))      # always drawn: base program identical without hazard
        self.flags = dict(DEFAULT_FLAGS)
        if flags:
            self.flags.update(flags)
        self.hz = hazard
        self.features = set()
        self.kint = ['c1', 'c2', 'c3', 'c4']
        self.kreal = ['r1', 'r2']
        self.klog = ['l1', 'l2']
        self.vint = ['v1', 'v2', 'v3']
        self.vreal = ['y1', 'y2']
        if self.flags['derived']:
            self.kint.append('tv%tk')
            self.kreal.append('tv%tp')
        self.rdesc = {}              # K real -> (grid bits, maxabs)
        self.loops = []              # stack of dict(var=, kind='n'|'const', hi=int|None)
        self.frozen = set()          # K vars that must not be read (being assigned in an enclosing loop prologue)
        self.nstmt = 0
        self.used_helpers = set()
        self.extra_decl = []         # hazard declarations in kern
        self.extra_internal = []     # hazard internal procedures in kern
        self.extra_hmod = []         # hazard procedures in hmod
        self.extra_hmod_spec = []
        self.extra_use = []
        self.lsub_unused = rng.random() < 0.7

    # ------------------------------------------------------------------ integer expressions
    def ilit(self):
        return self.rng.choice([1, 2, 3, 4, 5, 7, 9])

    def _int_leaves(self, const):
        out = [('np', 4), ('nq', 2), ('hp', 3)]
        out += [(f'lt({k})', 9) for k in (1, 3)] + [('ptab(2)', 9)]
        out += [(c, IB) for c in self.kint if c not in self.frozen] * 2
        if not const:
            out += [(v, IB) for v in self.vint] * 2
            out += [('k1', 21), ('k2', 21), ('n', 8)]
            for lp in self.loops:
                out.append((lp['var'], 8))
            out.append((f'ia({self.sub_n()})', IB))
            out.append((f'tab({self.sub_tab()})', IB))
        return out

    def sub_n(self):
        """in-bounds subscript of an array of extent n"""
        rng = self.rng
        nl = [lp['var'] for lp in self.loops if lp['kind'] == 'n']
        if nl and rng.random() < 0.8:
            v = rng.choice(nl)
            return rng.choice([v, v, v, f'n + 1 - {v}', f'1 + mod({v}, n)'])
        return rng.choice(['1', 'n', 'max(1, n / 2)', '1 + modulo(k1, n)'])

    def sub_tab(self):
        rng = self.rng
        if self.loops and rng.random() < 0.5:
            return f"1 + mod({rng.choice(self.loops)['var']}, 5)"
        return rng.choice(['1', '2', '3', '4', '5', '1 + modulo(k2, 5)'])

    def ie(self, d, const=False):
        """(text, bound) of an integer expression; const => only literals, parameters and K variables"""
        rng = self.rng
        if d <= 0 or rng.random() < 0.25:
            if rng.random() < 0.3:
                v = self.ilit()
                return str(v), v
            return rng.choice(self._int_leaves(const))
        kind = rng.choice(['add', 'sub', 'mul', 'div', 'mod', 'minmax', 'abs', 'neg', 'add', 'mul', 'pow', 'merge',
                           'fun'])
        a, ba = self.ie(d - 1, const)
        if kind in ('add', 'sub'):
            b, bb = self.ie(d - 1, const)
            return f"{a} {'+' if kind == 'add' else '-'} {_p(b)}", ba + bb
        if kind == 'mul':
            b, bb = self.ie(d - 1, const)
            if ba * bb > 10 ** 6:
                a, ba = f'mod({a}, 17)', 17
            return f'{_p(a)}*{_p(b)}', ba * bb
        if kind == 'div':
            # integer division only of an atom by a literal and only as a function argument (isolated from sums and
            # products: simplify distributes integer quotients, see C08)
            self.features.add('int_div')
            leaf, lb = rng.choice(self._int_leaves(const))
            return f'abs({leaf} / {rng.choice([2, 3, 4, 5])})', lb
        if kind == 'mod':
            m = rng.choice([3, 5, 7])
            return f'mod({a}, {m})', m
        if kind == 'minmax':
            b, bb = self.ie(d - 1, const)
            return f"{rng.choice(['min', 'max'])}({a}, {b})", max(ba, bb)
        if kind == 'abs':
            return f'abs({a})', ba
        if kind == 'neg':
            leaf, lb = rng.choice(self._int_leaves(const))
            return f'(-{leaf})', lb
        if kind == 'pow':
            # base never folds to a literal: a folded negative base is printed without brackets (known finding,
            # hazard neg_folded_pow_base)
            if const:
                return f'({a})', ba
            return f'({self.ie_v(d - 1)})**2', IB * IB
        if kind == 'merge':
            b, bb = self.ie(d - 1, const)
            return f'merge({a}, {b}, {self.le(d - 1, const)})', max(ba, bb)
        if kind == 'fun' and not const and 'hfun(' not in a:
            self.features.add('function_call')
            self.used_helpers.add('hfun')
            for _ in range(5):
                b, bb = self.ie(d - 1, const)
                if 'hfun(' not in b:       # nested references are a known finding (hazard nested_fun_call)
                    break
            else:
                b, bb = '2', 2
            u, _ = self.ie(0, const)
            if self.flags['keyword_calls'] and rng.random() < 0.4:
                self.features.add('keyword_call_arg')
                return f'hfun({a}, y={b}, u={u})', 41
            return f'hfun({a}, {u}, {b})', 41
        return f'({a})', ba

    def ie_b(self, d, const=False, bound=IB):
        """integer expression whose magnitude is <= bound"""
        for _ in range(6):
            e, b = self.ie(d, const)
            if b <= bound:
                return e
        m = self.rng.choice([17, 23, 37])
        return f'mod({e}, {m})'

    def ie_v(self, d):
        """input-dependent integer expression that cannot cancel to a literal: <input leaf> +- E(no such leaf)"""
        rng = self.rng
        leaf, lb = rng.choice([('k1', 21), ('k2', 21), ('k1', 21), ('n', 8)])
        for _ in range(10):
            e, b = self.ie(d, const=rng.random() < 0.3)
            if not re.search(r'\b' + leaf + r'\b', e):
                break
        else:
            e, b = str(self.ilit()), 9
        t = f"{leaf} {rng.choice(['+', '-'])} {_p(e)}"
        if lb + b > IB:
            t = f'mod({t}, {rng.choice([23, 37, 41])})'
        return t

    # ------------------------------------------------------------------ real expressions
    RLITS = [('0.5', 1, 0.5), ('1.5', 1, 1.5), ('2.0', 0, 2.0), ('0.25', 2, 0.25), ('3.0', 0, 3.0), ('1.0', 0, 1.0),
             ('4.0', 0, 4.0), ('0.75', 2, 0.75)]
    MAXBITS = 21

    def rlit(self):
        t, g, m = self.rng.choice(self.RLITS)
        return f'{t}_8', (g, m)

    def _real_leaves(self, const):
        out = [('rp', (1, 1.5))]
        out += [(r, self.rdesc.get(r, (2, 4.0))) for r in self.kreal if r not in self.frozen] * 2
        if not const:
            out += [(y, (0, 1.0)) for y in self.vreal] * 2 + [('x1', (0, 1.0))]
            out.append((f'a({self.sub_n()})', (0, 1.0)))
            out.append((f'w({self.sub_n()})', (0, 1.0)))
            out.append((f'b({self.sub_n()})', (0, 1.0)))
        return out

    @staticmethod
    def _bits(desc):
        g, m = desc
        return g + math.log2(max(m, 1.0))

    def re(self, d, const=False):
        """(text, (gridbits, maxabs)) of a real expression"""
        rng = self.rng
        if d <= 0 or rng.random() < 0.25:
            if rng.random() < 0.3:
                return self.rlit()
            return rng.choice(self._real_leaves(const))
        kinds = ['add', 'sub', 'mul', 'add', 'neg', 'minmax', 'abs', 'pow']
        if not const:
            kinds += ['div', 'intr', 'conv', 'intr']
        kind = rng.choice(kinds)
        a, da = self.re(d - 1, const)
        if kind in ('add', 'sub', 'minmax'):
            b, db = self.re(d - 1, const)
            if _names(a) & _names(b) & VARNAMES:
                # no variable twice in a real sum: real terms cancelling to an *integer* literal (C08) is kept out
                b, db = self.rlit()
            desc = (max(da[0], db[0]), da[1] + db[1])
            if kind == 'minmax':
                return f"{rng.choice(['min', 'max'])}({a}, {b})", desc
            return f"{a} {'+' if kind == 'add' else '-'} {_p(b)}", desc
        if kind == 'mul':
            b, db = self.re(d - 1, const)
            desc = (da[0] + db[0], da[1] * db[1])
            if self._bits(desc) > self.MAXBITS:
                b, db = rng.choice([(y, (0, 1.0)) for y in self.vreal] + [('x1', (0, 1.0))]) if not const \
                    else ('2.0_8', (0, 2.0))
                desc = (da[0] + db[0], da[1] * db[1])
            return f'{_p(a)}*{_p(b)}', desc
        if kind == 'neg':
            leaf, dl = rng.choice(self._real_leaves(const))
            return f'(-{leaf})', dl
        if kind == 'abs':
            return f'abs({a})', da
        if kind == 'pow':
            if const:
                return f'abs({a})', da
            return f'({self.re_v(d - 1)})**2', (0, 1.0)
        if kind == 'div':
            # numerator and denominator can never fold to a literal (simplify raises on literal / non-literal, C08)
            # (simplify distributes the quotient over the numerator's terms, so no literal / constant term there)
            b = self.re_v(d - 1)
            nc = [y for y in self.vreal] + ['x1', f'a({self.sub_n()})', f'w({self.sub_n()})']
            num = rng.choice(nc)
            if rng.random() < 0.4:
                num = f'{num}*{rng.choice(nc)}'
            return f'{num} / (1.0_8 + abs({b}))', (0, 1.0)
        if kind == 'conv':
            return f'real({self.ie_b(d - 1, False, 1000)}, 8)', (0, 1.0)
        # transcendental intrinsics only on arguments that cannot fold to a literal (a folded literal has no kind, the
        # intrinsic would then be evaluated in single precision: known finding, hazard real_kind_fold)
        f = rng.choice(['sin', 'cos', 'tanh', 'sqrt', 'exp'])
        a = self.re_v(d - 1)
        if f == 'sqrt':
            return f'sqrt(abs({a}))', (0, 1.0)
        if f == 'exp':
            return f'exp(-abs({a}))', (0, 1.0)
        return f'{f}({a})', (0, 1.0)

    def re_ok(self, d, const=False):
        for _ in range(8):
            e, desc = self.re(d, const)
            if self._bits(desc) <= self.MAXBITS:
                return e, desc
        return self.rlit()

    def re_v(self, d):
        """input-dependent real expression that cannot fold to a literal"""
        rng = self.rng
        leaf = rng.choice(['x1'] + self.vreal + [f'a({self.sub_n()})'])
        e, _ = self.re_ok(d, const=rng.random() < 0.3)
        if re.search(r'\b' + re.escape(leaf.split('(')[0]) + r'\b', e):
            e, _ = self.rlit()
        return f"{leaf} {rng.choice(['+', '-'])} {_p(e)}"

    def re_nc(self, d):
        """real expression that cannot fold to a literal"""
        return self.re_v(d)

    def damp(self, e):
        c = self.rng.randrange(4)
        if c == 0:
            return f'sin({e})'
        if c == 1:
            return f'tanh({e})'
        if c == 2:
            return f'min(max({e}, -50.0_8), 50.0_8)'
        return f'2.0_8*cos({e})'

    # ------------------------------------------------------------------ logical expressions
    def le(self, d, const=False):
        rng = self.rng
        kind = rng.choice(['icmp', 'icmp', 'rcmp', 'and', 'or', 'not', 'lvar', 'lit'])
        if d <= 0 and kind in ('and', 'or', 'not'):
            kind = 'icmp'
        if kind == 'lit':
            return rng.choice(['.true.', '.false.', 'lpf', 'lpt', '1 > 2', 'np > 2', 'nq == 2', '2 >= 3'])
        if kind == 'lvar':
            cands = [v for v in self.klog if v not in self.frozen]
            return rng.choice(cands) if cands else '.true.'
        if kind == 'icmp':
            a, _ = self.ie(max(d - 1, 0), const)
            b, _ = self.ie(max(d - 1, 0), const)
            return f"{a} {rng.choice(['==', '/=', '<', '<=', '>', '>='])} {b}"
        if kind == 'rcmp':
            a, _ = self.re_ok(max(d - 1, 0), const)
            b, _ = self.re_ok(max(d - 1, 0), const)
            if _names(a) & _names(b) & VARNAMES:
                b, _ = self.rlit()      # no variable on both sides: a re-associated sum must not decide a tie
            return f"{a} {rng.choice(['<', '<=', '>', '>='])} {b}"
        if kind == 'not':
            inner = self.le(d - 1, const)
            if inner.startswith('.not.'):
                return inner[5:].strip()
            return f'.not. ({inner})'
        a = self.le(d - 1, const)
        b = self.le(d - 1, const)
        return f"({a}) {'.and.' if kind == 'and' else '.or.'} ({b})"

    def le_v(self, d):
        """input-dependent (undecidable) condition"""
        rng = self.rng
        if rng.random() < 0.5:
            return f"{self.ie_v(d)} {rng.choice(['==', '/=', '<', '<=', '>', '>='])} {self.ie_b(max(d - 1, 0), rng.random() < 0.5, 10 ** 6)}"
        lhs = self.re_v(d)
        rhs = self.re_ok(max(d - 1, 0), rng.random() < 0.5)[0]
        if _names(lhs) & _names(rhs) & VARNAMES:
            rhs = self.rlit()[0]
        return f"{lhs} {rng.choice(['<', '>', '<=', '>='])} {rhs}"

    def cond(self, d):
        """condition: decidable (constants only) or undecidable"""
        if self.rng.random() < 0.45:
            self.features.add('decidable_condition')
            return self.le(d, const=True)
        self.features.add('undecidable_condition')
        return self.le_v(d)

    # ------------------------------------------------------------------ statements
    def k_assign(self, ind, exclude=()):
        """assign a K variable from constants (sometimes from inputs)"""
        rng = self.rng
        typ = rng.choice(['int', 'int', 'real', 'log'])
        pool = {'int': self.kint, 'real': self.kreal, 'log': self.klog}[typ]
        cands = [v for v in pool if v not in self.frozen and v not in exclude]
        if not cands:
            return []
        v = rng.choice(cands)
        from_input = rng.random() < 0.2
        if typ == 'int':
            e = self.ie_v(2) if from_input else self.ie_b(rng.choice([0, 1, 2, 2]), True, IB)
        elif typ == 'real':
            if from_input:
                e = self.damp(self.re_v(2))
            else:
                for _ in range(8):
                    e, desc = self.re(rng.choice([0, 1, 2]), True)
                    if desc[0] <= 5 and desc[1] <= 64:
                        break
                else:
                    e, desc = self.rlit()
                old = self.rdesc.get(v, (0, 0.0))
                self.rdesc[v] = (max(old[0], desc[0]), max(old[1], desc[1]))
        else:
            e = self.le_v(1) if from_input else self.le(rng.choice([0, 1, 2]), True)
        self.features.add('const_assign' if not from_input else 'const_var_gets_input')
        return [f'{ind}{v} = {e}']

    def v_assign(self, ind):
        rng = self.rng
        if rng.random() < 0.5:
            return [f'{ind}{rng.choice(self.vint)} = {self.ie_v(2)}']
        return [f'{ind}{rng.choice(self.vreal)} = {self.damp(self.re_v(2))}']

    def arr_assign(self, ind):
        rng = self.rng
        c = rng.random()
        if c < 0.35:
            return [f'{ind}a({self.sub_n()}) = {self.damp(self.re_nc(2))}']
        if c < 0.55:
            return [f'{ind}b({self.sub_n()}) = {self.damp(self.re_nc(2))}']
        if c < 0.7:
            return [f'{ind}w({self.sub_n()}) = {self.damp(self.re_nc(2))}']
        if c < 0.85:
            return [f'{ind}ia({self.sub_n()}) = {self.ie_b(2, False, IB)}']
        self.features.add('array_const_elements')
        return [f'{ind}tab({self.sub_tab()}) = {self.ie_b(2, rng.random() < 0.6, IB)}']

    def tap(self, ind):
        rng = self.rng
        if rng.random() < 0.55:
            return [f'{ind}oi({rng.randint(1, NOI - 4)}) = {self.ie_b(3, rng.random() < 0.3, 10 ** 6)}']
        if rng.random() < 0.25:
            return [f'{ind}orr({rng.randint(1, NOR - 2)}) = {self.re_ok(2, True)[0]}']
        return [f'{ind}orr({rng.randint(1, NOR - 2)}) = {self.damp(self.re_nc(2))}']

    def stmt_if(self, ind, depth, ctx):
        rng = self.rng
        self.features.add('if')
        out = [f'{ind}if ({self.cond(2)}) then']
        out += self.block(ind + '  ', depth - 1, rng.randint(1, 3), ctx)
        nelif = rng.choice([0, 0, 1, 2])
        for _ in range(nelif):
            self.features.add('else_if')
            out.append(f'{ind}else if ({self.cond(1)}) then')
            out += self._not_if_first(self.block(ind + '  ', depth - 1, rng.randint(1, 2), ctx), ind + '  ')
        if nelif or rng.random() < 0.6:
            out.append(f'{ind}else')
            blk = self.block(ind + '  ', depth - 1, rng.randint(1, 3), ctx)
            out += self._not_if_first(blk, ind + '  ') if nelif else blk
        out.append(f'{ind}end if')
        return out

    def _not_if_first(self, blk, ind):
        """known findings deadcode:*else-if*: outside their hazard slices, every branch after an ELSE IF starts with a
        plain statement (never IF, never empty after pruning) and the construct ends with an ELSE"""
        if not blk or not re.match(r'\s*(oi|orr|a|b|w|ia|tab|v\d|y\d|c\d|r\d|l\d|tv%t.)\b.* = ', blk[0]):
            return self.tap(ind) + blk
        return blk

    def stmt_inline_if(self, ind, ctx):
        self.features.add('inline_if')
        body = self.simple(ind, ctx)
        if not body:
            return []
        return [f'{ind}if ({self.cond(1)}) {body[0].strip()}']

    def simple(self, ind, ctx):
        """one simple statement allowed in context ctx ('top' | 'loop' | 'nok')"""
        rng = self.rng
        c = rng.random()
        if ctx == 'top' and c < 0.3:
            return self.k_assign(ind)
        if c < 0.5:
            return self.v_assign(ind)
        if c < 0.8:
            return self.arr_assign(ind)
        return self.tap(ind)

    def stmt_loop(self, ind, depth, ctx):
        rng = self.rng
        free = [v for v in ('i', 'j') if v not in [lp['var'] for lp in self.loops]]
        if not free or not self.flags['do_loops']:
            return self.simple(ind, ctx)
        lv = free[0]
        const = self.flags['const_loops'] and rng.random() < 0.45
        if const:
            self.features.add('loop_const_bounds')
            hi = rng.randint(2, 4)
            c = rng.random()
            if c < 0.5:
                hdr = f'do {lv} = 1, {hi}'
            elif c < 0.8:
                hdr = f'do {lv} = 1, np' if hi == 4 else f'do {lv} = 1, nq + {hi - 2}'
            else:
                hdr = f'do {lv} = 2, {hi + 1}'
            self.loops.append({'var': lv, 'kind': 'const', 'hi': hi})
        else:
            self.features.add('loop_input_bounds')
            c = rng.random()
            if self.flags['neg_step'] and c < 0.3:
                self.features.add('neg_step')
                hdr = f'do {lv} = n, 1, -1'
            elif c < 0.2:
                hdr = f'do {lv} = 1, n, 2'
            else:
                hdr = f'do {lv} = 1, n'
            self.loops.append({'var': lv, 'kind': 'n', 'hi': None})
        out = [f'{ind}{hdr}']
        # prologue: K variables assigned unconditionally before any read, from values not assigned in this loop
        prol = []
        if ctx == 'top' and rng.random() < 0.5:
            self.features.add('const_assigned_in_loop_prologue')
            allk = [v for v in self.kint + self.kreal + self.klog if v not in self.frozen]
            tgt = rng.sample(allk, rng.randint(1, 2))
            saved = set(self.frozen)
            self.frozen |= set(tgt)
            for v in tgt:
                if v in self.kint:
                    prol.append(f'{ind}  {v} = {self.ie_b(1, True, IB)}')
                elif v in self.kreal:
                    e, desc = self.rlit()
                    old = self.rdesc.get(v, (0, 0.0))
                    self.rdesc[v] = (max(old[0], desc[0]), max(old[1], desc[1]))
                    prol.append(f'{ind}  {v} = {e}')
                else:
                    prol.append(f'{ind}  {v} = {self.le(1, True)}')
            self.frozen = saved
        out += prol
        out += self.block(ind + '  ', depth - 1, rng.randint(1, 4), 'loop')
        out.append(f'{ind}end do')
        self.loops.pop()
        return out

    def stmt_while(self, ind, depth, ctx):
        rng = self.rng
        if len(self.vint) < 2:
            return self.simple(ind, ctx)       # every V integer but one already is the counter of an enclosing DO WHILE
        self.features.add('do_while')
        cv = rng.choice(self.vint)
        out = [f'{ind}{cv} = mod(abs(k1), 3)',
               f'{ind}do while ({cv} < {rng.randint(3, 5)})']
        saved = self.vint
        self.vint = [v for v in self.vint if v != cv]       # counter is not reassigned in the body
        body = self.block(ind + '  ', depth - 1, rng.randint(1, 3), 'nok')
        self.vint = saved
        out += body
        out.append(f'{ind}  {cv} = {cv} + 1')
        out.append(f'{ind}end do')
        return out

    def stmt_select(self, ind, depth, ctx):
        rng = self.rng
        self.features.add('select_case')
        sel = rng.choice(['mod(abs(k1), 4)', 'mod(abs(k2) + n, 5)', 'k2'])
        out = [f'{ind}select case ({sel})']
        vals = rng.sample(['0', '1', '2', '3', '4'], rng.randint(1, 3))
        for k, v in enumerate(vals):
            if k == 0 and rng.random() < 0.3:
                v = f'{v}, {rng.choice([7, 8])}'
            out.append(f'{ind}case ({v})')
            blk = self.block(ind + '  ', depth - 1, rng.randint(1, 2), 'nok')
            # known finding deadcode:select-case-body-emptied-by-pruning-shifts-later-bodies: outside its hazard slice
            # every CASE body holds a plain statement at its top level (it can never be pruned to nothing)
            if not any(re.match(rf'{ind}  (call |[a-z][a-z0-9%]*(\(.*?\))? = )', l) for l in blk):
                blk = self.tap(ind + '  ') + blk
            out += blk
        if rng.random() < 0.7:
            out.append(f'{ind}case default')
            out += self.block(ind + '  ', depth - 1, rng.randint(1, 2), 'nok')
        out.append(f'{ind}end select')
        return out

    def stmt_call(self, ind, ctx):
        rng = self.rng
        kw = self.flags['keyword_calls'] and rng.random() < 0.4
        if kw:
            self.features.add('keyword_call_arg')
        c = rng.choice(['hset', 'hinc', 'harr', 'lsub', 'isub'])
        if c == 'isub' and not self.flags['internal']:
            c = 'hset'
        self.features.add('call_' + c)
        self.used_helpers.add(c)
        ov = rng.choice(self.vint)
        saved_vint = self.vint
        self.vint = [v for v in self.vint if v != ov]       # no aliasing of the intent(out|inout) actual
        try:
            return self._call(ind, c, ov, kw)
        finally:
            self.vint = saved_vint

    def _call(self, ind, c, ov, kw):
        rng = self.rng
        if c == 'hset':
            x = self.ie_b(2, rng.random() < 0.4, 1000)
            u = self.ie_b(1, rng.random() < 0.5, 1000)
            if kw:
                return [f'{ind}call hset({x}, y={ov}, u={u})']
            return [f'{ind}call hset({x}, {u}, {ov})']
        if c == 'hinc':
            d = self.ie_b(1, rng.random() < 0.5, 100)
            if kw:
                return [f'{ind}call hinc(d={d}, ur=a, v={ov})']
            return [f'{ind}call hinc({ov}, {d}, w)']
        if c == 'harr':
            f = self.damp(self.re_nc(1)) if rng.random() < 0.5 else self.re_ok(1, True)[0]
            if kw:
                return [f'{ind}call harr(n, a, f={f}, q=w, u=b)']
            return [f'{ind}call harr(n, a, b, w, {f})']
        if c == 'lsub':
            x = self.ie_b(1, rng.random() < 0.5, 1000)
            yv = rng.choice(self.vreal)
            ua = 'ua1' if self.lsub_unused else 'w'
            if kw:
                return [f'{ind}call lsub({x}, n, {ua}, r={yv}, t={rng.choice(self.kreal + ["x1"])})']
            return [f'{ind}call lsub({x}, n, {ua}, {rng.choice(self.kreal + ["x1"])}, {yv})']
        if kw:
            return [f'{ind}call isub({ov}, q={self.ie_b(1, rng.random() < 0.5, 100)}, iu={self.ie_b(0, True, 100)})']
        return [f'{ind}call isub({ov}, {self.ie_b(0, True, 100)}, {self.ie_b(1, rng.random() < 0.5, 100)})']

    def block(self, ind, depth, n, ctx):
        rng = self.rng
        out = []
        for _ in range(n):
            if self.nstmt >= self.flags['max_stmts'] * 3:
                break
            self.nstmt += 1
            c = rng.random()
            sub = ctx if ctx != 'top' else 'top'
            if depth > 0 and c < 0.16:
                out += self.stmt_if(ind, depth, sub if sub != 'loop' else 'loop')
            elif depth > 0 and c < 0.30:
                out += self.stmt_loop(ind, depth, ctx)
            elif depth > 0 and c < 0.35 and self.flags['while_loops']:
                out += self.stmt_while(ind, depth, ctx)
            elif depth > 0 and c < 0.41 and self.flags['select']:
                out += self.stmt_select(ind, depth, ctx)
            elif c < 0.48:
                out += self.stmt_inline_if(ind, ctx)
            elif c < 0.58:
                out += self.stmt_call(ind, ctx)
            else:
                out += self.simple(ind, ctx)
        if not out:
            out = self.tap(ind)
        return out

    # ------------------------------------------------------------------ helper procedures
    def _helper_prelude(self, ind, tname='t'):
        """a constant local, a decidable branch -- material for the transformations inside helpers too"""
        rng = self.rng
        lit = self.ilit()
        out = [f'{ind}{tname} = {lit}']
        if rng.random() < 0.6:
            out += [f"{ind}if ({rng.choice(['hp > 5', '.false.', '1 > 2', f'{tname} < 0', 'hpl'])}) then",
                    f'{ind}  {tname} = {tname} + 100',
                    f'{ind}end if']
        return out

    def gen_hmod(self):
        rng = self.rng
        uu = {h: rng.random() < 0.7 for h in ('hset', 'hfun', 'harr', 'hinc')}     # is the middle dummy unused?
        self.unused_in = uu
        L = ['module hmod', '  implicit none', '  integer, parameter :: hp = 3', '  logical, parameter :: hpl = .false.']
        if self.flags['derived']:
            L += ['  type tt', '    real(8) :: tp', '    integer :: tk', '    real(8) :: tq(3)', '  end type tt']
        L += self.extra_hmod_spec
        L += ['contains']
        # hset
        L += ['  subroutine hset(x, u, y)', '    integer, intent(in) :: x', '    integer, intent(in) :: u',
              '    integer, intent(out) :: y', '    integer :: t, hu1', '    real(8) :: hu2(3)']
        L += self._helper_prelude('    ')
        L.append(f"    y = mod(x*{rng.choice([2, 3, 5])} + t{'' if uu['hset'] else ' + u'}, {rng.choice([31, 37, 41])})")
        L += ['  end subroutine hset']
        # hinc
        L += ['  subroutine hinc(v, d, ur)', '    integer, intent(inout) :: v', '    integer, intent(in) :: d',
              '    real(8), intent(in) :: ur(:)', '    integer :: t']
        L += self._helper_prelude('    ')
        ex = '' if uu['hinc'] else ' + int(2.0_8*sin(ur(1)))'
        L.append(f'    v = mod(v + d*t{ex}, {rng.choice([29, 37, 43])})')
        L += ['  end subroutine hinc']
        # hfun
        L += ['  pure function hfun(x, u, y) result(r)', '    integer, intent(in) :: x, u, y', '    integer :: r',
              '    integer :: t']
        L += self._helper_prelude('    ')
        L.append(f"    r = mod(x*t - y{'' if uu['hfun'] else ' + 2*u'}, 41)")
        L += ['  end function hfun']
        # harr
        L += ['  subroutine harr(n, p, u, q, f)', '    integer, intent(in) :: n', '    real(8), intent(in) :: p(n)',
              '    real(8), intent(in) :: u(n)', '    real(8), intent(inout) :: q(n)', '    real(8), intent(in) :: f',
              '    integer :: i', '    real(8) :: hu3(n), s']
        L.append(f"    s = {rng.choice(['0.5_8', '0.25_8', '1.5_8'])}")
        if self.flags['do_loops']:
            L += ['    do i = 1, n',
                  f"      q(i) = s*q(i) + sin(f*p(i){'' if uu['harr'] else ' + u(i)'})",
                  '    end do', '  end subroutine harr']
        else:
            L += [f"    q = s*q + sin(f*p{'' if uu['harr'] else ' + u'})", '  end subroutine harr']
        L += self.extra_hmod
        L += ['end module hmod']
        return '\n'.join(L) + '\n'

    # ------------------------------------------------------------------ hazards
    def hazard_snippet(self, ind):
        """statements (inserted at the top level of kern) that trigger one known / suspected mechanism"""
        hz, r = self.hz, self.hrng
        T1, T2, T3, T4 = NOI - 3, NOI - 2, NOI - 1, NOI
        R1, R2 = NOR - 1, NOR
        s = []
        if hz == 'call_out':
            self.used_helpers.add('hset')
            s = ['hz1 = 3', 'call hset(k1, 2, hz1)', f'oi({T1}) = hz1 + 1']
        elif hz == 'call_inout':
            self.used_helpers.add('hinc')
            s = ['hz1 = 4', 'call hinc(hz1, k2, w)', f'oi({T1}) = hz1*2']
        elif hz == 'loop_carried':
            s = ['hz1 = 3', 'do i = 1, n', '  tab(1 + mod(i, 5)) = hz1', '  hz1 = 5', 'end do', f'oi({T1}) = hz1 + tab(2) + tab(3)']
        elif hz == 'accumulator':
            s = ['hz1 = 0', 'do i = 1, 3', '  hz1 = hz1 + i', 'end do', f'oi({T1}) = hz1']
        elif hz == 'accumulator_varbound':
            s = ['hz1 = 0', 'do i = 1, n', '  hz1 = hz1 + 2', '  tab(1 + mod(i, 5)) = hz1', 'end do', f'oi({T1}) = hz1 + tab(2)']
        elif hz == 'cond_assign_in_loop':
            s = ['hz1 = 2', 'do i = 1, 4', '  if (k1 + i > 100) hz1 = 9', 'end do', f'oi({T1}) = hz1']
        elif hz == 'save_init':
            self.extra_decl.append('integer :: hzs = 0')
            s = ['hzs = hzs + 1', f'oi({T1}) = hzs']
        elif hz == 'while_literal_counter':
            s = ['hz1 = 0', 'hz2 = k1', 'v3 = mod(abs(k2), 3)', 'do while (hz1 < 3)', '  hz2 = hz2 + hz1', '  hz1 = hz1 + 1',
                 '  v3 = v3 + 1', '  if (v3 > 40) exit', 'end do', f'oi({T1}) = hz2', f'oi({T2}) = hz1', f'oi({T3}) = v3']
        elif hz == 'while_zero_trip_assign':
            s = ['hz1 = 1', 'v3 = k1 + 100', 'do while (v3 < 2)', '  hz1 = 7', '  v3 = v3 + 1', 'end do', f'oi({T1}) = hz1']
        elif hz == 'select_assign':
            s = ['hz1 = 10', 'select case (k1)', 'case (:100)', '  hz1 = 11', 'case default', '  hz1 = 12',
                 'end select', f'oi({T1}) = hz1']
        elif hz == 'associate_alias':
            s = ['hz1 = 2', 'associate (zz => hz1)', '  zz = k1 + 7', 'end associate', f'oi({T1}) = hz1']
        elif hz == 'zero_trip_const':
            s = ['hz2 = 0', 'hz1 = 1', 'do i = 1, hz2', '  hz1 = 5', 'end do', f'oi({T1}) = hz1']
        elif hz == 'zero_trip_inner':
            s = ['hz1 = 1', 'do i = 1, 2', '  do j = 1, k2 - 100', '    hz1 = 5', '  end do', 'end do', f'oi({T1}) = hz1']
        elif hz == 'exit_in_loop':
            s = ['hz1 = 1', 'do i = 1, 4', '  if (k1 + i > -100) exit', '  hz1 = 2', 'end do', f'oi({T1}) = hz1']
        elif hz == 'cycle_in_loop':
            s = ['hz1 = 1', 'do i = 1, 4', '  if (k1 + i > -100) cycle', '  hz1 = 2', 'end do', f'oi({T1}) = hz1']
        elif hz == 'unroll_cycle':
            s = ['hz2 = k1', 'do i = 1, 3', '  if (k1 + i > 2) cycle', '  hz2 = hz2 + i', 'end do', f'oi({T1}) = hz2']
        elif hz == 'unroll_exit':
            s = ['hz2 = k1', 'do i = 1, 3', '  if (k1 + i > 2) exit', '  hz2 = hz2 + i', 'end do', f'oi({T1}) = hz2']
        elif hz == 'neg_folded_pow_base':
            s = ['hzr = 0.25_8', f'orr({R1}) = sin(x1 + ((hzr - 0.5_8)**2))', 'hz1 = 2', f'oi({T1}) = k1 + (hz1 - 5)**2']
        elif hz == 'real_kind_fold':
            s = ['hzr = 0.1_8', f'orr({R1}) = hzr*3.0_8 + x1', f'orr({R2}) = 1.0_8 / 3.0_8 + hzr']
        elif hz == 'internal_present':
            self.extra_internal += ['subroutine ihz(q)', '  integer, intent(out) :: q', '  q = k1 + 2', 'end subroutine ihz']
            s = ['call ihz(hz1)', f'oi({T1}) = hz1']
        elif hz == 'simp_int_quot_sum':
            s = [f'oi({T1}) = (k1 + 3) / 2']
        elif hz == 'simp_int_quot_product':
            s = [f'oi({T1}) = 3*(k1 / 2)']
        elif hz == 'simp_int_quot_like_terms':
            s = [f'oi({T1}) = k1 / 2 + k1 / 2']
        elif hz == 'simp_real_div_literal':
            s = [f'orr({R1}) = y1 / 2.0_8']
        elif hz == 'simp_real_quot_sum_literal':
            s = [f'orr({R1}) = (y1 - 0.5_8) / (1.0_8 + abs(y2))']
        elif hz == 'simp_real_coeff_div_int':
            s = [f'orr({R1}) = (1.5_8*y1) / 4']
        elif hz == 'simp_real_cancel_to_int':
            s = [f'orr({R1}) = sqrt(abs(y1 - (y1 + 4.0_8)))']
        elif hz == 'simp_neg_product':
            s = [f'orr({R1}) = -1.0_8 + (-((-y1)*(-2.0_8 + (-2.0_8))))']
        elif hz == 'simp_cond_int_quot':
            s = ['if (mod((k1 + 3) / 2, 2) == 0) then', '  hz1 = 1', 'else', '  hz1 = 2', 'end if', f'oi({T1}) = hz1']
        elif hz == 'simp_cond_real_literal':
            s = ['if (y1 / 2.0_8 > 0.1_8) then', '  hz1 = 1', 'else', '  hz1 = 2', 'end if', f'oi({T1}) = hz1']
        elif hz == 'sched_both':
            self.extra_hmod += ['  subroutine hkw(v, ur, d)', '    integer, intent(inout) :: v', '    real(8), intent(in) :: ur(:)',
                                '    integer, intent(in) :: d', '    v = v + d', '  end subroutine hkw']
            self.extra_use.append('hkw')
            s = ['hz1 = k1', 'call hkw(hz1, d=2, ur=w)', f'oi({T1}) = hz1']
        elif hz == 'uvars_scalars_with_loops':
            s = ['do i = 1, 2', f'  oi({T1}) = oi({T1}) + i', 'end do']
        elif hz == 'stale_second_pass':
            self.used_helpers.add('hset')
            s = ['call hset(k1, 2, hz1)', f'oi({T1}) = hz1', 'hz1 = 4', f'oi({T2}) = hz1']
        elif hz == 'mixed_case_redef':
            s = ['hz1 = 3', 'HZ1 = k1 + 1', f'oi({T1}) = hz1']
        elif hz == 'member_basename':
            self.extra_decl.append('type(tt) :: tv2')
            s = ['tv2%tk = 8', 'tv%tk = 3', f'oi({T1}) = tv2%tk + tv%tk*100']
        elif hz == 'pointer_alias':
            self.extra_decl += ['integer, target :: hzt', 'integer, pointer :: hzp']
            s = ['hzt = 3', 'hzp => hzt', 'hzp = k1 + 5', f'oi({T1}) = hzt']
        elif hz == 'neg_step_unroll':
            s = ['hz1 = 0', 'do i = 4, 1, -1', '  tab(i) = tab(i) + i + k1', 'end do', f'oi({T1}) = tab(1) + tab(2)']
        elif hz == 'param_array_2d':
            self.extra_decl.append('integer, parameter :: hzm(2, 2) = reshape((/ 1, 2, 3, 4 /), (/ 2, 2 /))')
            s = [f'oi({T1}) = hzm(2, 1) + k1']
        elif hz == 'nested_loop_prologue_outer':
            s = ['hz1 = 1', 'do i = 1, 2', '  hz2 = hz1', '  do j = 1, 2', '    hz1 = 3', '  end do', f'  oi({T2}) = oi({T2}) + hz2',
                 'end do', f'oi({T1}) = hz1']
        elif hz == 'int_div_neg':
            s = ['hz1 = -7', 'hz2 = 2', f'oi({T1}) = hz1 / hz2 + k1', f'oi({T2}) = mod(hz1, hz2) + hz1**2 / 4']
        elif hz == 'array_const_elems':
            self.extra_decl.append('integer :: hza(3) = (/ 4, 5, 6 /)')
            s = ['hza(2) = k1', f'oi({T1}) = hza(2) + hza(1)']
        elif hz == 'elseif_true_body_starts_with_if':
            s = ['hz1 = k1', 'if (k1 > 100) then', '  hz1 = hz1 + 1', 'else if (.true.) then', '  if (k2 > 0) hz1 = hz1 + 2', '  hz1 = hz1 + 4',
                 'else', '  hz1 = hz1 + 8', 'end if', f'oi({T1}) = hz1']
        elif hz == 'elseif_true_body_starts_with_block_if':
            s = ['hz1 = k1', 'if (k1 > 100) then', '  hz1 = hz1 + 1', 'else if (.true.) then', '  if (k2 > 0) then', '    hz1 = hz1 + 2', '  end if',
                 '  hz1 = hz1 + 4', 'else', '  hz1 = hz1 + 8', 'end if', f'oi({T1}) = hz1']
        elif hz == 'elseif_false_else_starts_with_if':
            s = ['hz1 = k1', 'if (k1 > 100) then', '  hz1 = hz1 + 1', 'else if (.false.) then', '  hz1 = hz1 + 2', 'else', '  if (k2 > 0) then',
                 '    hz1 = hz1 + 4', '  end if', '  hz1 = hz1 + 8', 'end if', f'oi({T1}) = hz1']
        elif hz == 'elseif_false_no_else':
            s = ['hz1 = k1', 'if (k1 > 100) then', '  hz1 = hz1 + 1', 'else if (.false.) then', '  hz1 = hz1 + 2', 'end if', f'oi({T1}) = hz1']
        elif hz == 'nested_fun_call':
            self.used_helpers.add('hfun')
            s = [f'oi({T1}) = hfun(hfun(k1, 1, 2), 3, k2)']
        elif hz == 'select_literal_range':
            s = ['hz1 = k1', 'select case (3)', 'case (1)', '  hz1 = hz1 + 1', 'case (2:5)', '  hz1 = hz1 + 2', 'case default',
                 '  hz1 = hz1 + 4', 'end select', f'oi({T1}) = hz1']
        elif hz == 'select_body_emptied':
            s = ['hz1 = k1', 'select case (mod(abs(k1), 3))', 'case (0)', '  if (.false.) hz1 = hz1 + 1', 'case (1)',
                 '  hz1 = hz1 + 2', 'case (2)', '  hz1 = hz1 + 4', 'end select', f'oi({T1}) = hz1']
        elif hz == 'select_logical':
            s = ['hz1 = k1', 'select case (.false.)', 'case (.true.)', '  hz1 = hz1 + 1', 'case (.false.)', '  hz1 = hz1 + 2',
                 'end select', f'oi({T1}) = hz1']
        elif hz == 'local_kind_param':
            self.extra_decl += ['integer, parameter :: hwp = 8', 'real(kind=hwp) :: hzw']
            s = ['hzw = 1.5_hwp + x1', f'orr({R1}) = hzw']
        elif hz == 'param_in_initializer':
            self.extra_decl += ['integer, parameter :: hq1 = 2', 'integer, parameter :: hq2 = hq1*3']
            s = [f'oi({T1}) = hq2 + k1']
        elif hz == 'char_len_local':
            self.extra_decl += ['integer, parameter :: hln = 4', 'character(len=hln) :: hzc']
            s = ["hzc = 'abcd'", f'oi({T1}) = len_trim(hzc) + k1']
        elif hz == 'dummy_only_in_print':
            self.extra_hmod += ['  subroutine hpr(x, u)', '    integer, intent(in) :: x, u', "    print *, 'hpr', u",
                                '  end subroutine hpr']
            self.extra_use.append('hpr')
            s = ['call hpr(1, k1)']
        elif hz == 'local_only_in_internal':
            self.extra_decl.append('integer :: hzl(3)')
            self.extra_internal += ['subroutine ihz(r)', '  integer, intent(out) :: r', '  hzl = k1', '  hzl(2) = 5', '  r = sum(hzl)',
                                    'end subroutine ihz']
            s = ['call ihz(hz1)', f'oi({T1}) = hz1']
        elif hz == 'dummy_only_in_internal':
            self.extra_hmod += ['  subroutine hin(x, u, y)', '    integer, intent(in) :: x, u', '    integer, intent(out) :: y',
                                '    call inner()', '  contains', '    subroutine inner()', '      y = x + u', '    end subroutine inner',
                                '  end subroutine hin']
            self.extra_use.append('hin')
            s = ['call hin(1, k1, hz1)', f'oi({T1}) = hz1']
        elif hz == 'optional_present':
            self.extra_hmod += ['  subroutine hopt(x, u, y)', '    integer, intent(in) :: x', '    integer, intent(in), optional :: u',
                                '    integer, intent(out) :: y', '    y = x', '    if (present(u)) y = y + 1', '  end subroutine hopt']
            self.extra_use.append('hopt')
            s = ['call hopt(k1, 3, hz1)', 'call hopt(k1, y=hz2)', f'oi({T1}) = hz1 + 10*hz2']
        elif hz == 'dummy_only_in_dimension':
            self.extra_hmod += ['  subroutine hdim(m, q, u)', '    integer, intent(in) :: m', '    real(8), intent(inout) :: q(m)',
                                '    integer, intent(in) :: u', '    q(1) = q(1) + 1.0_8', '  end subroutine hdim']
            self.extra_use.append('hdim')
            s = ['call hdim(n, w, 3)']
        else:
            raise ValueError(hz)
        self.features.add('hazard_' + hz)
        return [ind + x for x in s]

    # ------------------------------------------------------------------ kern and the module
    def generate(self):
        rng, f = self.rng, self.flags
        ind = '    '
        # init block: constants and input-dependent values
        init = []
        for c in self.kint:
            init.append(f'{ind}{c} = {rng.choice([0, 1, 2, 3, 5, 8])}')
        for r in self.kreal:
            e, desc = self.rlit()
            self.rdesc[r] = desc
            init.append(f'{ind}{r} = {e}')
        init.append(f"{ind}l1 = {rng.choice(['.true.', '.false.'])}")
        init.append(f"{ind}l2 = {rng.choice(['.true.', '.false.', 'k1 > 2'])}")
        init.append(f'{ind}v1 = k1 + 1')
        init.append(f'{ind}v2 = mod(k2*3 + n, 17)')
        init.append(f'{ind}v3 = k2 - k1')
        init.append(f'{ind}y1 = x1*0.5_8')
        init.append(f'{ind}y2 = sin(x1 + 1.0_8)')
        init.append(f'{ind}w = 0.25_8')
        init.append(f'{ind}b = 0.0_8')
        init.append(f'{ind}tab = (/ 3, 1, 4, 1, 5 /)' if rng.random() < 0.5 else
                    '\n'.join(f'{ind}tab({k}) = {v}' for k, v in zip(range(1, 6), (3, 1, 4, 1, 5))))
        if f['derived']:
            self.features.add('derived_type')
            init.append(f'{ind}tv%tq = 1.0_8')
        rng.shuffle(init)
        body = self.block(ind, f['max_depth'], f['max_stmts'], 'top')
        # split the top-level statements to insert the hazard snippet between two of them
        tops = [k for k, ln in enumerate(body) if ln.startswith(ind) and not ln.startswith(ind + ' ')
                and not ln.strip().startswith(('else', 'end ', 'case'))]
        pos = self.hrng.choice(tops + [len(body)]) if tops else len(body)
        hz_lines = self.hazard_snippet(ind) if self.hz else []
        body = body[:pos] + hz_lines + body[pos:]
        final = []
        slots = [c for c in self.kint] + self.vint + ['merge(1, 0, l1)', 'merge(1, 0, l2)', 'tab(2) + 10*tab(4)', 'ia(1)']
        for k, s in enumerate(slots[:NOI - 4]):
            final.append(f'{ind}oi({k + 1}) = oi({k + 1}) + {s}')
        for k, s in enumerate(self.kreal + self.vreal):
            final.append(f'{ind}orr({k + 1}) = orr({k + 1}) + {s}')
        if f['derived']:
            final.append(f'{ind}orr({NOR - 2}) = orr({NOR - 2}) + tv%tq(2)')

        hmod = self.gen_hmod()

        use = sorted({'hset', 'hinc', 'hfun', 'harr'} | set(self.extra_use)) + (['tt'] if f['derived'] else [])
        L = ['module cmod', f"  use hmod, only: hp, hpl, {', '.join(use)}", '  implicit none',
             '  integer, parameter :: np = 4, nq = 2', '  logical, parameter :: lpf = .false., lpt = .true.',
             '  real(8), parameter :: rp = 1.5_8', '  integer, parameter :: ptab(3) = (/ 2, 7, 1 /)', 'contains']
        # entry (scheduler role: driver)
        L += ['  subroutine entry(n, k1, k2, x1, a, b, ia, oi, orr)',
              '    integer, intent(in) :: n, k1, k2', '    real(8), intent(in) :: x1',
              '    real(8), intent(inout) :: a(n)', '    real(8), intent(out) :: b(n)', '    integer, intent(inout) :: ia(n)',
              f'    integer, intent(inout) :: oi({NOI})', f'    real(8), intent(inout) :: orr({NOR})',
              '    real(8) :: scr(n)', '    integer :: eu1', '    scr = 2.0_8', '    eu1 = 3']
        c = rng.random()
        if f['keyword_calls'] and c < 0.3:
            L.append('    call kern(n, k1, 7, k2, x1, a, scr, b, orr=orr, oi=oi, ia=ia)')
        elif f['keyword_calls'] and c < 0.6:
            L.append('    call kern(n, k1, k2=k2, ud1=eu1, x1=x1, a=a, b=b, uda=scr, orr=orr, oi=oi, ia=ia)')
        else:
            L.append('    call kern(n, k1, k1 + 1, k2, x1, a, scr, b, ia, oi, orr)')
        L += ['  end subroutine entry']
        # lsub (same module, unused dummy array in the middle)
        lu = self.lsub_unused
        L += ['  subroutine lsub(x, nu, ua, t, r)', '    integer, intent(in) :: x, nu', '    real(8), intent(in) :: ua(nu)',
              '    real(8), intent(in) :: t', '    real(8), intent(out) :: r', '    integer :: lq, lun(2)']
        L += self._helper_prelude('    ', 'lq')
        L.append(f"    r = sin(t*real(lq + x, 8){'' if lu else ' + ua(1)'})")
        L += ['  end subroutine lsub']
        # kern
        L += ['  subroutine kern(n, k1, ud1, k2, x1, a, uda, b, ia, oi, orr)',
              '    integer, intent(in) :: n, k1', '    integer, intent(in) :: ud1', '    integer, intent(in) :: k2',
              '    real(8), intent(in) :: x1', '    real(8), intent(inout) :: a(n)', '    real(8), intent(in) :: uda(n)',
              '    real(8), intent(out) :: b(n)', '    integer, intent(inout) :: ia(n)',
              f'    integer, intent(inout) :: oi({NOI})', f'    real(8), intent(inout) :: orr({NOR})',
              '    integer, parameter :: lt(4) = (/ 2, 9, 6, 1 /)',
              '    integer :: i, j, c1, c2, c3, c4, v1, v2, v3, hz1, hz2', '    real(8) :: r1, r2, y1, y2, hzr',
              '    logical :: l1, l2', '    integer :: tab(5)', '    real(8) :: w(n)',
              '    integer :: uu1', '    real(8) :: ua1(n), ua2(4)']
        if f['derived']:
            L.append('    type(tt) :: tv')
        L += ['    ' + d for d in self.extra_decl]
        L += init + body + final
        if (f['internal'] and 'isub' in self.used_helpers) or self.extra_internal:
            L.append('  contains')
            if 'isub' in self.used_helpers:
                self.features.add('internal_procedure')
                L += ['    subroutine isub(p, iu, q)', '      integer, intent(inout) :: p', '      integer, intent(in) :: iu',
                      '      integer, intent(in) :: q', '      integer :: iu1', f"      p = mod(p + q*{rng.choice(['c1', 'c2', 'np', 'k1'])} + ia(1), 37)",
                      '      w(n) = w(n)*0.5_8 + r1', '    end subroutine isub']
            L += ['    ' + x for x in self.extra_internal]
        L += ['  end subroutine kern', 'end module cmod']
        cmod = '\n'.join(L) + '\n'

        driver = self._driver()
        nmin = f['n_min']
        stdins = []
        for k in range(4):
            n = rng.randint(max(nmin, 1), 7) if k else rng.randint(3, 6)
            stdins.append(f'{n} {rng.randint(-6, 9)} {rng.randint(-5, 8)} {rng.uniform(-2.0, 2.0):.4f}\n')
        return Case(files=[('hmod.F90', hmod), ('cmod.F90', cmod)], driver=('drv.F90', driver), stdins=stdins,
                    features=self.features, meta={'hazard': self.hz})

    def _driver(self):
        return f'''program main
  use cmod, only: entry
  implicit none
  integer :: n, k1, k2, rep, i
  real(8) :: x1
  real(8), allocatable :: a(:), b(:)
  integer, allocatable :: ia(:)
  integer :: oi({NOI})
  real(8) :: orr({NOR})
  read(*, *) n, k1, k2, x1
  allocate(a(n), b(n), ia(n))
  do rep = 1, 2
    do i = 1, n
      a(i) = 3.0_8*sin(1.3_8*real(i, 8) + x1 + real(rep, 8))
      ia(i) = mod(i*i*7 + k1 + rep, 11) - 3
    end do
    b = -1.0_8
    oi = rep
    orr = 0.5_8*real(rep, 8)
    call entry(n, k1 + rep - 1, k2, x1, a, b, ia, oi, orr)
    print '(a,i0)', 'rep ', rep
    print '(a,*(1x,es23.15))', 'a', a
    print '(a,*(1x,es23.15))', 'b', b
    print '(a,*(1x,i0))', 'ia', ia
    print '(a,*(1x,i0))', 'oi', oi
    print '(a,*(1x,es23.15))', 'orr', orr
  end do
end program main
'''
