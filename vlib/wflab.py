"""
Workload and transformation registry for the well-formedness checks C40 / C41.

* ``make_case(rng, idx, ...)`` -- a ProgGen program (kernel ``kern`` in module ``kmod``, helpers, internal procedures,
  derived type) *decorated* with constructs the registered transformations act on: Loki pragmas (loop-unroll, loop-fusion,
  loop-interchange, loop-fission, outline, remove, region-hoist, inline), sequence-association calls, dead branches,
  multi-variable declarations, unused imports, a statement function, imported constants, duplicate call arguments.
* ``REGISTRY`` -- transformation entry points with their option spaces and preconditions.  An entry is applied to a fresh
  IR of the decorated program; the oracle (vlib/wellformed.py) only decides well-formedness afterwards.
* ``SCHED_REGISTRY`` -- scheduler-driven transformations / pipelines applied to a small project
  (kinds_mod.F90, kmod.F90, drvmod.F90 [, fsub.F90]).
"""
import itertools
import re
from dataclasses import dataclass, field

from vlib.fgenlab import ProgGen, _mixed_case


# --------------------------------------------------------------------------- workload
@dataclass
class WCase:
    kinds: str            # text of module kinds_mod ('' if none)
    kmod: str             # text of module kmod
    rk: str
    features: set
    marks: dict = field(default_factory=dict)
    pflags: dict = field(default_factory=dict)

    @property
    def text(self):
        return self.kinds + self.kmod


KINDS_EXTRA = ('  integer, parameter :: npar = 3\n'
               '  integer, parameter :: npar2 = 2\n'
               '  real(kind=jprb), parameter :: rpar = 1.5_jprb\n')

_CLOSERS = ('end ', 'else', 'case ', 'case(', 'elsewhere', 'enddo', 'endif', 'contains')


def top_items(lines, lo, hi, indent=4):
    """[(start, end)) line ranges of the top-level statements between lines lo and hi"""
    items, cur = [], None
    pad = ' ' * indent
    for i in range(lo, hi):
        ln = lines[i]
        st = ln.strip()
        is_top = ln.startswith(pad) and not ln.startswith(pad + ' ') and st and not st.lower().startswith(_CLOSERS)
        if is_top:
            if cur is not None:
                items.append((cur, i))
            cur = i
    if cur is not None:
        items.append((cur, hi))
    return items


def _names_in(text):
    return set(re.findall(r'[a-z_]\w*', text.lower()))


def decorate(case, rng, dflags):
    """insert registry-relevant constructs into the ProgGen text; returns WCase"""
    rk = 'jprb' if case.meta['flags'].get('kinds_module') else '8'
    text = case.units
    feats = set(case.features)
    marks = {}
    kinds = ''
    if 'module kinds_mod' in text:
        cut = text.index('module kmod')
        kinds, text = text[:cut], text[cut:]
        if dflags.get('constants'):
            kinds = kinds.replace('end module kinds_mod', KINDS_EXTRA + 'end module kinds_mod')
            text = text.replace('  use kinds_mod, only: jprb\n', '  use kinds_mod, only: jprb, npar, rpar\n', 1)
            marks['constants'] = True
            feats.add('d:imported_constants')
    lines = text.split('\n')
    i_sub = next(i for i, l in enumerate(lines) if l.startswith('  subroutine kern('))
    i_decl = next(i for i, l in enumerate(lines) if l.strip() == 'integer :: i, j, k' and i > i_sub)
    i_end = next(i for i, l in enumerate(lines) if i > i_decl and (l.rstrip() == '  contains' or
                                                                   l.strip() == 'end subroutine kern'))
    has = {h: f'subroutine {h}(' in text or f'function {h}(' in text for h in ('hsub', 'hfun', 'hele', 'isub', 'ifun')}
    has_t1 = 'type(ttype)' in text
    has_c1 = bool(re.search(r'intent\(\w+\) :: c1\(n, m\)', text))
    a_out = 'a2'       # a2 is inout or out: always writable
    R = lambda v: f'{v}_{rk}'   # noqa: E731

    decl = ['    real(kind=%s) :: zw(n), zs, zv(n, m)' % rk, '    real(kind=%s) :: zf(4)' % rk, '    integer :: jz, kz',
            '    real(kind=%s) :: zp, zu1, zu2' % rk,
            '    real(kind=%s) :: zq(%s)' % (rk, '1:n, 3, 1:2' if dflags.get('range_decl') else 'n, 3, 2')]
    if dflags.get('range_decl'):
        marks['range_decl'] = True
        feats.add('d:range_decl')
    spec_tail = []
    if dflags.get('stmt_func'):
        decl.append('    real(kind=%s) :: sfn, sfx' % rk)
        spec_tail.append(f'    sfn(sfx) = sfx*{R("2.0")} + {R("1.0")}')
        marks['stmt_func'] = True
        feats.add('d:statement_function')
    if dflags.get('local_kind'):
        decl.append('    integer, parameter :: jploc = selected_real_kind(13, 300)')
        decl.append('    real(kind=jploc) :: zloc')
        marks['local_kind'] = True
        feats.add('d:selected_real_kind')
    init = [f'    zq = {R("0.75")}', f'    zw = {R("0.5")}', f'    zv = {R("0.25")}', f'    zf = {R("1.0")}', f'    zs = {R("0.0")}']
    if dflags.get('local_kind'):
        init.append('    zloc = 1.0_jploc')
    if dflags.get('stmt_func'):
        init.append(f'    zs = sfn(s1) + sfn(zs + {R("0.5")})')

    blocks = []

    def blk(name, lines_):
        blocks.append((name, lines_))

    if dflags.get('unroll'):
        dep = rng.choice(['', ' depth(1)'])
        if rng.random() < 0.5:
            blk('unroll', [f'    !$loki loop-unroll{dep}', '    do jz = 1, 3', f'      zf(jz) = a1(1)*real(jz, {rk})', '    end do'])
        else:
            blk('unroll', [f'    !$loki loop-unroll{dep}', '    do jz = 1, 2', '      do kz = 2, 4, 2',
                           f'        zf(kz) = zf(kz) + real(jz*kz, {rk})', '      end do', '    end do'])
        if dflags.get('unroll_neg'):
            blk('unroll_neg', ['    !$loki loop-unroll', '    do jz = 3, 1, -1', f'      zf(jz) = zf(jz + 1)*{R("0.5")}', '    end do'])
            feats.add('d:unroll_negative_step')
    if dflags.get('fusion'):
        blk('fusion', ['    !$loki loop-fusion group(g1)', '    do jz = 1, n', '      zw(jz) = a1(jz) + s1', '    end do',
                       '    !$loki loop-fusion group(g1)', '    do jz = 1, n', f'      {a_out}(jz) = zw(jz)*{R("0.5")}', '    end do'])
    if dflags.get('interchange'):
        blk('interchange', ['    !$loki loop-interchange', '    do jz = 1, n', '      do kz = 1, m',
                            f'        zv(jz, kz) = a1(jz) + real(kz, {rk})', '      end do', '    end do'])
    if dflags.get('fission'):
        blk('fission', ['    do jz = 1, n', '      zw(jz) = a1(jz)*s1', '      !$loki loop-fission',
                        f'      {a_out}(jz) = zw(jz) + {R("0.25")}', '    end do'])
    if dflags.get('outline'):
        marks['outline'] = []
        if rng.random() < 0.6:
            blk('outline', [f'    !$loki outline name(kern_o1) in(n,a1,s1) inout({a_out})', '    do jz = 1, n',
                            f'      {a_out}(jz) = {a_out}(jz) + a1(jz)*s1', '    end do', '    !$loki end outline'])
        else:
            blk('outline', ['    !$loki outline', '    do jz = 1, n', '      zw(jz) = zw(jz) + a1(jz)*s1', '    end do',
                            '    zs = zs + zw(1)', '    !$loki end outline'])
    if dflags.get('remove'):
        blk('remove', ['    !$loki remove', f'    zs = zs + {R("1.0")}', '    do jz = 1, n', '      zw(jz) = zs', '    end do',
                       '    !$loki end remove'])
    if dflags.get('hoist_region'):
        blk('hoist_region', ['    !$loki region-hoist', f'    zs = {R("2.0")}*s1', '    !$loki end region-hoist'])
    if dflags.get('inline_call') and has['hsub']:
        blk('inline_call', ['    !$loki inline', '    call hsub(n, a1, zs, s2)'])
        marks['inline_call'] = True
    if dflags.get('seq_assoc') and has['hsub']:
        blk('seq_assoc', ['    call hsub(n - 1, a1(2), zs, s2)'] if rng.random() < 0.5 or not has_c1 else
            ['    call hsub(n, c1(1, 1), zs, s2)'])
        marks['seq_assoc'] = True
    if dflags.get('dead_code'):
        v = rng.randrange(6)
        if v == 4:
            # statically decidable SELECT CASE whose *selected* body contains dead code of its own
            blk('dead_code', ['    select case (2)', '    case (1)', f'      zs = {R("1.0")}', '    case (2)', f'      zs = {R("3.0")}',
                              '      if (.false.) then', f'        zs = {R("7.5")}', '      end if',
                              '      if (lg1) then', '        zs = s1', '      end if',
                              '    case default', '      zs = s1', '    end select'])
            feats.add('d:dead_select')
        elif v == 5:
            # ... a nested decidable SELECT (under a run-time condition) and a two-way constant IF inside the selected body
            blk('dead_code', ['    select case (2)', '    case (2)', '      if (lg1) then', '        select case (3)', '        case (3)',
                              f'          zs = {R("3.0")}', '        case default', f'          zs = {R("7.5")}', '        end select',
                              '      end if', '      if (.false.) then', f'        zs = {R("0.5")}', '      else',
                              f'        zs = zs + {R("1.0")}', '      end if', '    case default', '      zs = s1', '    end select'])
            feats.add('d:dead_select')
        elif v == 3:
            blk('dead_code', ['    if (.true.) then', f'      zs = {R("3.0")}', '      if (.false.) then', f'        zs = {R("7.5")}',
                              '      end if', '      if (lg1) then', '        if (.not. .true.) then', f'          zs = {R("0.5")}',
                              '        end if', '      end if', '    end if'])
        elif v == 0:
            blk('dead_code', ['    if (.false.) then', f'      zs = {R("3.0")}', '    end if'])
        elif v == 1:
            blk('dead_code', ['    if (.true.) then', f'      zs = {R("3.0")}', '    else', f'      zs = {R("7.5")}', '    end if'])
        else:
            blk('dead_code', ['    if (lg1) then', f'      zs = {R("3.0")}', '    else if (.false.) then', f'      zs = {R("7.5")}',
                              '    else', '      zs = s1', '    end if'])
    if dflags.get('dup_args'):
        blk('dup_args', ['    call hdup(n, n, a1, zs)'])
        marks['dup_args'] = True
    if dflags.get('lower_const'):
        blk('lower_const', ['    call hlow(n, zq(:, 1, :), zs)'])
        marks['lower_const'] = True
    if dflags.get('vec'):
        blk('vec', [f'    zw(1:n) = a1(1:n) + {R("0.5")}', '    zv(:, :) = zv(:, :)*s1', '    zw(:) = zw + a1'])
    if dflags.get('use_constants') and marks.get('constants'):
        blk('use_constants', [f'    zs = zs + rpar*real(npar, {rk})', '    do jz = 1, npar', '      zf(jz) = rpar', '    end do'])
    if dflags.get('fun_calls'):
        if has['hfun']:
            blk('fun_calls', [f'    zs = hfun(s1, i1) + hfun(zs, 2)'])
        if has['hele']:
            blk('ele_calls', ['    zw = hele(a1, i1)', '    zs = hele(s1, 3)'])
    blk('promo', ['    do jz = 1, n', '      zp = a1(jz)*s1', f'      zw(jz) = zp + {R("0.5")}', '    end do'])
    rng.shuffle(blocks)
    body_extra = []
    for name, ls in blocks:
        body_extra += ls
        feats.add('d:' + name)
        marks.setdefault('blocks', []).append(name)

    # region wrapping of generated top-level statements
    body_lo = i_decl + 1
    # skip the initialisation statements (plain assignments up to the first non-assignment)
    items = top_items(lines, body_lo, i_end)
    wrap = None
    if dflags.get('wrap_region') and len(items) > 2:
        kind = dflags['wrap_region']
        a = rng.randrange(1, len(items))
        b = min(len(items), a + rng.randint(1, 3))
        seg = '\n'.join(lines[items[a][0]:items[b - 1][1]])
        ok = balanced_segment(seg)
        if kind == 'outline' and (_names_in(seg) & {'isub', 'ifun'}):
            ok = False         # an outlined routine cannot reach the internal procedures of kern
        if re.search(r'^\s*\d+\s', seg, re.M):
            ok = False
        if ok:
            wrap = (kind, items[a][0], items[b - 1][1])
    new = lines[:i_decl + 1] + decl + spec_tail
    if dflags.get('region_hoist_target') or dflags.get('hoist_region'):
        init = ['    !$loki region-hoist target'] + init
    new += init
    for i in range(body_lo, i_end):
        if wrap and i == wrap[1]:
            new.append({'outline': '    !$loki outline', 'remove': '    !$loki remove'}[wrap[0]])
        new.append(lines[i])
        if wrap and i == wrap[2] - 1:
            new.append({'outline': '    !$loki end outline', 'remove': '    !$loki end remove'}[wrap[0]])
    if wrap:
        feats.add('d:wrap_' + wrap[0])
        marks['wrap'] = wrap[0]
    new += body_extra
    new += lines[i_end:]
    if dflags.get('unused_import') and kinds:
        new.insert(i_sub + 1, '    use kinds_mod, only: jpim, jprb')
        feats.add('d:unused_import')
        marks['unused_import'] = True
    text = '\n'.join(new)
    if dflags.get('dup_args'):
        text = text.replace('end module kmod', f"""  subroutine hdup(n1, n2, xin, sout)
    integer, intent(in) :: n1, n2
    real(kind={rk}), intent(in) :: xin(n1)
    real(kind={rk}), intent(inout) :: sout
    sout = sout + xin(1)*real(n2, {rk})
  end subroutine hdup
end module kmod""")
    if dflags.get('lower_const'):
        text = text.replace('end module kmod', f"""  subroutine hlow(nn, x2, sout)
    integer, intent(in) :: nn
    real(kind={rk}), intent(in) :: x2(nn, 2)
    real(kind={rk}), intent(inout) :: sout
    sout = sout + x2(1, 1) + x2(nn, 2)
  end subroutine hlow
end module kmod""")
    if dflags.get('assumed_shape') and has['hsub']:
        text = text.replace('intent(in) :: xin(nn)\n    real(kind=%s), intent(inout) :: xio\n    real(kind=%s), intent(out) :: sout\n    integer :: ii\n    sout = 0.0' % (rk, rk),
                            'intent(in) :: xin(:)\n    real(kind=%s), intent(inout) :: xio\n    real(kind=%s), intent(out) :: sout\n    integer :: ii\n    sout = 0.0' % (rk, rk), 1)
        marks['assumed_shape'] = 'xin(:)' in text
        if marks['assumed_shape']:
            feats.add('d:assumed_shape')
    if dflags.get('mixed_case'):
        keep = text.split('\n')
        mixed = _mixed_case(text, rng).split('\n')
        text = '\n'.join(k if k.lstrip().startswith('!$') else m for k, m in zip(keep, mixed))
        feats.add('mixed_case')
        marks['mixed_case'] = True
    marks['has'] = has
    marks['has_t1'] = has_t1
    return WCase(kinds=kinds, kmod=text, rk=rk, features=feats, marks=marks, pflags=dict(case.meta['flags']))


def balanced_segment(seg):
    """constructs opened in the segment are closed in it (by counting block openers / closers)"""
    depth = 0
    for ln in seg.split('\n'):
        st = ln.strip().lower()
        if not st or st.startswith('!'):
            continue
        st = re.sub(r'^\w+\s*:\s*', '', st)
        if re.match(r'^(do\b|select\s+case|associate\s*\()', st) or re.match(r'^if\s*\(.*\)\s*then$', st) \
                or (re.match(r'^where\s*\(', st) and _where_is_block(st)):
            depth += 1
        elif re.match(r'^end\s*(do|if|select|associate|where)\b', st):
            depth -= 1
            if depth < 0:
                return False
    return depth == 0


def _where_is_block(st):
    # "where (mask)" alone on the line opens a construct; "where (mask) a = b" is a statement
    d = 0
    for i, ch in enumerate(st[st.index('('):]):
        if ch == '(':
            d += 1
        elif ch == ')':
            d -= 1
            if d == 0:
                return not st[st.index('(') + i + 1:].strip()
    return True


DECOR_FLAGS = ['unroll', 'fusion', 'interchange', 'fission', 'outline', 'remove', 'hoist_region', 'inline_call',
               'seq_assoc', 'dead_code', 'dup_args', 'vec', 'constants', 'use_constants', 'fun_calls', 'stmt_func',
               'local_kind', 'unused_import', 'assumed_shape', 'lower_const', 'range_decl']


def make_case(rng, idx, gates=None):
    """
    ``gates``: gated features that are on only in small slices, decided by the caller (unroll_neg, io_in_kernel,
    named_cycle_exit, mixed_case ...) and the requirements of the registry slice the case is made for:
    ``dflags`` (decorations forced on / off), ``pflags`` (ProgGen flags), ``need_has`` (helpers / derived type the
    program must contain: 'hsub', 'hfun', 'hele', 'isub', 'ifun', 't1'; 'no-functions').
    """
    gates = gates or {}
    pf = {}
    pf['kinds_module'] = gates.get('kinds_module', rng.random() < 0.6)
    pf['max_stmts'] = rng.choice([4, 6, 8, 12])
    pf['overlap'] = False
    pf['long_expr'] = False
    pf['io_in_kernel'] = bool(gates.get('io_in_kernel'))
    pf['named_cycle_exit'] = bool(gates.get('named_cycle_exit'))
    pf['mixed_case'] = False
    pf['expr_depth'] = rng.choice([2, 3])
    pf['where'] = rng.random() < 0.5
    for k, v in (gates.get('pflags') or {}).items():
        pf[k] = v
    need = set(gates.get('need_has') or ())
    case = None
    for _ in range(12):
        case = ProgGen(rng, pf).generate()
        txt = case.units
        have = {h for h in ('hsub', 'hfun', 'hele', 'isub', 'ifun') if f'subroutine {h}(' in txt or f'function {h}(' in txt}
        if 'type(ttype)' in txt:
            have.add('t1')
        if not have & {'hfun', 'hele', 'ifun'}:
            have.add('no-functions')
        if 't1' not in have:
            have.add('no-t1')
        if need <= have:
            break
    df = {k: rng.random() < 0.6 for k in DECOR_FLAGS}
    df['stmt_func'] = rng.random() < 0.25
    df['wrap_region'] = rng.choice([None, 'outline', 'remove', 'outline'])
    df['mixed_case'] = bool(gates.get('mixed_case', rng.random() < 0.25))
    df['unroll_neg'] = bool(gates.get('unroll_neg'))
    df['assumed_shape'] = False
    for k, v in (gates.get('dflags') or {}).items():
        df[k] = v
    df['constants'] = df['constants'] and pf['kinds_module']
    if df['assumed_shape']:
        df['seq_assoc'] = False       # an element actual for an assumed-shape dummy is not Fortran
    wc = decorate(case, rng, df)
    wc.marks['dflags'] = {k: v for k, v in df.items() if v}
    return wc


def slice_requirements(entries, rng):
    """merge the ``needs`` of the entries of a registry slice into make_case gates (conflicts: random winner)"""
    d, p, has = {}, {}, set()
    order = list(entries)
    rng.shuffle(order)
    for e in order:
        n = e.needs or {}
        ok = all(d.get(k, v) == v for k, v in (n.get('d') or {}).items()) and \
            all(p.get(k, v) == v for k, v in (n.get('p') or {}).items()) and \
            not ({'no-functions'} & set(n.get('has', ())) and has & {'hfun', 'hele', 'ifun'}) and \
            not ({'hfun', 'hele', 'ifun'} & set(n.get('has', ())) and 'no-functions' in has) and \
            not ('no-t1' in n.get('has', ()) and 't1' in has) and not ('t1' in n.get('has', ()) and 'no-t1' in has)
        if not ok:
            continue
        d.update(n.get('d') or {})
        p.update(n.get('p') or {})
        has |= set(n.get('has', ()))
    if 'no-functions' in has:
        p['functions'] = False
    if has & {'hfun', 'hele'}:
        p['functions'] = True
    if has & {'isub', 'ifun'}:
        p['internal'] = True
    if 't1' in has:
        p['derived'] = True
    if 'no-t1' in has:
        p['derived'] = False
    return {'dflags': d, 'pflags': p, 'need_has': sorted(has)}


def option_combos(space, rng=None, limit=None):
    """all combinations of an option space {name: [values]} (or a random sample of ``limit`` of them)"""
    if not space:
        return [{}]
    keys = sorted(space)
    allc = [dict(zip(keys, vals)) for vals in itertools.product(*(space[k] for k in keys))]
    if limit and len(allc) > limit and rng is not None:
        first = allc[0]
        rest = rng.sample(allc[1:], limit - 1)
        return [first] + rest
    return allc


# --------------------------------------------------------------------------- registry (in-process entry points)
class X:
    """application context: a fresh IR of the decorated program"""

    def __init__(self, sf, wc):
        self.sf = sf
        self.wc = wc
        self.mod = sf['kmod']
        self.kern = self.mod['kern']
        self.new_units = []

    def routines(self, on='kern'):
        if on == 'kern':
            return [self.kern]
        out = []
        for r in self.mod.subroutines:
            out.append(r)
            out.extend(r.members)
        return out


@dataclass
class Entry:
    name: str
    apply: object                     # callable(X, opts)
    space: dict = field(default_factory=dict)
    pre: object = None                # callable(wc, opts) -> bool : applicable to this program with these options
    gate: object = None               # callable(wc, opts) -> bool : known mechanism would fire -> only in gated slices
    group: str = ''
    c40: bool = False                 # normalising transformation listed in C40
    min_quick: int = 2
    needs: dict = None                # requirements on the generated program: {'d': {decoration: bool}, 'p': {ProgGen flag: v}, 'has': [...]}


def _T():
    import loki.transformations as T   # pylint: disable=import-outside-toplevel
    return T


def _each(fn_name, **fixed):
    def apply(x, o):
        fn = getattr(_T(), fn_name)
        kw = {k: v for k, v in o.items() if k != 'on'}
        kw.update(fixed)
        for r in x.routines(o.get('on', 'kern')):
            fn(r, **kw)
    return apply


def _has(*marks):
    return lambda wc, o: all(wc.marks.get(m) or m in wc.marks.get('blocks', ()) for m in marks)


def _rename(x, o):
    T = _T()
    which = o['vars']
    m = {'local': {'zs': 'zs_new', 'zw': 'zw_new'}, 'arg': {'a1': 'a1_r', 's1': 's1_r'},
         'loop': {'jz': 'jz_r', 'i': 'i_r'}, 'dim': {'n': 'n_r'}}[which]
    T.rename_variables(x.kern, symbol_map=m)


def _replace_intr(x, o):
    T = _T()
    T.replace_intrinsics(x.kern, function_map={'sin': 'cos', 'min': 'max'} if o['fmap'] else None,
                         symbol_map={'minval': 'zs'} if o['smap'] else None, case_sensitive=o['cs'])


def _single_decl(x, o):
    T = _T()
    for r in x.routines(o['on']):
        if o['vars'] == 'some':
            T.single_variable_declaration(r, variables=('zs', 'j') if r is x.kern else None, group_by_shape=o['group_by_shape'])
        else:
            T.single_variable_declaration(r, group_by_shape=o['group_by_shape'])


def _assoc_trafo(x, o):
    T = _T()
    t = T.AssociatesTransformation(resolve_associates=o['resolve'], merge_associates=o['merge'],
                                   start_depth=o['start_depth'], max_parents=o['max_parents'])
    for r in x.routines('all'):
        if not r.parent or type(r.parent).__name__ == 'Module':
            t.apply(r, role='kernel')


def _seq_trafo(x, o):
    T = _T()
    t = T.SequenceAssociationTransformation(resolve_sequence_associations=True)
    t.apply(x.kern, role='kernel')


def _subst_trafo(x, o):
    T = _T()
    emap = {'a1(1)': 'a1(n)', 'zf(jz)': 'zf(1)'} if o['map'] == 'expr' else {'t1%p': 't1%q(1)', 'a1(jz)': 'a1(jz) + s1'}
    t = T.SubstituteExpressionTransformation(expression_map=emap, substitute_body=o['body'], substitute_spec=o['spec'])
    t.apply(x.kern, role='kernel')


def _sanitise_trafo(x, o):
    T = _T()
    t = T.SanitiseTransformation(resolve_associate_mappings=o['assoc'], resolve_sequence_association=o['seq'])
    t.apply(x.kern, role='kernel')


def _sanitise_pipeline(x, o):
    T = _T()
    p = T.SanitisePipeline(resolve_associates=True, resolve_sequence_associations=o['seq'],
                           substitute_expressions=False)
    p.apply(x.kern, role='kernel')


def _shift_zero(x, o):
    _T().shift_to_zero_indexing(x.kern, ignore=('zf',) if o['ignore'] else None)


def _flatten(x, o):
    T = _T()
    if o['normalize']:
        T.normalize_array_shape_and_access(x.kern)
    T.flatten_arrays(x.kern, order=o['order'], start_index=o['start'])


def _lower_const(x, o):
    T = _T()
    t = T.LowerConstantArrayIndices(recurse_to_kernels=o['recurse'], inline_external_only=o['ext'])
    t.apply(x.kern, role='kernel' if o['recurse'] else 'driver', targets=('hlow',))


def _demote(x, o):
    _T().demote_variables(x.kern, variable_names=('zv',) if o['v'] == 'zv' else ('zv', 'w2'), dimensions='m')


def _promote(x, o):
    from loki.expression import symbols as sym   # pylint: disable=import-outside-toplevel
    k = x.kern
    idx = sym.Variable(name='jz', scope=k) if o['index'] else None
    size = sym.Variable(name='n', scope=k) if o['size'] else None
    _T().promote_variables(k, ('zp',), pos=o['pos'], index=idx, size=size)


def _resolve_dim(x, o):
    from loki import Dimension   # pylint: disable=import-outside-toplevel
    d = Dimension(name='h', index='jz', lower='1', upper='n', size='n')
    _T().resolve_vector_dimension(x.kern, dimension=d, derive_qualified_ranges=o['derive'])


def _inline_funcs(x, o):
    T = _T()
    fns = None
    if o['functions'] == 'explicit':
        fns = [r for r in x.mod.subroutines if r.name.lower() in ('hfun', 'hele')]
    T.inline_functions(x.kern, inline_elementals_only=o['elem_only'], functions=fns)


def _inline_trafo(x, o):
    T = _T()
    t = T.InlineTransformation(inline_constants=o['constants'], inline_elementals=o['elementals'],
                               inline_stmt_funcs=o['stmt_funcs'], inline_internals=o['internals'],
                               inline_marked=o['marked'], remove_dead_code=o['dead'],
                               adjust_imports=True, external_only=True, resolve_sequence_association=o['seq'])
    t.apply(x.kern, role='kernel')


def _remove_calls(x, o):
    _T().do_remove_calls(x.kern, call_names=('hsub',) if o['calls'] else None,
                         intrinsic_names=None, remove_imports=o['remove_imports'])


def _remove_unused(x, o):
    _T().do_remove_unused_vars(x.kern, remove_only_arrays=o['arrays_only'])


def _remove_trafo(x, o):
    T = _T()
    t = T.RemoveCodeTransformation(remove_marked_regions=o['marked'], mark_with_comment=o['comment'],
                                   remove_dead_code=o['dead'], use_simplify=o['simplify'],
                                   call_names=('hdup',) if o['calls'] else None, kernel_only=False,
                                   remove_unused_vars=o['unused_vars'], remove_unused_args=False,
                                   remove_only_arrays=True)
    t.apply(x.kern, role='kernel')


def _loops_trafo(x, o):
    T = _T()
    t = T.TransformLoopsTransformation(loop_interchange=o['interchange'], loop_fusion=o['fusion'],
                                       loop_fission=o['fission'], loop_unroll=o['unroll'],
                                       interchange_project_bounds=o['project'])
    t.apply(x.kern, role='kernel')


def _outline(x, o):
    T = _T()
    from loki.transformations.extract import outline_pragma_regions   # pylint: disable=import-outside-toplevel
    new = outline_pragma_regions(x.kern)
    x.mod.contains.append(new)
    x.new_units += list(new)


def _extract_internal(x, o):
    from loki.transformations.extract import extract_internal_procedures   # pylint: disable=import-outside-toplevel
    new = extract_internal_procedures(x.kern)
    x.mod.contains.append(new)
    x.new_units += list(new)


def _extract_trafo(x, o):
    T = _T()
    t = T.ExtractTransformation(extract_internals=o['internals'], outline_regions=o['outline'])
    t.apply(x.mod, role='kernel')


def _modify_decls(x, o):
    # zu1 / zu2 are declared but never used: removing / renaming their declarations keeps the unit consistent
    T = _T()
    k = x.kern
    vm = k.variable_map
    if o['what'] == 'rename':
        T.modify_variable_declarations(k, rename_symbols={vm['zu2'].name: 'zu3'})
    elif o['what'] == 'remove':
        T.modify_variable_declarations(k, remove_symbols=(vm['zu1'],))
    else:
        T.modify_variable_declarations(k, remove_symbols=(vm['zu1'],), rename_symbols={vm['zu2'].name: 'zu3'})


def _dup_args(x, o):
    _T().remove_duplicate_args_from_calls(x.kern, rename_common=o['rename_common'])


def _constprop(x, o):
    # do_constant_propagation raises AttributeError ('ProcedureSymbol' has no 'initial') for every routine that
    # calls a known subroutine: apply it to the routines without call statements
    from loki.ir import FindNodes, CallStatement   # pylint: disable=import-outside-toplevel
    done = 0
    for r in x.routines('all'):
        if not FindNodes(CallStatement).visit(r.body):
            _T().do_constant_propagation(r, unroll_loops=o['unroll_loops'])
            done += 1
    if not done:
        _T().do_constant_propagation(x.kern, unroll_loops=o['unroll_loops'])


def _split_rw(x, o):
    from loki import Dimension   # pylint: disable=import-outside-toplevel
    d = Dimension(name='h', index='jz', lower='1', upper='n', size='n')
    t = _T().SplitReadWriteTransformation(dimensions=d)
    t.apply(x.kern, role='kernel')


def _parametrise_consts(x, o):
    _T().declare_fixed_value_scalars_as_constants(x.kern)


B = [False, True]

REGISTRY = [
    # ---- utilities.py
    Entry('convert_to_lower_case', _each('convert_to_lower_case'), {'on': ['kern', 'all']}, group='utilities', c40=True),
    Entry('replace_intrinsics', _replace_intr, {'fmap': B, 'smap': B, 'cs': B}, group='utilities'),
    Entry('rename_variables', _rename, {'vars': ['local', 'loop']}, group='utilities'),
    Entry('rename_variables(host-used)', _rename, {'vars': ['arg', 'dim']},
          gate=lambda wc, o: wc.marks['has']['isub'] or wc.marks['has']['ifun'], group='utilities'),
    Entry('sanitise_imports', _each('sanitise_imports'), {'on': ['kern', 'all']}, group='utilities', c40=True),
    Entry('sanitise_imports(module)', lambda x, o: _T().sanitise_imports(x.mod), group='utilities', c40=True),
    Entry('replace_selected_kind', _each('replace_selected_kind'), pre=_has('local_kind'), group='utilities'),
    Entry('single_variable_declaration', _single_decl,
          {'on': ['kern', 'all'], 'vars': ['all', 'some'], 'group_by_shape': B}, group='utilities', c40=True),
    # ---- sanitise/*
    Entry('do_resolve_associates', _each('do_resolve_associates'), {'on': ['kern', 'all'], 'start_depth': [0, 1]},
          group='sanitise', c40=True),
    Entry('do_merge_associates', _each('do_merge_associates'), {'max_parents': [None, 1, 2]}, group='sanitise'),
    Entry('AssociatesTransformation', _assoc_trafo,
          {'resolve': B, 'merge': B, 'start_depth': [0, 1], 'max_parents': [None, 1]}, group='sanitise'),
    Entry('do_resolve_sequence_association', _each('do_resolve_sequence_association'), pre=_has('seq_assoc'),
          group='sanitise', c40=True),
    Entry('SequenceAssociationTransformation', _seq_trafo, pre=_has('seq_assoc'), group='sanitise'),
    Entry('SubstituteExpressionTransformation', _subst_trafo, {'map': ['expr', 'member'], 'body': B, 'spec': B},
          group='sanitise'),
    Entry('SanitiseTransformation', _sanitise_trafo, {'assoc': B, 'seq': B}, group='sanitise'),
    Entry('SanitisePipeline', _sanitise_pipeline, {'seq': B}, group='sanitise'),
    # ---- array_indexing/*
    Entry('shift_to_zero_indexing', _shift_zero, {'ignore': B}, group='array_indexing'),
    Entry('invert_array_indices', _each('invert_array_indices'), group='array_indexing'),
    Entry('normalize_range_indexing', _each('normalize_range_indexing'), {'on': ['kern', 'all']},
          group='array_indexing', c40=True),
    Entry('normalize_array_shape_and_access', _each('normalize_array_shape_and_access'), group='array_indexing'),
    # flatten_arrays expects shapes without ranges ("Resolve shapes being of type RangeIndex ... before flattening")
    Entry('flatten_arrays', _flatten, {'normalize': B, 'order': ['F', 'C'], 'start': [1, 0]},
          pre=lambda wc, o: o['normalize'] or not ('lbound' in wc.features or wc.marks.get('range_decl')),
          group='array_indexing'),
    Entry('LowerConstantArrayIndices', _lower_const, {'recurse': B, 'ext': B}, pre=_has('lower_const'),
          gate=lambda wc, o: wc.rk == 'jprb' or (wc.marks.get('local_kind') and not o['ext']), group='array_indexing'),
    Entry('demote_variables', _demote, {'v': ['zv', 'zv+w2']}, group='array_indexing'),
    Entry('promote_variables', _promote, {'pos': [0, -1], 'index': B, 'size': B},
          pre=lambda wc, o: o['index'] and o['size'], group='array_indexing'),
    Entry('remove_explicit_array_dimensions', _each('remove_explicit_array_dimensions'), {'calls_only': B},
          group='array_indexing', c40=True),
    Entry('add_explicit_array_dimensions', _each('add_explicit_array_dimensions'), group='array_indexing', c40=True),
    Entry('resolve_vector_notation', _each('resolve_vector_notation'),
          {'on': ['kern', 'all'], 'resolve_implicit_rhs_ranges': B, 'insert_comments': B},
          group='array_indexing', c40=True),
    Entry('resolve_vector_dimension', _resolve_dim, {'derive': B}, group='array_indexing', c40=True),
    # ---- inline/*
    Entry('inline_constant_parameters', _each('inline_constant_parameters'), {'external_only': B},
          gate=lambda wc, o: wc.rk == 'jprb' or (wc.marks.get('local_kind') and not o['external_only']), group='inline'),
    Entry('inline_elemental_functions', _each('inline_elemental_functions'), group='inline'),
    Entry('inline_functions', _inline_funcs, {'elem_only': B, 'functions': ['explicit', None]},
          pre=lambda wc, o: wc.marks['has']['hfun'] or wc.marks['has']['hele'], group='inline'),
    Entry('inline_statement_functions', _each('inline_statement_functions'), pre=_has('stmt_func'), group='inline'),
    Entry('inline_internal_procedures', _each('inline_internal_procedures'),
          pre=lambda wc, o: wc.marks['has']['isub'] or wc.marks['has']['ifun'], group='inline'),
    Entry('inline_marked_subroutines', _each('inline_marked_subroutines'), {'adjust_imports': B},
          pre=_has('inline_call'), group='inline'),
    Entry('InlineTransformation', _inline_trafo,
          {'constants': B, 'elementals': B, 'stmt_funcs': B, 'internals': B, 'marked': B, 'dead': B, 'seq': B},
          gate=lambda wc, o: o['constants'] and wc.rk == 'jprb', group='inline'),
    # ---- remove_code.py
    Entry('do_remove_dead_code', _each('do_remove_dead_code'), {'on': ['kern', 'all'], 'use_simplify': B},
          group='remove_code', c40=True),
    Entry('do_remove_marked_regions', _each('do_remove_marked_regions'), {'mark_with_comment': B},
          group='remove_code'),
    Entry('do_remove_calls', _remove_calls, {'calls': B, 'remove_imports': B}, group='remove_code'),
    Entry('do_remove_unused_vars', _remove_unused, {'arrays_only': B}, gate=lambda wc, o: not o['arrays_only'],
          group='remove_code'),
    Entry('RemoveCodeTransformation', _remove_trafo,
          {'marked': B, 'comment': B, 'dead': B, 'simplify': B, 'calls': B, 'unused_vars': B}, group='remove_code'),
    # ---- constant_propagation.py
    Entry('do_constant_propagation', _constprop, {'unroll_loops': B}, group='constant_propagation'),
    # ---- transform_loop.py / transform_region.py
    Entry('do_loop_interchange', _each('do_loop_interchange'), {'project_bounds': B}, pre=_has('interchange'),
          group='transform_loop'),
    Entry('do_loop_fusion', _each('do_loop_fusion'), pre=_has('fusion'), group='transform_loop'),
    Entry('do_loop_fission', _each('do_loop_fission'), {'promote': B, 'warn_loop_carries': B}, pre=_has('fission'),
          group='transform_loop'),
    Entry('do_loop_unroll', _each('do_loop_unroll'), {'warn_iterations_length': B}, pre=_has('unroll'),
          group='transform_loop'),
    Entry('TransformLoopsTransformation', _loops_trafo,
          {'interchange': B, 'fusion': B, 'fission': B, 'unroll': B, 'project': B}, group='transform_loop'),
    Entry('region_hoist', _each('region_hoist'), pre=_has('hoist_region'), group='transform_region'),
    # ---- extract/*
    Entry('outline_pragma_regions', _outline, pre=lambda wc, o: _has('outline')(wc, o) or wc.marks.get('wrap') == 'outline',
          group='extract'),
    Entry('extract_internal_procedures', _extract_internal,
          pre=lambda wc, o: wc.marks['has']['isub'] or wc.marks['has']['ifun'], group='extract'),
    Entry('ExtractTransformation', _extract_trafo, {'internals': B, 'outline': B},
          pre=lambda wc, o: o['internals'] or o['outline'], group='extract'),
    # ---- routine_signatures.py
    Entry('remove_duplicate_args_from_calls', _dup_args, {'rename_common': B}, pre=_has('dup_args'),
          group='routine_signatures'),
    Entry('modify_variable_declarations', _modify_decls, {'what': ['remove', 'rename', 'both']}, group='routine_signatures'),
    # ---- others
    Entry('SplitReadWriteTransformation', _split_rw, group='split_read_write'),
    Entry('declare_fixed_value_scalars_as_constants', _parametrise_consts, group='parametrise'),
]

REG_BY_NAME = {e.name: e for e in REGISTRY}


# --------------------------------------------------------------------------- scheduler project
YOMHOOK = """module yomhook
  implicit none
  integer, parameter :: jphook = selected_real_kind(13, 300)
  logical :: lhook = .false.
contains
  subroutine dr_hook(cdname, kswitch, pkey)
    character(len=*), intent(in) :: cdname
    integer, intent(in) :: kswitch
    real(kind=jphook), intent(inout) :: pkey
    if (kswitch < 0) pkey = 0.0_jphook
  end subroutine dr_hook
end module yomhook
"""


def add_drhook(wc):
    """DR_HOOK instrumentation of kern (for DrHookTransformation); returns new kmod text"""
    lines = wc.kmod.split('\n')
    i_sub = next(i for i, l in enumerate(lines) if l.lower().startswith('  subroutine kern('))
    i_decl = next(i for i, l in enumerate(lines) if l.strip().lower() == 'integer :: jz, kz' and i > i_sub)
    i_end = next(i for i, l in enumerate(lines) if i > i_decl and (l.rstrip().lower() == '  contains' or
                                                                   l.strip().lower() == 'end subroutine kern'))
    # first executable line: after the declarations block inserted by decorate()
    j = i_decl + 1
    while re.match(r'^\s*(real|integer|logical|type)\b.*::', lines[j], re.I) or re.match(r'^\s*sfn\(sfx\)', lines[j], re.I):
        j += 1
    new = lines[:i_sub + 1] + ['    use yomhook, only: lhook, dr_hook, jphook'] + lines[i_sub + 1:j] + \
        ['    real(kind=jphook) :: zhook_handle', "    if (lhook) call dr_hook('KERN', 0, zhook_handle)"]
    # statement functions must stay last in the specification part
    k = len(new) - 2
    if re.match(r'^\s*sfn\(sfx\)', new[k - 1], re.I):
        new[k - 1], new[k] = new[k], new[k - 1]
    new += lines[j:i_end] + ["    if (lhook) call dr_hook('KERN', 1, zhook_handle)"] + lines[i_end:]
    return '\n'.join(new)


def make_project(wc, rng, with_free=True, block_loop=False):
    """
    files of a small scheduler project around the decorated program:
    kinds_mod.F90, yomhook.F90, [fsub.F90 + include/fsub.intfb.h], kmod.F90, drvmod.F90
    returns dict(files=[(name, text)], headers=[(name, text)], info)
    """
    text = wc.kmod
    lines = text.split('\n')
    i_sub = next(i for i, l in enumerate(lines) if l.lower().startswith('  subroutine kern('))
    i_decl = next(i for i, l in enumerate(lines) if l.strip().lower() == 'integer :: i, j, k' and i > i_sub)
    m = re.match(r'\s*subroutine\s+kern\s*\((.*)\)', lines[i_sub], re.I)
    args = [a.strip() for a in m.group(1).split(',')]
    decls = [l for l in lines[i_sub + 1:i_decl] if re.search(r'intent\s*\(', l, re.I)]
    rk = wc.rk
    has_t1 = wc.marks.get('has_t1')
    drv = ['module drvmod']
    if wc.kinds:
        drv.append('  use kinds_mod, only: jprb')
    drv.append('  use kmod, only: kern' + (', ttype' if has_t1 else ''))
    drv.append('  implicit none')
    drv.append('contains')
    drv.append(f"  subroutine drv({', '.join(args)})")
    drv += decls
    if block_loop:
        drv.append('    integer :: ib, nb')
    if with_free:
        drv.append('#include "fsub.intfb.h"')
    if block_loop:
        drv += ['    nb = 2', '    do ib = 1, nb', f"      call kern({', '.join(args)})", '    end do']
    else:
        drv.append(f"    call kern({', '.join(args)})")
    if with_free:
        drv.append('    call fsub(n, a1, s2)')
    drv += ['  end subroutine drv', 'end module drvmod', '']
    files, headers = [], []
    if wc.kinds:
        files.append(('kinds_mod.F90', wc.kinds))
    files.append(('yomhook.F90', YOMHOOK))
    if with_free:
        imp = '  use kinds_mod, only: jprb\n' if wc.kinds else ''
        sig = (f'subroutine fsub(n, x, s)\n{imp}  implicit none\n  integer, intent(in) :: n\n'
               f'  real(kind={rk}), intent(in) :: x(n)\n  real(kind={rk}), intent(inout) :: s\n')
        files.append(('fsub.F90', sig + '  s = s + x(1)\nend subroutine fsub\n'))
        headers.append(('fsub.intfb.h', 'interface\n' + sig + 'end subroutine fsub\nend interface\n'))
    files.append(('kmod.F90', text))
    files.append(('drvmod.F90', '\n'.join(drv)))
    return {'files': files, 'headers': headers, 'args': args}


def topo_order(texts):
    """order (name, text) pairs so that modules are compiled before their users"""
    defs, uses = {}, {}
    for name, t in texts:
        lo = t.lower()
        for mname in re.findall(r'^\s*module\s+(?!procedure\b)(\w+)\s*$', lo, re.M):
            defs[mname] = name
        uses[name] = set(re.findall(r'^\s*use\s*(?:,\s*\w+\s*)?(?:::)?\s*(\w+)', lo, re.M))
    order, done = [], set()
    by = dict(texts)

    def visit(n, stack=()):
        if n in done or n in stack:
            return
        for u in sorted(uses.get(n, ())):
            f = defs.get(u)
            if f and f != n:
                visit(f, stack + (n,))
        done.add(n)
        order.append((n, by[n]))
    for name, _ in texts:
        visit(name)
    return order


@dataclass
class SEntry:
    name: str
    make: object                       # callable(opts, env) -> list of transformations (applied in order)
    space: dict = field(default_factory=dict)
    pre: object = None                 # callable(wc, opts) -> bool
    gate: object = None
    group: str = 'scheduler'
    project: dict = field(default_factory=dict)    # make_project keyword arguments
    keep_originals: bool = False       # the build also contains the untransformed files (renaming transformations)
    needs: dict = None
    fflags: tuple = ()
    min_quick: int = 2


def _s_idem(o, env):
    from loki.transformations.idempotence import IdemTransformation   # pylint: disable=import-outside-toplevel
    return [IdemTransformation()]


def _s_drhook(o, env):
    return [_T().DrHookTransformation(suffix=o['suffix'], remove=o['remove'], kernel_only=o['kernel_only'])]


def _s_dependency(o, env):
    T = _T()
    out = []
    if o['wrap']:
        out.append(T.ModuleWrapTransformation(module_suffix='_MOD'))
    out.append(T.DependencyTransformation(suffix=o['suffix'], module_suffix='_MOD' if o['wrap'] or o['modsuffix'] else None,
                                          include_path=env['include']))
    return out


def _s_duplicate(o, env):
    T = _T()
    return [T.DuplicateKernel(duplicate_kernels=('kern',), duplicate_suffix='dupl',
                              duplicate_module_suffix='dm' if o['modsuffix'] else None)]


def _s_remove_kernel(o, env):
    return [_T().RemoveKernel(remove_kernels=('hsub',))]


def _s_derived(o, env):
    return [_T().DerivedTypeArgumentsTransformation(all_derived_types=o['all'])]


def _s_argshape(o, env):
    T = _T()
    return [T.ArgumentArrayShapeAnalysis(), T.ExplicitArgumentArrayShapeTransformation()]


def _s_dupargs(o, env):
    return [_T().RemoveDuplicateArgs(recurse_to_kernels=o['recurse'], rename_common=o['rename_common'])]


def _s_hoist(o, env):
    T = _T()
    if o['kind'] == 'all':
        return [T.HoistVariablesAnalysis(), T.HoistVariablesTransformation(as_kwarguments=o['kw'], remap_dimensions=o['remap'])]
    return [T.HoistTemporaryArraysAnalysis(dim_vars=('n',) if o['kind'] == 'arrays_n' else None),
            T.HoistTemporaryArraysTransformationAllocatable(as_kwarguments=o['kw'], remap_dimensions=o['remap'])]


def _s_pool(o, env):
    from loki import Dimension   # pylint: disable=import-outside-toplevel
    T = _T()
    block = Dimension(name='block', index='ib', size='nb')
    return [T.TemporariesPoolAllocatorTransformation(block_dim=block, check_bounds=o['check_bounds'])]


def _s_inline(o, env):
    return [_T().InlineTransformation(inline_constants=False, inline_elementals=o['elementals'], inline_internals=o['internals'],
                                      inline_marked=o['marked'], remove_dead_code=False)]


def _s_extract(o, env):
    return [_T().ExtractTransformation(extract_internals=o['internals'], outline_regions=o['outline'])]


def _s_removecode(o, env):
    return [_T().RemoveCodeTransformation(remove_marked_regions=True, remove_dead_code=o['dead'], use_simplify=False,
                                          remove_unused_args=o['unused_args'], remove_unused_vars=o['unused_vars'],
                                          kernel_only=o['kernel_only'])]


def _s_sanitise(o, env):
    T = _T()
    return [T.SanitiseTransformation(resolve_associate_mappings=True, resolve_sequence_association=o['seq'])]


def _s_loops(o, env):
    return [_T().TransformLoopsTransformation(loop_interchange=True, loop_fusion=True, loop_fission=True, loop_unroll=True)]


def _s_lowerconst(o, env):
    return [_T().LowerConstantArrayIndices(recurse_to_kernels=True, inline_external_only=o['ext'])]


def _s_parametrise(o, env):
    return [_T().ParametriseTransformation(dic2p={'m': 3}, replace_by_value=o['by_value'])]


def _s_combo(o, env):
    T = _T()
    out = [T.SanitiseTransformation(resolve_associate_mappings=True, resolve_sequence_association=True),
           T.InlineTransformation(inline_constants=False, inline_elementals=True, inline_internals=o['internals'],
                                  inline_marked=True, remove_dead_code=False)]
    if o['derived']:
        out.append(T.DerivedTypeArgumentsTransformation())
    out.append(T.HoistTemporaryArraysAnalysis())
    out.append(T.HoistTemporaryArraysTransformationAllocatable())
    out.append(T.ModuleWrapTransformation(module_suffix='_MOD'))
    out.append(T.DependencyTransformation(suffix='_t', module_suffix='_MOD', include_path=env['include']))
    return out


def _no_functions(wc):
    # kernels of the hoist / pool-allocator transformations are subroutines (function results cannot be hoisted,
    # pure functions cannot take the stack argument)
    h = wc.marks['has']
    return not (h['hfun'] or h['hele'] or h['ifun'])


SCHED_REGISTRY = [
    SEntry('sched:IdemTransformation', _s_idem, project={'with_free': True}),
    SEntry('sched:DrHookTransformation', _s_drhook, {'suffix': [None, 'X'], 'remove': B, 'kernel_only': B},
           pre=lambda wc, o: o['suffix'] or o['remove'], project={'drhook': True}),
    SEntry('sched:DependencyTransformation', _s_dependency, {'wrap': B, 'modsuffix': B, 'suffix': ['_t', '_T']},
           pre=lambda wc, o: not wc.marks.get('has_t1'), gate=lambda wc, o: o['suffix'] == '_T' and not o['wrap'],
           keep_originals=True, project={'with_free': True}),
    SEntry('sched:DuplicateKernel', _s_duplicate, {'modsuffix': B}, pre=lambda wc, o: not wc.marks.get('has_t1')),
    SEntry('sched:RemoveKernel', _s_remove_kernel, pre=lambda wc, o: wc.marks['has']['hsub']),
    SEntry('sched:DerivedTypeArgumentsTransformation', _s_derived, {'all': B}, pre=lambda wc, o: wc.marks.get('has_t1')),
    SEntry('sched:ArgumentArrayShape', _s_argshape, pre=_has('assumed_shape')),
    SEntry('sched:RemoveDuplicateArgs', _s_dupargs, {'recurse': B, 'rename_common': B}, pre=_has('dup_args')),
    SEntry('sched:HoistVariables', _s_hoist, {'kind': ['all', 'arrays', 'arrays_n'], 'kw': B, 'remap': B},
           pre=lambda wc, o: wc.rk == 'jprb' and _no_functions(wc) and (o['kind'] != 'all' or not (
               wc.marks.get('stmt_func') or wc.marks.get('local_kind')))),
    SEntry('sched:TemporariesPoolAllocator', _s_pool, {'check_bounds': B}, project={'block_loop': True},
           pre=lambda wc, o: _no_functions(wc),
           fflags=('-fcray-pointer',)),
    SEntry('sched:InlineTransformation', _s_inline, {'elementals': B, 'internals': B, 'marked': B}),
    SEntry('sched:ExtractTransformation', _s_extract, {'internals': B, 'outline': B},
           pre=lambda wc, o: o['internals'] or o['outline']),
    SEntry('sched:RemoveCodeTransformation', _s_removecode,
           {'dead': B, 'unused_args': B, 'unused_vars': B, 'kernel_only': B}),
    SEntry('sched:SanitiseTransformation', _s_sanitise, {'seq': B}),
    SEntry('sched:TransformLoopsTransformation', _s_loops),
    SEntry('sched:ParametriseTransformation', _s_parametrise, {'by_value': B},
           gate=lambda wc, o: o['by_value'] and wc.marks.get('local_kind')),
    SEntry('sched:pipeline', _s_combo, {'internals': B, 'derived': B},
           pre=lambda wc, o: wc.rk == 'jprb' and not wc.marks.get('has_t1') and not o['derived'] and _no_functions(wc),
           keep_originals=True, project={'with_free': True}),
]

# requirements of the entries on the generated program (see make_case / slice_requirements): the case generated for a
# registry slice turns on what the entries of the slice act on, so that every entry is exercised in every case of its slice
NEEDS = {
    'replace_selected_kind': {'d': {'local_kind': True}},
    'sanitise_imports': {'d': {'unused_import': True}, 'p': {'kinds_module': True}},
    'do_resolve_sequence_association': {'d': {'seq_assoc': True}, 'has': ['hsub']},
    'SequenceAssociationTransformation': {'d': {'seq_assoc': True}, 'has': ['hsub']},
    'LowerConstantArrayIndices': {'d': {'lower_const': True, 'local_kind': False}, 'p': {'kinds_module': False}},
    'inline_functions': {'has': ['hfun']},
    'inline_elemental_functions': {'d': {'fun_calls': True}},
    'inline_statement_functions': {'d': {'stmt_func': True}},
    'inline_internal_procedures': {'has': ['isub']},
    'inline_marked_subroutines': {'d': {'inline_call': True}, 'has': ['hsub']},
    'inline_constant_parameters': {'d': {'constants': True, 'use_constants': True}},
    'do_remove_dead_code': {'d': {'dead_code': True}},
    'do_remove_marked_regions': {'d': {'remove': True}},
    'do_loop_interchange': {'d': {'interchange': True}},
    'do_loop_fusion': {'d': {'fusion': True}},
    'do_loop_fission': {'d': {'fission': True}},
    'do_loop_unroll': {'d': {'unroll': True}},
    'region_hoist': {'d': {'hoist_region': True}},
    'outline_pragma_regions': {'d': {'outline': True}},
    'extract_internal_procedures': {'has': ['isub']},
    'remove_duplicate_args_from_calls': {'d': {'dup_args': True}},
    'resolve_vector_notation': {'d': {'vec': True}},
    'normalize_range_indexing': {'d': {'range_decl': True}},
    'remove_explicit_array_dimensions': {'d': {'vec': True}},
    'sched:DrHookTransformation': {},
    'sched:DependencyTransformation': {'has': ['no-t1']},
    'sched:DuplicateKernel': {'has': ['no-t1']},
    'sched:RemoveKernel': {'has': ['hsub']},
    'sched:DerivedTypeArgumentsTransformation': {'has': ['t1']},
    'sched:ArgumentArrayShape': {'d': {'assumed_shape': True}, 'has': ['hsub']},
    'sched:RemoveDuplicateArgs': {'d': {'dup_args': True}},
    'sched:HoistVariables': {'p': {'kinds_module': True}, 'has': ['no-functions'], 'd': {'stmt_func': False, 'local_kind': False}},
    'sched:TemporariesPoolAllocator': {'has': ['no-functions']},
    'sched:pipeline': {'p': {'kinds_module': True}, 'has': ['no-functions', 'no-t1']},
}
for _e in REGISTRY + SCHED_REGISTRY:
    _e.needs = NEEDS.get(_e.name)
