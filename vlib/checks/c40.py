"""C40 -- normalising transformations are idempotent (fgen text and independent IR snapshot after 1 vs 2 applications)."""
import difflib
import shutil

from vlib import wflab, wfrun, irstruct
from vlib.core import sighash

PID = 'C40'
LEVEL = 'exploration'
TECHNIQUE = 'differential monitor: regenerated text and independent structural IR snapshot after one vs two applications'
LEVEL_TEXT = ('Each listed normalising transformation (associate resolution, array-notation resolution incl. add/remove '
              'explicit dimensions and resolve_vector_dimension, range-index normalisation, lower-casing, import '
              'sanitising, sequence-association resolution, dead-code removal, single-variable declarations; all option '
              'combinations) was applied twice to generated programs: text and IR snapshot after the second application '
              'equal those after the first, apart from the listed known findings.')
LEVEL_NOTE = ('The IR snapshot (vlib/irstruct.py) walks dataclass fields / init_arg_names only; nesting of body tuples '
              'and trailing blank comments are not significant. A sample of the twice-transformed programs is given to '
              'the frontend and gfortran -fsyntax-only (acceptance is evidence only: rejection is the subject of C41).')
RULE = ('Case = decorated ProgGen program (see vlib/wflab.py); every C40 registry entry is applied with up to 3 (quick) / '
        '6 (thorough) option combinations to a fresh IR, twice in a row. Non-trivial = the first application changed the '
        'regenerated text for at least one entry; distinct = hash of program text.')
CASES = {'quick': 96, 'thorough': 1200}
MIN_NONTRIVIAL = {'quick': 60, 'thorough': 800}
ANCHORS = ['loki/transformations/sanitise/associates.py', 'loki/transformations/array_indexing/vector_notation.py',
           'loki/transformations/array_indexing/array_indices.py', 'loki/transformations/utilities.py',
           'loki/transformations/sanitise/sequence_associations.py', 'loki/transformations/remove_code.py']
REQUIRED_REACH = ['do_resolve_associates', 'resolve_vector_notation', 'normalize_range_indexing',
                  'convert_to_lower_case', 'sanitise_imports', 'do_resolve_sequence_association',
                  'do_remove_dead_code', 'single_variable_declaration']
ASSUMPTIONS = ['the untransformed program must parse, be well-formed and compile, else the case is discarded',
               'an exception in the first application is counted (features exc:*), not judged; an exception in the '
               'second application after a successful first one is a violation']
BUDGET_S = {'quick': 900, 'thorough': 3300}
CASE_TIMEOUT_S = 900
WATCHDOG_S = {'quick': 2400, 'thorough': 7200}

ENTRIES = [e for e in wflab.REGISTRY if e.c40]
REQUIRED_COUNTERS = {'pairs_compared': 400, 'compiled_samples': 20}
for _e in ENTRIES:
    REQUIRED_COUNTERS['twice:' + _e.name] = 20
    REQUIRED_COUNTERS['effective:' + _e.name] = 3


def gates_for(idx):
    g = idx % 8
    return {'io_in_kernel': g == 5, 'allow_known': g == 7}


def flat(s):
    """snapshot with nested tuples of nodes flattened (nesting of body tuples is not significant)"""
    if not isinstance(s, tuple):
        return s
    if s and isinstance(s[0], str):
        return (s[0],) + tuple(flat(x) for x in s[1:])
    out = []
    for x in s:
        fx = flat(x)
        if isinstance(fx, tuple) and not (fx and isinstance(fx[0], str)):
            out.extend(fx)
        else:
            out.append(fx)
    return tuple(out)


def snapshot(sf):
    units = [n for n in sf.ir.body if type(n).__name__ in ('Module', 'Subroutine', 'Function')]
    return flat(irstruct.snap(tuple(units), keep_trailing_blank=False))


def first_text_diff(a, b):
    for ln in difflib.unified_diff(a.split('\n'), b.split('\n'), lineterm='', n=0):
        if ln.startswith(('---', '+++', '@@')):
            continue
        return ln[:200]
    return ''


def diff_class(t1, t2):
    """narrow class of the textual difference between first and second application"""
    d = [ln for ln in difflib.unified_diff(t1.split('\n'), t2.split('\n'), lineterm='', n=0)
         if not ln.startswith(('---', '+++', '@@'))]
    minus = [ln[1:].strip() for ln in d if ln.startswith('-')]
    plus = [ln[1:].strip() for ln in d if ln.startswith('+')]
    if minus and not plus:
        kind = 'removes'
        probe = minus[0]
    elif plus and not minus:
        kind = 'adds'
        probe = plus[0]
    else:
        kind = 'rewrites'
        probe = (minus or [''])[0]
    lo = probe.lower()
    for w in ('associate', 'use ', 'do ', 'end do', 'if ', 'where', 'call ', 'real', 'integer', 'logical', 'type', '!'):
        if lo.startswith(w):
            return f'{kind}-{w.strip().replace(" ", "-").replace("!", "comment")}'
    return f'{kind}-statement'


def run_case(idx, rng, tier, ctx):
    gates = gates_for(idx)
    gates.update(wflab.slice_requirements(ENTRIES, rng))
    if rng.random() < 0.25:
        gates['pflags'].pop('kinds_module', None)      # programs with literal kinds (no kinds module, no unused import)
    gates['mixed_case'] = rng.random() < 0.35
    wc = wflab.make_case(rng, idx, gates)
    limit = 3 if tier == 'quick' else 6
    counters, feats = {}, set(wc.features)
    res = {'sig': sighash(wc.text), 'nontrivial': False, 'violations': [], 'inconclusive': None,
           'features': [], 'counters': counters}
    wd = ctx['scratch'] / f'c{idx}'
    shutil.rmtree(wd, ignore_errors=True)
    viol = {}
    effective = []
    try:
        ev = wfrun.Evaluator(wc, wd, counters)
        why = ev.baseline()
        if why:
            res['inconclusive'] = 'generator defect: ' + why
            return res
        twice_texts = []
        for e in ENTRIES:
            combos = [o for o in wflab.option_combos(e.space) if not e.pre or e.pre(wc, o)]
            if not combos:
                continue
            if len(combos) > limit:
                combos = rng.sample(combos, limit)
            for o in combos:
                sf = ev.fresh.get()
                x = wflab.X(sf, wc)
                try:
                    e.apply(x, o)
                    t1 = sf.to_fortran()
                    s1 = snapshot(sf)
                except Exception as ex:  # pylint: disable=broad-except
                    feats.add(f'exc:{e.name}:{type(ex).__name__}@{wfrun.innermost_loki_frame(ex)}')
                    counters['first_application_exceptions'] = counters.get('first_application_exceptions', 0) + 1
                    continue
                try:
                    e.apply(x, o)
                    t2 = sf.to_fortran()
                    s2 = snapshot(sf)
                except Exception as ex:  # pylint: disable=broad-except
                    key = f'{e.name}:second-application-raises:{type(ex).__name__}@{wfrun.innermost_loki_frame(ex)}'
                    viol.setdefault(key, {'key': key, 'msg': f'{e.name}{o}: second application raises '
                                                             f'{type(ex).__name__}: {str(ex)[:300]}',
                                          'witness': {'entry': e.name, 'options': o, 'source': wc.text,
                                                      'after_first': t1}})
                    continue
                counters['pairs_compared'] = counters.get('pairs_compared', 0) + 1
                counters['twice:' + e.name] = counters.get('twice:' + e.name, 0) + 1
                if t1 != ev.base_text:
                    counters['effective:' + e.name] = counters.get('effective:' + e.name, 0) + 1
                    effective.append(f'{e.name}{o}')
                    twice_texts.append((e.name, t2))
                if t1 != t2:
                    cls = 'identifier-case-only' if t1.lower() == t2.lower() else diff_class(t1, t2)
                    key = f'{e.name}:not-idempotent:{cls}'
                    viol.setdefault(key, {'key': key, 'msg': f'{e.name}{o}: second application changes the code: '
                                                             f'{first_text_diff(t1, t2)}',
                                          'witness': {'entry': e.name, 'options': o, 'source': wc.text,
                                                      'diff': [ln for ln in difflib.unified_diff(
                                                          t1.split('\n'), t2.split('\n'), 'once', 'twice', lineterm='', n=1)][:60]}})
                elif s1 != s2:
                    where = irstruct.first_diff(s1, s2) or '?'
                    cls = where.split(':')[0].split('/')[-1][:40]
                    key = f'{e.name}:ir-not-idempotent:{cls}'
                    viol.setdefault(key, {'key': key, 'msg': f'{e.name}{o}: same text but IR differs after the second '
                                                             f'application: {where[:300]}',
                                          'witness': {'entry': e.name, 'options': o, 'source': wc.text,
                                                      'first_diff': where[:600]}})
        # sample: the twice-transformed program is accepted by frontend and compiler (evidence only, see LEVEL_NOTE)
        if twice_texts:
            name, t2 = rng.choice(twice_texts)
            ok, why = ev.text_ok(t2)
            counters['compiled_samples'] = counters.get('compiled_samples', 0) + 1
            if ok:
                counters['compiled_samples_accepted'] = counters.get('compiled_samples_accepted', 0) + 1
            elif ok is False:
                feats.add(f'twice-transformed-rejected:{name}')
        res['violations'] = list(viol.values())
        res['nontrivial'] = bool(effective)
        res['sample'] = {'decorations': sorted(wc.marks.get('blocks', [])), 'effective': effective[:8],
                         'lines': len(wc.text.splitlines())}
        res['features'] = sorted(feats)
        return res
    finally:
        shutil.rmtree(wd, ignore_errors=True)


def finalize(agg, tier):
    agg['extra_coverage'] = {
        'entries': [e.name for e in ENTRIES],
        'pairs_per_entry': {k[6:]: v for k, v in sorted(agg['counters'].items()) if k.startswith('twice:')},
        'effective_per_entry': {k[10:]: v for k, v in sorted(agg['counters'].items()) if k.startswith('effective:')},
        'first_application_exceptions': {k: v for k, v in agg['features'].items() if k.startswith('exc:')},
        'twice_transformed_rejected': {k: v for k, v in agg['features'].items() if k.startswith('twice-transformed')},
    }
