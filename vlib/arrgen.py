"""
Array-section kernel generator for C30 (array-notation resolution / index normalisation).

Generates an *external* subroutine ``kern`` (own file, explicit-shape dummies only, so the untouched
driver stays valid under sequence association when a transformation re-declares ``c(n,m)`` as ``c(n*m)``
or ``b(0:n+1)`` as ``b(n+2)``) built from array-section statements whose hazards the generator knows:

* every statement carries ``tags`` (features used) and ``hostile`` (name of a feature that is known or
  suspected to break some transformation; ``None`` for statements every transformation must get right);
* ``ArrCase.kernel(drop_hostile=True)`` re-emits the same routine without the hostile statements, which the
  check uses to decide whether a violation is explained by the hostile feature or is something else.

Programs are well-defined by construction: all arrays are dummies filled by the driver (or locals filled
from dummies first), sections are in bounds and conforming for every ``n >= 5, m >= 4``, integer magnitudes
stay far below 2**31 (only ``+ - * literal``), reals are dyadic rationals combined with ``+ - *``.
"""
from dataclasses import dataclass, field

MIN = {'n': 5, 'm': 4, 'c': 0}
RK = 'real64'


def aff(base, k):
    """text of ``base + k`` (base in n/m) or of the constant k (base 'c')"""
    if base == 'c' or base is None:
        return str(k)
    if k == 0:
        return base
    return f'{base}+{k}' if k > 0 else f'{base}-{-k}'


def _shift(v, k):
    return v if k == 0 else (f'{v}+{k}' if k > 0 else f'{v}-{-k}')


@dataclass
class Dim:
    lb: int
    base: str      # 'n' | 'm' | 'c'
    pad: int       # extent = base + pad (base 'c': extent = pad)

    @property
    def minext(self):
        return MIN[self.base] + self.pad

    def ub_text(self):
        return aff(self.base, self.lb + self.pad - 1)

    def ext_text(self):
        return aff(self.base, self.pad)

    def decl(self, explicit_one=False):
        if self.lb == 1 and not explicit_one:
            return self.ub_text()
        return f'{self.lb}:{self.ub_text()}'


@dataclass
class Arr:
    name: str
    typ: str               # 'int' | 'real' | 'log'
    dims: list
    intent: str = 'inout'  # None => local
    explicit_one: bool = False

    @property
    def rank(self):
        return len(self.dims)

    def decl(self):
        return f"{self.name}({', '.join(d.decl(self.explicit_one) for d in self.dims)})"

    def type_text(self):
        return {'int': 'integer', 'real': f'real(kind={RK})', 'log': 'logical'}[self.typ]


@dataclass
class Stmt:
    lines: list
    tags: set = field(default_factory=set)
    hostile: str = None
    pre: list = field(default_factory=list)    # lines that must precede (e.g. loop giving WHERE its index)


@dataclass
class ArrCase:
    arrays: list
    stmts: list
    flags: dict
    stdins: list
    helper: str = ''        # untouched helper units (compiled before the kernel)
    uses: list = field(default_factory=list)
    extra_decl: list = field(default_factory=list)
    args: list = field(default_factory=list)

    # ---- kernel text -----------------------------------------------------------------------------------
    def kernel(self, drop_hostile=False):
        fl = self.flags
        L = []
        arglist = ', '.join(self.args)
        L.append(f'subroutine kern({arglist})')
        L.append(f'  use iso_fortran_env, only: {RK}')
        for u in self.uses:
            L.append('  ' + u)
        L.append('  implicit none')
        L.append('  integer, intent(in) :: n, m, ks, ke')
        if fl.get('derived_dims'):
            L.append('  type(dims_t), intent(in) :: dd')
        L.append(f'  real(kind={RK}), intent(inout) :: sr')
        L.append('  integer, intent(inout) :: si')
        for a in self.arrays:
            if a.intent:
                L.append(f'  {a.type_text()}, intent({a.intent}) :: {a.decl()}')
        for a in self.arrays:
            if not a.intent:
                L.append(f'  {a.type_text()} :: {a.decl()}')
        L.append('  integer :: i, j, k, jj, jl')
        L.extend('  ' + d for d in self.extra_decl)
        # locals are filled from dummies first
        for a in self.arrays:
            if not a.intent:
                L.extend(self._fill_local(a))
        for s in self.stmts:
            if drop_hostile and s.hostile:
                continue
            L.extend('  ' + x for x in s.pre)
            L.extend('  ' + x for x in s.lines)
        for a in self.arrays:
            if not a.intent:
                L.extend(self._fold_local(a))
        L.append('end subroutine kern')
        return '\n'.join(L) + '\n'

    def _loops(self, a, body):
        vs = ['i', 'j', 'k'][:a.rank]
        out = []
        ind = '  '
        for v, d in reversed(list(zip(vs, a.dims))):
            out.append(f'{ind}do {v} = {d.lb}, {d.ub_text()}')
            ind += '  '
        out.append(ind + body(vs))
        for _ in vs:
            ind = ind[:-2]
            out.append(f'{ind}end do')
        return out

    def _fill_local(self, a):
        src = self._twin(a)
        def body(vs):
            idx = ', '.join(vs)
            sidx = ', '.join(_shift(v, sd.lb - d.lb) for v, d, sd in zip(vs, a.dims, src.dims))
            return f'{a.name}({idx}) = {src.name}({sidx})' + (' * 2' if a.typ == 'int' else f' * 0.5_{RK}')
        return self._loops(a, body)

    def _fold_local(self, a):
        src = self._twin(a)
        def body(vs):
            idx = ', '.join(vs)
            sidx = ', '.join(_shift(v, sd.lb - d.lb) for v, d, sd in zip(vs, a.dims, src.dims))
            return f'{src.name}({sidx}) = {src.name}({sidx}) + {a.name}({idx})'
        return self._loops(a, body)

    def _twin(self, a):
        """a dummy of same type whose dims can host the local (extent >= local extent)"""
        for b in self.arrays:
            if b.intent == 'inout' and b.typ == a.typ and b.rank == a.rank and all(
                    db.base == da.base and db.pad >= da.pad for da, db in zip(a.dims, b.dims)):
                return b
        raise RuntimeError('no twin for local ' + a.name)

    # ---- driver ----------------------------------------------------------------------------------------
    def driver(self):
        fl = self.flags
        L = ['program main', f'  use iso_fortran_env, only: {RK}']
        if fl.get('derived_dims'):
            L.append('  use dmod, only: dims_t')
        L.append('  implicit none')
        L.append('  integer :: n, m, ks, ke, seed, si, q')
        L.append(f'  real(kind={RK}) :: sr')
        if fl.get('derived_dims'):
            L.append('  type(dims_t) :: dd')
        dummies = [a for a in self.arrays if a.intent]
        for a in dummies:
            L.append(f"  {a.type_text()}, allocatable :: {a.name}({', '.join(':' * a.rank)})")
        L.append('  read(*,*) n, m, ks, ke, seed')
        if fl.get('derived_dims'):
            L.append('  dd%nl = n')
            L.append('  dd%ml = m')
        L.append('  si = seed')
        L.append(f'  sr = real(seed, {RK}) * 0.5_{RK}')
        for q, a in enumerate(dummies):
            L.append(f"  allocate({a.name}({', '.join(d.lb.__str__() + ':' + d.ub_text() for d in a.dims)}))")
            L.append(f"  call fill_{a.typ}({a.name}, size({a.name}), seed + {3 * q + 1})")
        L.append(f"  call kern({', '.join(self.args)})")
        L.append("  print '(a,1x,i0,1x,es23.15)', 'scal', si, sr")
        for a in dummies:
            if a.typ == 'int':
                L.append(f"  print '(a,*(1x,i0))', '{a.name}', {a.name}")
            elif a.typ == 'real':
                L.append(f"  print '(a,*(1x,es23.15))', '{a.name}', {a.name}")
        L.append('contains')
        L.append('  subroutine fill_int(x, k, sd)')
        L.append('    integer, intent(in) :: k, sd')
        L.append('    integer, intent(out) :: x(k)')
        L.append('    integer :: q')
        L.append('    do q = 1, k')
        L.append('      x(q) = mod(q*q*3 + 7*q + sd*5, 23) - 11')
        L.append('    end do')
        L.append('  end subroutine fill_int')
        L.append('  subroutine fill_real(x, k, sd)')
        L.append('    integer, intent(in) :: k, sd')
        L.append(f'    real(kind={RK}), intent(out) :: x(k)')
        L.append('    integer :: q')
        L.append('    do q = 1, k')
        L.append(f'      x(q) = real(mod(q*q*5 + 11*q + sd*3, 31) - 15, {RK}) * 0.25_{RK}')
        L.append('    end do')
        L.append('  end subroutine fill_real')
        L.append('  subroutine fill_log(x, k, sd)')
        L.append('    integer, intent(in) :: k, sd')
        L.append('    logical, intent(out) :: x(k)')
        L.append('    integer :: q')
        L.append('    do q = 1, k')
        L.append('      x(q) = mod(q*q + q + sd, 3) /= 0')
        L.append('    end do')
        L.append('  end subroutine fill_log')
        L.append('end program main')
        return '\n'.join(L) + '\n'


HELPER_MOD = f"""module hmod
  use iso_fortran_env, only: {RK}
  implicit none
contains
  subroutine hexp(k, x, w)
    integer, intent(in) :: k
    real(kind={RK}), intent(inout) :: x(k)
    real(kind={RK}), intent(in) :: w
    integer :: q
    do q = 1, k
      x(q) = x(q) + w * real(q*q, {RK})
    end do
  end subroutine hexp
  subroutine hass(x, y)
    real(kind={RK}), intent(inout) :: x(:)
    real(kind={RK}), intent(in) :: y(:)
    integer :: q
    do q = 1, size(x)
      x(q) = x(q) * 0.5_{RK} + y(q) * real(q, {RK}) + real(lbound(x, 1), {RK})
    end do
  end subroutine hass
  subroutine hass2(np, nq, x)
    integer, intent(in) :: np, nq
    integer, intent(inout) :: x(np, nq)
    integer :: p, q
    do q = 1, nq
      do p = 1, np
        x(p, q) = x(p, q) + p * p - 2 * q
      end do
    end do
  end subroutine hass2
end module hmod
"""

DMOD = """module dmod
  implicit none
  type dims_t
    integer :: nl, ml
  end type dims_t
end module dmod
"""


class ArrGen:

    def __init__(self, rng, flags):
        self.rng = rng
        self.fl = dict(flags)
        self.arrays = []
        self.stmts = []
        self.loops_ranges = set()      # textual ranges of explicit loops in the routine
        self.features = set()

    # ---- variables -------------------------------------------------------------------------------------
    def _lb(self):
        if not self.fl.get('lbounds', True):
            return 1
        return self.rng.choice([1, 1, 0, -1, 2, 3])

    def setup_arrays(self):
        r, fl = self.rng, self.fl
        A = self.arrays
        def dim(base, lb=None, pad=None):
            if base == 'c':
                return Dim(1 if lb is None else lb, 'c', 3 if pad is None else pad)
            return Dim(self._lb() if lb is None else lb, base, r.choice([0, 0, 1, 2]) if pad is None else pad)
        # twins first (they host locals): pad 2, so that every local fits
        A.append(Arr('ia', 'int', [dim('n', pad=2)]))
        A.append(Arr('ra', 'real', [dim('n', pad=2)]))
        A.append(Arr('rc', 'real', [dim('n', pad=2), dim('m', pad=2)]))
        A.append(Arr('ib', 'int', [dim('n')]))
        A.append(Arr('rb', 'real', [dim('n')]))
        A.append(Arr('rf', 'real', [dim('n')]))
        A.append(Arr('ic', 'int', [dim('n'), dim('m')]))
        A.append(Arr('re', 'real', [dim('n'), dim('m')]))
        if fl.get('rank3', True):
            A.append(Arr('rd', 'real', [dim('n'), dim('m'), dim('c', lb=r.choice([1, 1, 0, 2]) if fl.get('lbounds', True) else 1)]))
            A.append(Arr('id', 'int', [dim('n', pad=0), dim('c'), dim('m', pad=0)]))
        A.append(Arr('mk', 'log', [Dim(1, 'n', 0)], intent='in'))
        if fl.get('locals', True):
            A.append(Arr('it', 'int', [dim('n')], intent=None))
            A.append(Arr('rt', 'real', [dim('n')], intent=None))
            A.append(Arr('rl', 'real', [dim('n'), dim('m')], intent=None))
        if fl.get('explicit_one', True):
            for a in A:
                a.explicit_one = r.random() < 0.3
        # arrays whose horizontal dimension is NOT the first one: layouts (m, n) and (c, n).  They are used by
        # stmt_vecdim_late only (and declared / filled / printed only when such a statement was generated)
        ext1 = (lambda: Dim(1, 'm', 0))
        hz = (lambda: Dim(1, 'n', r.choice([0, 1, 2])))
        self.vd_arrays = [Arr('vm1', 'real', [ext1(), hz()]), Arr('vm2', 'real', [ext1(), hz()]),
                          Arr('vm3', 'real', [ext1(), hz()]), Arr('wm1', 'int', [ext1(), hz()]),
                          Arr('wm2', 'int', [ext1(), hz()]), Arr('wm3', 'int', [ext1(), hz()]),
                          Arr('vc1', 'real', [Dim(1, 'c', 3), hz()]), Arr('vc2', 'real', [Dim(1, 'c', 3), hz()]),
                          Arr('vc3', 'real', [Dim(1, 'c', 3), hz()])]
        self.vd_used = []
        if fl.get('explicit_one', True):
            for a in self.vd_arrays:
                a.explicit_one = r.random() < 0.3
        if fl.get('derived_dims'):
            # locals whose shape is given by derived-type members
            self.dd_arrays = [Arr('rq', 'real', [Dim(1, 'n', 0)], intent=None), Arr('iq', 'int', [Dim(1, 'n', 0)], intent=None)]

    def writable(self, typ=None, minrank=1):
        return [a for a in self.arrays if a.typ != 'log' and a.rank >= minrank and (typ is None or a.typ == typ)]

    # ---- subscripts ------------------------------------------------------------------------------------
    def elem_sub(self, d, loopvar=None):
        """constant (or loop-variable) element subscript inside dim d; returns (text, const or None)"""
        if loopvar and d.base == loopvar[1] and self.rng.random() < 0.8:
            v = loopvar[0]
            sh = d.lb - 1
            return (v if sh == 0 else (f'{v}+{sh}' if sh > 0 else f'{v}-{-sh}')), None
        c = self.rng.randint(d.lb, d.lb + d.minext - 1)
        return str(c), c

    def range_sub(self, d, ln, stride, off, form='explicit'):
        """section of dim d: ln=(base, delta) positions spanned, starting at lb+off"""
        base, delta = ln
        lo = aff(None, d.lb + off)
        hi = aff(base if base != 'c' else None, d.lb + off + delta - 1)
        full = off == 0 and ((base == d.base and delta == d.pad) and base != 'c' or
                             (base == 'c' and d.base == 'c' and delta == d.pad))
        if form == 'colon' and full and stride == 1:
            return ':'
        if form == 'halfopen' and stride == 1:
            if off == 0:
                return f':{hi}'
            if (base == d.base and off + delta == d.pad and base != 'c') or (base == 'c' and d.base == 'c' and off + delta == d.pad):
                return f'{lo}:'
        if stride == 1:
            return f'{lo}:{hi}'
        if stride > 1:
            return f'{lo}:{hi}:{stride}'
        return f'{hi}:{lo}:{stride}'

    def hosts(self, d, ln):
        base, delta = ln
        if base == 'c':
            return delta <= d.minext
        return d.base == base and delta <= d.pad

    def max_off(self, d, ln):
        base, delta = ln
        if base == 'c':
            return d.minext - delta
        return d.pad - delta

    def place(self, arr, lens):
        """choose increasing dim positions of arr hosting lens in order; None if impossible"""
        def rec(pos, k):
            if k == len(lens):
                return [[]]
            out = []
            for p in range(pos, arr.rank):
                if self.hosts(arr.dims[p], lens[k]):
                    for rest in rec(p + 1, k + 1):
                        out.append([p] + rest)
            return out
        opts = rec(0, 0)
        return self.rng.choice(opts) if opts else None

    def operand(self, arr, lens, strides, loopvar=None, offs=None, form='explicit', elems=None):
        """text of arr sectioned to conform with lens; returns (text, info) or None"""
        pos = self.place(arr, lens)
        if pos is None:
            return None
        subs, info = [], {'arr': arr.name, 'offs': [], 'elems': {}, 'pos': pos, 'strided_shifted': False,
                          'colon_shifted': False}
        k = 0
        for p, d in enumerate(arr.dims):
            if k < len(pos) and pos[k] == p:
                mo = self.max_off(d, lens[k])
                off = offs[k] if offs and offs[k] is not None else self.rng.randint(0, mo)
                off = max(0, min(off, mo))
                t = self.range_sub(d, lens[k], strides[k], off, form)
                subs.append(t)
                info['offs'].append(off + d.lb)      # absolute start (in iteration direction handled by caller)
                if d.lb != 1 and strides[k] != 1:
                    info['strided_shifted'] = True
                if d.lb != 1 and (t == ':' or t.startswith(':') or t.endswith(':')):
                    info['colon_shifted'] = True
                k += 1
            else:
                if elems and p in elems:
                    t, c = elems[p]
                else:
                    t, c = self.elem_sub(d, loopvar)
                subs.append(t)
                info['elems'][p] = (t, c)
        info['text'] = f"{arr.name}({', '.join(subs)})"
        return info['text'], info

    def lens_for(self, arr, rank):
        """choose `rank` dims of arr to be ranges and a span for each"""
        r = self.rng
        pos = sorted(r.sample(range(arr.rank), rank))
        lens = []
        for p in pos:
            d = arr.dims[p]
            if d.base == 'c':
                lens.append(('c', r.randint(2, d.pad)))
            elif r.random() < 0.15:
                lens.append(('c', r.randint(2, 4)))
            else:
                lens.append((d.base, r.randint(max(-2, d.pad - 3), d.pad)))
        return pos, lens

    def lit(self, typ):
        if typ == 'int':
            return str(self.rng.choice([1, 2, 3, 5, 7]))
        return self.rng.choice(['0.5', '1.5', '2.0', '0.25', '3.0']) + f'_{RK}'

    def scal(self, typ):
        return 'si' if typ == 'int' else 'sr'

    def combine(self, typ, ops):
        """combine operand texts with + - and * literal"""
        r = self.rng
        e = ops[0]
        if r.random() < 0.4:
            e = f'{e} * {self.lit(typ)}' if typ == 'real' else f"{e} * {r.choice(['2', '(-1)', '3'])}"
        for o in ops[1:]:
            e = f"{e} {r.choice(['+', '-'])} {o}"
        if r.random() < 0.5:
            e = f"{e} {r.choice(['+', '-'])} {self.lit(typ)}"
        return e

    # ---- statements ------------------------------------------------------------------------------------
    def stmt_assign(self, loopvar=None, hostile=None, ks_ke=False):
        """plain section assignment; `hostile` selects a deliberately hazardous variant"""
        r, fl = self.rng, self.fl
        typ = r.choice(['int', 'real', 'real'])
        rank = r.choice([1, 1, 1, 2, 2, 3]) if fl.get('rank3', True) else r.choice([1, 1, 2])
        cands = self.writable(typ, rank)
        if not cands:
            return None
        lhs = r.choice(cands)
        pos, lens = self.lens_for(lhs, rank)
        tags = {f'rank{rank}', f'lhs-{typ}'}
        # strides: same for every operand in a position
        strides = []
        for _ in lens:
            s = 1
            if fl.get('strides', True) and r.random() < 0.3:
                s = r.choice([2, 2, 3])
            if fl.get('neg_strides', True) and r.random() < 0.2:
                s = -s
            strides.append(s)
        if hostile in ('halfopen', 'where_no_loop', 'where_shifted', 'overlap_fwd', 'overlap_elem'):
            strides = [1 if hostile in ('halfopen', 'overlap_elem') else s for s in strides]
        form = 'explicit'
        if fl.get('implicit_forms', True) and r.random() < 0.35:
            form = 'colon'
        if hostile == 'halfopen':
            form = 'halfopen'
        # lhs subscripts: ranges at `pos`
        lhs_lens_by_pos = dict(zip(pos, range(len(pos))))
        subs, lhs_offs, lhs_elems = [], [], {}
        shifted_strided = colon_shifted = False
        for p, d in enumerate(lhs.dims):
            if p in lhs_lens_by_pos:
                k = lhs_lens_by_pos[p]
                off = r.randint(0, self.max_off(d, lens[k]))
                t = self.range_sub(d, lens[k], strides[k], off, form)
                subs.append(t)
                lhs_offs.append(off + d.lb)
                if d.lb != 1 and strides[k] != 1:
                    shifted_strided = True
                if d.lb != 1 and (t == ':' or t.startswith(':') or t.endswith(':')):
                    colon_shifted = True
            else:
                t, c = self.elem_sub(d, loopvar)
                subs.append(t)
                lhs_elems[p] = (t, c)
        lhs_text = f"{lhs.name}({', '.join(subs)})"
        bare_ok = (form == 'colon' and all(s == ':' for s in subs))
        if bare_ok and r.random() < 0.5 and not fl.get('no_bare_lhs'):
            lhs_text = lhs.name
            tags.add('bare-lhs')
        # rhs operands
        ops, infos = [], []
        nops = r.choice([1, 1, 2, 2, 3])
        hazard = None
        for q in range(nops):
            kind = r.random()
            if kind < 0.15:
                ops.append(self.lit(typ)); tags.add('scalar-broadcast'); continue
            if kind < 0.25:
                ops.append(self.scal(typ)); tags.add('scalar-broadcast'); continue
            if kind < 0.33:
                # element of another array (never the lhs array here)
                oth = r.choice([a for a in self.writable(typ) if a is not lhs])
                es = ', '.join(self.elem_sub(d, loopvar)[0] for d in oth.dims)
                ops.append(f'{oth.name}({es})'); tags.add('element-broadcast'); continue
            same = (q == 0 and hostile in ('overlap_fwd',)) or (hostile is None and r.random() < 0.2 and fl.get('overlap', True))
            if same:
                arr = lhs
            else:
                oc = [a for a in self.writable(typ) if a is not lhs]
                r.shuffle(oc)
                arr = next((a for a in oc if self.place(a, lens) is not None), None)
                if arr is None:
                    continue
            ost = list(strides)
            offs = None
            elems = None
            oform = form
            if hostile == 'stride_mismatch' and q == 0:
                # different stride on the rhs: lhs must then span fewer positions; use constant spans
                return self._stmt_stride_mismatch(typ, loopvar)
            if arr is lhs:
                # same positions as lhs; offsets chosen to be safe (or hazardous on request)
                want_hazard = hostile == 'overlap_fwd' and q == 0
                res = self._overlap_operand(lhs, pos, lens, strides, lhs_offs, lhs_elems, want_hazard, loopvar, oform)
                if res is None:
                    continue
                t, hz = res
                if hz and not want_hazard:
                    continue
                if hz:
                    hazard = 'overlap_fwd'
                ops.append(t)
                tags.add('overlap-' + ('hazard' if hz else 'safe'))
                continue
            res = self.operand(arr, lens, ost, loopvar, offs, oform, elems)
            if res is None:
                continue
            t, info = res
            if oform == 'colon' and arr.rank == len(lens) and all(x == ':' for x in t[len(arr.name) + 1:-1].split(', ')) \
                    and r.random() < 0.5:
                t = arr.name
                tags.add('bare-rhs')
            if info['strided_shifted']:
                shifted_strided = True
            if info['colon_shifted']:
                colon_shifted = True
            if any(d.lb != 1 for d in arr.dims):
                tags.add('rhs-lb-ne-1')
            ops.append(t)
            infos.append(info)
        if hostile == 'overlap_elem':
            # element of the lhs array that is overwritten before the last read
            es = []
            for p, d in enumerate(lhs.dims):
                if p in lhs_lens_by_pos:
                    k = lhs_lens_by_pos[p]
                    es.append(str(lhs_offs[k]))      # first element of the section (stride > 0 here)
                else:
                    es.append(lhs_elems[p][0])
            ops.insert(0, f"{lhs.name}({', '.join(es)})")
            hazard = 'overlap_elem'
        if not ops:
            ops.append(self.lit(typ))
        if hostile == 'overlap_fwd' and hazard != 'overlap_fwd':
            return None
        if any(s != 1 for s in strides):
            tags.add('strided')
        if any(s < 0 for s in strides):
            tags.add('neg-stride')
        if any(d.lb != 1 for d in lhs.dims):
            tags.add('lhs-lb-ne-1')
        if form == 'colon':
            tags.add('colon-form')
        if form == 'halfopen':
            tags.add('halfopen')
        if shifted_strided:
            tags.add('strided-on-shifted-array')
        if colon_shifted:
            tags.add('colon-on-shifted-array')
        st = Stmt([f'{lhs_text} = {self.combine(typ, ops)}'], tags, hazard or hostile)
        st.meta = {'lhs': lhs.name, 'shifted_strided': shifted_strided, 'colon_shifted': colon_shifted}
        return st

    def _overlap_operand(self, lhs, pos, lens, strides, lhs_offs, lhs_elems, want_hazard, loopvar, form):
        """the lhs array on the rhs: choose offsets; report whether an ascending-order loop nest (innermost =
        first range, each loop in the section's own direction) would read an element it has already written"""
        r = self.rng
        offs_abs, subs = [], []
        k = 0
        disjoint = False
        deltas = []
        for p, d in enumerate(lhs.dims):
            if k < len(pos) and pos[k] == p:
                mo = self.max_off(d, lens[k])
                lo_off = lhs_offs[k] - d.lb
                cand = [o for o in range(0, mo + 1) if abs(o - lo_off) <= 2]
                off = r.choice(cand)
                subs.append(self.range_sub(d, lens[k], strides[k], off, form))
                # delta in iteration direction (positive stride iterates upwards)
                dl = (off - lo_off) * (1 if strides[k] > 0 else -1)
                if abs(strides[k]) > 1 and (off - lo_off) % abs(strides[k]) != 0:
                    disjoint = True          # interleaved, never the same element
                deltas.append(dl)
                k += 1
            else:
                if r.random() < 0.5:
                    subs.append(lhs_elems[p][0])
                else:
                    t, c = self.elem_sub(d, None)
                    subs.append(t)
                    if c is not None and lhs_elems[p][1] is not None and c != lhs_elems[p][1]:
                        disjoint = True
                    elif t != lhs_elems[p][0]:
                        return None           # cannot decide (loop variable vs constant): skip
        hazard = False
        if not disjoint:
            for dl in reversed(deltas):       # outermost loop = last range
                if dl > 0:
                    break
                if dl < 0:
                    hazard = True
                    break
        if want_hazard and not hazard:
            return None
        return f"{lhs.name}({', '.join(subs)})", hazard

    def _stmt_stride_mismatch(self, typ, loopvar):
        r = self.rng
        c1 = [a for a in self.writable(typ) if a.rank == 1]
        if len(c1) < 2:
            return None
        a, b = r.sample(c1, 2)
        la, lb = a.dims[0].lb, b.dims[0].lb
        v = r.choice(['fwd2', 'rev', 'lhs2'])
        if v == 'fwd2':      # 3 elements, rhs stride 2
            txt = f'{a.name}({la}:{la + 2}) = {b.name}({lb}:{lb + 4}:2)'
        elif v == 'rev':     # rhs reversed
            txt = f'{a.name}({la}:{la + 3}) = {b.name}({lb + 3}:{lb}:-1)'
        else:
            txt = f'{a.name}({la}:{la + 4}:2) = {b.name}({lb + 1}:{lb + 3})'
        return Stmt([txt], {'stride-mismatch', 'rank1'}, 'stride_mismatch')

    def stmt_where(self, hostile=None):
        """masked assignment; non-hostile forms have a preceding loop with the very same bounds as the section
        of mask and left-hand side, so that Loki finds one index variable for mask and body"""
        r = self.rng
        typ = r.choice(['int', 'real'])
        c1 = [a for a in self.writable(typ) if a.rank == 1]
        if len(c1) < 2:
            return None
        a, b = r.sample(c1, 2)
        la, lb = a.dims[0].lb, b.dims[0].lb
        zero = '0' if typ == 'int' else f'0.0_{RK}'

        def sec(arr_lb, shift=0, short=0):
            return f'{arr_lb + shift}:{aff("n", arr_lb - 1 + shift - short)}'
        if hostile == 'where_shifted':
            # mask section and body section differ
            lines = [f'where (mk(1:n-1)) {a.name}({sec(la, 1, 1)}) = {b.name}({sec(lb, 0, 1)}) + {self.lit(typ)}']
            return Stmt(lines, {'where', 'where-shifted'}, 'where_shifted', pre=self._where_pre('1', 'n-1'))
        short = 1 if hostile == 'where_no_loop' else 0      # a range no other loop of the routine has
        ar, br = f'{a.name}({sec(la, 0, short)})', f'{b.name}({sec(lb, 0, short)})'
        pre = self._where_pre(str(la), aff('n', la - 1))
        if hostile == 'where_multi':
            lines = [f'where ({ar} > {zero})',
                     f'  {ar} = {br} + {self.lit(typ)}',
                     f'elsewhere ({ar} < {zero})',
                     f'  {ar} = {self.lit(typ)}',
                     'end where']
            return Stmt(lines, {'where', 'where-masked-elsewhere'}, 'where_multi', pre=pre)
        tags = {'where'}
        bare = la == 1 and a.dims[0].pad == 0 and lb == 1 and b.dims[0].pad == 0 and r.random() < 0.4 \
            and self.fl.get('implicit_forms', True) and not short
        if bare:
            ar, br = a.name, b.name
            tags.add('where-bare-arrays')
        use_mk = la == 1 and self.fl.get('logical_mask', True) and r.random() < 0.35
        mask = ('mk' if bare else ('mk(1:n-1)' if short else 'mk(1:n)')) if use_mk else f'{ar} > {zero}'
        body = f'{ar} = {br} - {ar}' if r.random() < 0.5 else f'{ar} = {br} * {r.choice([2, 3])}'
        form = r.choice(['stmt', 'construct', 'elsewhere'])
        if form == 'stmt':
            lines = [f'where ({mask}) {body}']
        elif form == 'construct':
            lines = [f'where ({mask})', f'  {body}', 'end where']
        else:
            lines = [f'where ({mask})', f'  {body}', 'elsewhere', f'  {ar} = {ar} + {self.lit(typ)}', 'end where']
            tags.add('where-elsewhere')
        if la != 1:
            tags.add('where-lb-ne-1')
        if hostile == 'where_no_loop':
            return Stmt(lines, tags | {'where-no-matching-loop'}, 'where_no_loop')
        return Stmt(lines, tags | {'where-with-matching-loop'}, None, pre=pre)

    def _where_pre(self, lo, hi):
        return [f'do i = {lo}, {hi}', '  si = si + i * i', 'end do']

    def stmt_loop_elem(self):
        """explicit loop nest with element accesses (index arithmetic for normalise/flatten/shift/invert)"""
        r = self.rng
        typ = r.choice(['int', 'real'])
        rank = r.choice([1, 2, 2, 3]) if self.fl.get('rank3', True) else r.choice([1, 2])
        c = [a for a in self.writable(typ) if a.rank == rank]
        if not c:
            return None
        a = r.choice(c)
        vs = ['i', 'j', 'k'][:rank]
        # loop over interior 2..ext-1 (relative), so that +-1 neighbours are in bounds
        head, idx = [], []
        for v, d in zip(vs, a.dims):
            lo = aff(None, d.lb + 1)
            hi = aff(d.base if d.base != 'c' else None, d.lb + d.pad - 2)
            head.append((v, lo, hi, d))
            idx.append(v)
        def ref(arr, shifts):
            ss = []
            for (v, lo, hi, d), od, sh in zip(head, arr.dims, shifts):
                tot = sh + (od.lb - d.lb)
                ss.append(v if tot == 0 else (f'{v}+{tot}' if tot > 0 else f'{v}-{-tot}'))
            return f"{arr.name}({', '.join(ss)})"
        others = [b for b in self.writable(typ) if b.rank == rank and b is not a and all(
            ob.base == d.base and ob.pad >= d.pad for ob, d in zip(b.dims, a.dims))]
        terms = [ref(a, [0] * rank)]
        for b in r.sample(others, min(len(others), r.choice([1, 2]))):
            terms.append(ref(b, [r.choice([-1, 0, 1]) for _ in range(rank)]))
        # safe self-reference: read a at an element not yet written (ahead in the innermost loop)
        if r.random() < 0.4:
            terms.append(ref(a, [1] + [0] * (rank - 1)))
        rhs = self.combine(typ, terms)
        lines, ind = [], ''
        order = list(reversed(head))
        desc = r.random() < 0.25
        for q, (v, lo, hi, d) in enumerate(order):
            if desc and q == len(order) - 1 and len(terms) < 4 - 0:
                lines.append(f'{ind}do {v} = {lo}, {hi}')
            else:
                lines.append(f'{ind}do {v} = {lo}, {hi}')
            self.loops_ranges.add(f'{lo}:{hi}')
            ind += '  '
        lines.append(f'{ind}{ref(a, [0] * rank)} = {rhs}')
        for _ in order:
            ind = ind[:-2]
            lines.append(f'{ind}end do')
        tags = {'element-loop', f'element-loop-rank{rank}'}
        if any(d.lb != 1 for d in a.dims):
            tags.add('element-loop-lb-ne-1')
        return Stmt(lines, tags, None)

    def stmt_in_loop(self, hostile=None):
        """section assignment nested in a loop over the m-dimension (jj = 1, m); sections never use a range
        equal to the enclosing loop's bounds, except in the hostile variant"""
        if hostile == 'section_in_same_range_loop':
            r = self.rng
            c2 = [a for a in self.writable('real') if a.rank == 2 and a.dims[0].lb == 1 and a.dims[1].lb == 1]
            if not c2:
                return None
            a = r.choice(c2)
            lines = ['do jj = 3, n', f'  {a.name}(3:n, 1) = {a.name}(3:n, 1) + {a.name}(jj, 2)', 'end do']
            return Stmt(lines, {'section-in-loop-same-range'}, hostile)
        for _ in range(8):
            st = self.stmt_assign(loopvar=('jj', 'm'))
            if st is None or 'jj' not in st.lines[0]:
                continue
            txt = st.lines[0]
            if '1:m' in txt.replace(' ', '') and ('(1:m' in txt or ',1:m' in txt.replace(' ', '')):
                continue
            # bare / ':' on an m-dim would derive the range 1:m (or lb:..) == loop bounds only if lb==1,pad==0;
            # avoid every colon form inside loops
            if ':,' in txt.replace(' ', '') or ',:' in txt.replace(' ', '') or '(:)' in txt or 'bare-lhs' in st.tags \
                    or 'bare-rhs' in st.tags:
                continue
            lines = ['do jj = 1, m', '  ' + txt, 'end do']
            st.lines = lines
            st.tags.add('section-in-loop')
            return st
        return None

    def stmt_call(self, hostile=None):
        """sections as call arguments"""
        r = self.rng
        c1 = [a for a in self.writable('real') if a.rank == 1]
        c2 = [a for a in self.writable('real') if a.rank == 2]
        kinds = ['exp-contig', 'exp-elem', 'ass', 'ass-strided', 'ass2-colon', 'whole']
        if hostile == 'section_call_arg':
            kinds = ['ass2-part', 'ass-col', 'exp-col']
        v = r.choice(kinds)
        tags = {'call', 'call-' + v}
        if v == 'exp-contig':
            a = r.choice(c1); d = a.dims[0]
            txt = f'call hexp(n-1, {a.name}({d.lb + 1}:{aff("n", d.lb - 1)}), sr)'
        elif v == 'exp-elem':
            a = r.choice(c2); d0, d1 = a.dims
            txt = f'call hexp(n, {a.name}({d0.lb}, {d1.lb + 1}), 0.5_{RK})'
        elif v == 'exp-col':
            a = r.choice(c2); d0, d1 = a.dims
            txt = f'call hexp(n, {a.name}({d0.lb}:{aff("n", d0.lb - 1)}, {d1.lb + 2}), 0.5_{RK})'
        elif v == 'ass':
            a, b = r.sample(c1, 2)
            txt = f'call hass({a.name}({a.dims[0].lb + 1}:{aff("n", a.dims[0].lb - 1)}), {b.name}({b.dims[0].lb}:{aff("n", b.dims[0].lb - 2)}))'
        elif v == 'ass-col':
            a = r.choice(c1); b = r.choice(c2)
            txt = f'call hass({a.name}({a.dims[0].lb + 1}:{aff("n", a.dims[0].lb - 1)}), {b.name}({b.dims[0].lb}:{aff("n", b.dims[0].lb - 2)}, {b.dims[1].lb + 1}))'
        elif v == 'ass-strided':
            a, b = r.sample(c1, 2)
            la = a.dims[0].lb
            txt = f'call hass({a.name}({la}:{aff("n", la - 1)}:2), {b.name}({b.dims[0].lb}:{aff("n", b.dims[0].lb - 1)}))'
            tags.add('strided')
            if la != 1:
                tags.add('strided-on-shifted-array')
        elif v == 'ass2-colon':
            ci = [a for a in self.writable('int') if a.rank == 2]
            a = r.choice(ci)
            if self.fl.get('implicit_forms', True) and r.random() < 0.7:
                txt = f'call hass2({a.dims[0].ext_text()}, {a.dims[1].ext_text()}, {a.name}(:, :))'
                tags.add('colon-form')
                if any(d.lb != 1 for d in a.dims):
                    tags.add('colon-on-shifted-array')
            else:
                txt = f'call hass2({a.dims[0].ext_text()}, {a.dims[1].ext_text()}, {a.name})'
        elif v == 'ass2-part':
            ci = [a for a in self.writable('int') if a.rank == 2]
            a = r.choice(ci)
            txt = f'call hass2(n-1, m-1, {a.name}({a.dims[0].lb + 1}:{aff("n", a.dims[0].lb - 1)}, {a.dims[1].lb}:{aff("m", a.dims[1].lb - 2)}))'
        else:
            a, b = r.sample(c1, 2)
            txt = f'call hass({a.name}, {b.name})' if a.dims[0].pad <= b.dims[0].pad else f'call hass({b.name}, {a.name})'
        st = Stmt([txt], tags, 'section_call_arg' if hostile == 'section_call_arg' else None)
        return st

    def stmt_whole(self):
        """whole-array forms: bare names and ':' on both sides, operands with different lower bounds"""
        r = self.rng
        typ = r.choice(['int', 'real', 'real'])
        cands = self.writable(typ)
        lhs = r.choice(cands)
        tags = {'whole-array', f'rank{lhs.rank}'}

        def form(arr, allow_bare=True):
            """bare name or all-':' reference; tags colon on shifted dims"""
            shifted = any(d.lb != 1 for d in arr.dims)
            opts = ['colon']
            if allow_bare:
                opts += ['bare', 'bare']
            f = r.choice(opts)
            if f == 'colon' and shifted and not self.fl.get('allow_colon_shifted'):
                f = 'bare' if allow_bare else 'explicit'
            if f == 'bare':
                tags.add('bare-array')
                if shifted:
                    tags.add('bare-array-lb-ne-1')
                return arr.name
            if f == 'colon':
                tags.add('colon-form')
                if shifted:
                    tags.add('colon-on-shifted-array')
                return f"{arr.name}({', '.join(':' * arr.rank)})"
            return f"{arr.name}({', '.join(f'{d.lb}:{d.ub_text()}' for d in arr.dims)})"
        lt = form(lhs, allow_bare=not self.fl.get('no_bare_lhs'))
        ops = []
        for b in r.sample(cands, len(cands)):
            if len(ops) >= 2 or b.rank != lhs.rank:
                continue
            if not all(db.base == dl.base for db, dl in zip(b.dims, lhs.dims)):
                continue
            if all(db.pad == dl.pad for db, dl in zip(b.dims, lhs.dims)):
                if b is lhs and r.random() < 0.5:
                    continue
                ops.append(form(b))
                if any(db.lb != dl.lb for db, dl in zip(b.dims, lhs.dims)):
                    tags.add('implicit-range-rhs-different-lower-bound')
            elif all(db.pad >= dl.pad for db, dl in zip(b.dims, lhs.dims)) and b is not lhs:
                # explicit section of the lhs extent out of a larger array
                subs = []
                for db, dl in zip(b.dims, lhs.dims):
                    off = r.randint(0, db.pad - dl.pad)
                    base = dl.base if dl.base != 'c' else None
                    subs.append(f'{db.lb + off}:{aff(base, db.lb + off + dl.pad - 1)}')
                ops.append(f"{b.name}({', '.join(subs)})")
                tags.add('implicit-range-lhs-explicit-rhs')
        if not ops or r.random() < 0.3:
            ops.append(self.lit(typ) if r.random() < 0.5 else self.scal(typ))
            tags.add('scalar-broadcast')
        if any(d.lb != 1 for d in lhs.dims):
            tags.add('lhs-lb-ne-1')
        return Stmt([f'{lt} = {self.combine(typ, ops)}'], tags, None)

    def stmt_reduction(self):
        r = self.rng
        typ = r.choice(['int', 'real'])
        a = r.choice([x for x in self.writable(typ) if x.rank == 1])
        d = a.dims[0]
        sec = f'{a.name}({d.lb + 1}:{aff("n", d.lb - 1)})'
        s = self.scal(typ)
        v = r.choice(['scalar', 'array'])
        if v == 'scalar':
            f = r.choice(['sum', 'maxval', 'minval'])
            return Stmt([f'{s} = {s} + {f}({sec})' if typ == 'int' else f'{s} = {s} * 0.5_{RK} + {f}({sec})'],
                        {'reduction-scalar-lhs'}, None)
        b = r.choice([x for x in self.writable(typ) if x.rank == 1 and x is not a])
        db = b.dims[0]
        f = r.choice(['sum', 'maxval', 'minval'])
        bs = f'{b.name}({db.lb}:{aff("n", db.lb - 1)})'
        return Stmt([f'{bs} = {bs} + {f}({sec})'], {'reduction-in-array-stmt'}, None)

    def stmt_transformational(self):
        r = self.rng
        a, b = r.sample([x for x in self.writable('real') if x.rank == 1], 2)
        da, db = a.dims[0], b.dims[0]
        sa = f'{a.name}({da.lb}:{aff("n", da.lb - 1)})'
        sb = f'{b.name}({db.lb}:{aff("n", db.lb - 1)})'
        v = r.choice(['dot_product', 'size', 'cshift'])
        if v == 'dot_product':
            txt = f'{sa} = {sa} + dot_product({sb}, {sb}) * 0.125_{RK}'
        elif v == 'size':
            txt = f'{sa} = {sa} + real(size({sb}), {RK})'
        else:
            txt = f'{sa} = cshift({sb}, 1)'
        return Stmt([txt], {'transformational-' + v}, 'transformational_intrinsic')

    def stmt_vecdim(self):
        """sections over the 'horizontal' dimension ks:ke (for resolve_vector_dimension)"""
        r = self.rng
        typ = r.choice(['int', 'real'])
        c = [a for a in self.writable(typ) if a.dims[0].base == 'n' and a.dims[0].lb <= 1
             and a.dims[0].lb + a.dims[0].pad >= 1]
        if len(c) < 2:
            return None
        lhs = r.choice(c)
        def ref(a, rngtxt):
            subs = [rngtxt] + [self.elem_sub(d)[0] for d in a.dims[1:]]
            return f"{a.name}({', '.join(subs)})"
        v = r.choice(['kske', 'kske', '1ke', 'ksn', 'shift'])
        if v == 'kske':
            lt, rt = 'ks:ke', 'ks:ke'
        elif v == '1ke':
            lt, rt = '1:ke', '1:ke'
        elif v == 'ksn':
            lt, rt = 'ks:n', 'ks:n'
        else:
            lt, rt = 'ks:ke', None
        ops = []
        for b in r.sample([x for x in c if x is not lhs], min(2, len(c) - 1)):
            if rt is None:
                # shifted by one to the right if the array has room (pad >= 1), else same
                ops.append(ref(b, 'ks+1:ke+1') if b.dims[0].lb + b.dims[0].pad >= 2 else ref(b, 'ks:ke'))
            else:
                ops.append(ref(b, rt))
        st = Stmt([f'{ref(lhs, lt)} = {self.combine(typ, ops)}'], {'vecdim', 'vecdim-' + v}, None)
        return st

    def stmt_vecdim_late(self):
        """sections over the horizontal dimension ks:ke of arrays laid out (m, n) / (c, n): a range that
        resolve_vector_dimension leaves alone comes BEFORE the horizontal one (t(:, ks:ke) = q(:, ks:ke))"""
        r = self.rng
        grp = r.choice(['vm', 'vm', 'wm', 'vc'])
        c = [a for a in self.vd_arrays if a.name.startswith(grp)]
        typ = c[0].typ
        lhs = r.choice(c)
        ext = 'm' if grp != 'vc' else '3'
        f1 = r.choice(['colon', 'colon', 'full', 'tail', 'strided', 'mixed'])
        first = {'colon': ':', 'full': f'1:{ext}', 'tail': f'2:{ext}', 'strided': f'1:{ext}:2'}.get(f1)

        def ref(a, rngtxt):
            one = first if first is not None else r.choice([':', f'1:{ext}'])
            return f'{a.name}({one}, {rngtxt})'
        v = r.choice(['kske', 'kske', '1ke', 'ksn', 'shift'])
        lt, rt = {'kske': ('ks:ke', 'ks:ke'), '1ke': ('1:ke', '1:ke'), 'ksn': ('ks:n', 'ks:n'), 'shift': ('ks:ke', None)}[v]
        ops = []
        for b in r.sample([x for x in c if x is not lhs], r.choice([1, 2, 2])):
            if rt is None:
                ops.append(ref(b, 'ks+1:ke+1') if b.dims[1].pad >= 1 else ref(b, 'ks:ke'))
            else:
                ops.append(ref(b, rt))
            if b not in self.vd_used:
                self.vd_used.append(b)
        if lhs not in self.vd_used:
            self.vd_used.append(lhs)
        return Stmt([f'{ref(lhs, lt)} = {self.combine(typ, ops)}'],
                    {'vecdim-late', 'vecdim-late-' + v, 'vecdim-late-first-' + f1, 'vecdim-late-layout-' + ('mn' if grp != 'vc' else 'cn')},
                    None)

    def stmt_derived_dims(self):
        """locals shaped by derived-type members (substitute_derived_type_bounds)"""
        r = self.rng
        a = r.choice(['rq', 'iq'])
        src = 'ra' if a == 'rq' else 'ia'
        d = next(x for x in self.arrays if x.name == src).dims[0]
        sec = f'{src}({d.lb}:{aff("n", d.lb - 1)})'
        form = r.choice(['bare', 'colon', 'member'])
        l = {'bare': a, 'colon': f'{a}(:)', 'member': f'{a}(1:dd%nl)'}[form]
        lines = [f'{l} = {sec} * {2 if a == "iq" else "0.5_" + RK}',
                 f'{sec} = {sec} + {l}']
        return Stmt(lines, {'derived-type-bounds', 'derived-' + form}, None)

    # ---- whole case ------------------------------------------------------------------------------------
    def generate(self):
        r, fl = self.rng, self.fl
        self.setup_arrays()
        hostile = fl.get('hostile')
        nst = r.randint(fl.get('min_stmts', 4), fl.get('max_stmts', 8))
        kinds = ['assign'] * 6 + ['loop_elem'] * 2 + ['in_loop'] * 2 + ['whole'] * 3
        if fl.get('where', True):
            kinds += ['where'] * 2
        if fl.get('calls', True):
            kinds += ['call'] * 2
        if fl.get('reductions', True):
            kinds += ['reduction']
        if fl.get('vecdim', True):
            kinds += ['vecdim'] * 2
        if fl.get('vecdim_late', True):
            kinds += ['vecdim_late'] * 2
        if fl.get('derived_dims'):
            kinds += ['derived'] * 2
        stmts = []
        tries = 0
        while len(stmts) < nst and tries < 60:
            tries += 1
            k = r.choice(kinds)
            st = {'assign': self.stmt_assign, 'loop_elem': self.stmt_loop_elem, 'whole': self.stmt_whole, 'in_loop': self.stmt_in_loop,
                  'where': self.stmt_where, 'call': self.stmt_call, 'reduction': self.stmt_reduction,
                  'vecdim': self.stmt_vecdim, 'vecdim_late': self.stmt_vecdim_late,
                  'derived': self.stmt_derived_dims}[k]()
            if st is None:
                continue
            if st.hostile:       # only deliberately requested hostile statements are allowed
                continue
            # features gated by flags
            if 'strided-on-shifted-array' in st.tags and not fl.get('allow_strided_shifted'):
                continue
            if 'colon-on-shifted-array' in st.tags and not fl.get('allow_colon_shifted'):
                continue
            stmts.append(st)
        if hostile:
            hs = None
            for _ in range(30):
                if hostile in ('overlap_fwd', 'overlap_elem', 'halfopen', 'stride_mismatch'):
                    hs = self.stmt_assign(hostile=hostile)
                elif hostile in ('where_no_loop', 'where_shifted', 'where_multi'):
                    hs = self.stmt_where(hostile=hostile)
                elif hostile == 'section_in_same_range_loop':
                    hs = self.stmt_in_loop(hostile=hostile)
                elif hostile == 'transformational_intrinsic':
                    hs = self.stmt_transformational()
                elif hostile == 'section_call_arg':
                    hs = self.stmt_call(hostile=hostile)
                elif hostile == 'neg_stride_py':
                    self.fl['neg_strides'] = True
                    cand = self.stmt_assign()
                    self.fl['neg_strides'] = False
                    if cand is not None and 'neg-stride' in cand.tags and not cand.hostile:
                        cand.hostile = hostile
                        hs = cand
                elif hostile in ('strided_shifted', 'colon_shifted'):
                    self.fl['lbounds'] = True
                    cand = self.stmt_assign() if r.random() < 0.8 or not fl.get('calls', True) else self.stmt_call()
                    want = 'strided-on-shifted-array' if hostile == 'strided_shifted' else 'colon-on-shifted-array'
                    if cand is not None and want in cand.tags and not cand.hostile:
                        cand.hostile = hostile
                        hs = cand
                if hs is not None and hs.hostile:
                    gated = {'strided-on-shifted-array': 'strided_shifted', 'colon-on-shifted-array': 'colon_shifted',
                             'neg-stride': 'neg_stride_py' if fl.get('profile') == 'py' else None}
                    if not any(t in hs.tags and hostile != h for t, h in gated.items()):
                        break
                hs = None
            if hs is not None:
                stmts.insert(r.randint(0, len(stmts)), hs)
        self.stmts = stmts
        for s in stmts:
            self.features |= s.tags
        arrays = list(self.arrays) + [a for a in self.vd_arrays if a in self.vd_used]
        uses, extra, helper = [], [], ''
        if fl.get('calls', True):
            uses.append('use hmod, only: hexp, hass, hass2')
            helper = HELPER_MOD
        if fl.get('derived_dims'):
            uses.append('use dmod, only: dims_t')
            extra.append(f'real(kind={RK}) :: rq(dd%nl)')
            extra.append('integer :: iq(dd%nl)')
        args = ['n', 'm', 'ks', 'ke'] + (['dd'] if fl.get('derived_dims') else []) + ['si', 'sr'] + \
               [a.name for a in arrays if a.intent]
        stdins = []
        for q in range(fl.get('ninputs', 3)):
            n = r.randint(5, 9)
            m = r.randint(4, 6)
            ks = r.randint(1, 2)
            ke = r.randint(n - 2, n - 1)
            stdins.append(f'{n} {m} {ks} {ke} {r.randint(0, 50)}\n')
        return ArrCase(arrays, stmts, dict(self.fl), stdins, helper, uses, extra, args)
