"""C08 -- symbolic simplification preserves expression values (contract on the real ``simplify``)."""
import itertools
import traceback

from vlib import symeval as se
from vlib.core import CaseTimeout
from vlib import symmon

PID = 'C08'
LEVEL = 'exploration'
TECHNIQUE = 'icontract post-condition on simplify + independent Fortran-semantics evaluator (gfortran-validated)'
LEVEL_TEXT = ('every call of the real loki.expression.symbolic.simplify on generated integer / real / mixed / logical '
              'trees, for all 32 subsets of Simplification flags, is checked by a post-condition that evaluates '
              'input and result at >= 8 valuations (non-zero divisors, numerators that are not multiples of '
              'divisors, mixed signs); refutation only: equal values at the sampled valuations is not a proof')
LEVEL_NOTE = ('trusts the Python evaluator in vlib/symeval.py, which is re-validated against one gfortran batch '
              'program on every run (a disagreement makes the run INCONCLUSIVE); reals compared to 1e-9 of the '
              'largest intermediate; valuations with integer overflow or near-tie real comparisons are skipped')
RULE = ('case 0: evaluator validation against gfortran (>= 100 trees x 6 valuations). Other cases: one random typed '
        'tree (sums, products, quotients, powers, unary minus, comparisons, logical operators over 4 integer and 3 '
        'real variables and literals; Parenthesised* node classes in 10 %) simplified with each of the 2^5 flag '
        'subsets through the contracted simplify. 1 case in 8 allows integer quotients anywhere (numerators that are '
        'sums / products / quotients), 1 in 16 adds zero literals, x**0 and real exponents; the others keep '
        'integer quotients as leaf/leaf terms of sums and comparisons. Non-trivial = some flag subset changed the '
        'tree and all 32 results were evaluated at >= 8 valuations; distinct = rendered tree text.')
CASES = {'quick': 3000, 'thorough': 50000}
THOROUGH_VALIDATED = True   # full thorough tier ran to completion with exit 0 on the unchanged tree
MIN_NONTRIVIAL = {'quick': 1500, 'thorough': 25000}
ANCHORS = ['loki/expression/symbolic.py']
REQUIRED_REACH = ['simplify', 'flatten_expr', 'distribute_product', 'distribute_quotient', 'sum_literals',
                  'mul_literals', 'div_literals', 'collect_coefficients', 'map_power', 'map_comparison',
                  'map_logical_and', 'map_logical_or', 'map_logical_not']
REQUIRED_COUNTERS = {'evaluator_validated_values': 500, 'contract_evaluations': 10000,
                     'valuations_with_inexact_int_division': 500}
ASSUMPTIONS = ['gfortran 12 -O0 is the reference for the evaluator (validated on every run, case 0)',
               'values compared at 8 (quick) / 12 (thorough) sampled valuations per tree: refutation only',
               'real values agree if |difference| <= 1e-9 * largest intermediate magnitude',
               'the tree (not its printed text) is the semantic object; printing is the subject of C06']
BUDGET_S = {'quick': 600, 'thorough': 3000}
CASE_TIMEOUT_S = 120

NVAL = {'quick': 8, 'thorough': 12}


def setup_worker(tier, ctx):
    symmon.install()
    from loki.expression.symbolic import Simplification
    members = [Simplification.Flatten, Simplification.IntegerArithmetic, Simplification.FloatingPointArithmetic,
               Simplification.CollectCoefficients, Simplification.LogicEvaluation]
    subsets = []
    for n in range(len(members) + 1):
        for combo in itertools.combinations(members, n):
            fl = Simplification(0)
            for m in combo:
                fl |= m
            subsets.append((fl, tuple(m.name for m in combo)))
    ctx['flag_subsets'] = subsets


def validation_case(idx, rng, tier, ctx):
    r = se.validate_against_gfortran(ctx['scratch'] / f'val{idx}', rng, ntrees=150 if tier == 'quick' else 400)
    res = {'sig': f'validation-{idx}', 'nontrivial': False, 'violations': [], 'inconclusive': None,
           'features': ['evaluator-validation'],
           'counters': {'evaluator_validated_values': r['compared'],
                        'evaluator_mismatches': len(r['mismatches']) + (0 if r['ok'] or r['mismatches'] else 1),
                        'evaluator_validated_inexact_int_divisions': r.get('inexact_int_divisions', 0)}}
    if not r['ok']:
        res['inconclusive'] = 'evaluator validation against gfortran failed: ' + (r['detail'] or str(r['mismatches'][:2]))
    return res


def gen_tree(rng, idx):
    hostile_div = idx % 8 == 1
    typeloss = idx % 16 == 3
    g = se.TreeGen(rng, int_div='free' if hostile_div else 'atomic', reals=True, power=True,
                   real_exp=typeloss, paren=0.1, zero_lit=0.25 if typeloss else 0.0,
                   max_depth=rng.choice([2, 3, 3, 4]))
    q = rng.random()
    if q < 0.4:
        e, kind = g.gen_int(), 'integer'
    elif q < 0.75:
        e, kind = g.gen_real(), 'real'
    else:
        e, kind = g.gen_logical(), 'logical'
    g.features.add('tree-' + kind)
    if hostile_div:
        g.features.add('slice:int-division-anywhere')
    if typeloss:
        g.features.add('slice:zero-literals-and-real-exponents')
    return e, g


def run_case(idx, rng, tier, ctx):
    if idx == 0:
        return validation_case(idx, rng, tier, ctx)
    from loki.expression import symbolic as S
    nval = NVAL[tier]
    for _ in range(40):
        expr, gen = gen_tree(rng, idx)
        envs, n_inexact = se.gen_valuations(rng, expr, nval)
        if envs is not None:
            break
    else:
        return {'sig': f'nogen-{idx}', 'nontrivial': False, 'violations': [], 'inconclusive':
                'generator could not find a well-defined tree', 'counters': {}, 'features': []}
    text = se.render(expr)
    res = {'sig': text, 'nontrivial': False, 'violations': [], 'inconclusive': None,
           'features': sorted(gen.features), 'counters': {}}
    cnt = {'simplify_calls': 0, 'contract_evaluations': 0, 'results_changed': 0,
           'valuations_with_inexact_int_division': n_inexact, 'valuations_skipped': 0}
    changed = 0
    byk = {}
    mon = symmon.MON
    for flags, names in ctx['flag_subsets']:
        mon.begin(envs)
        try:
            result = S.simplify(expr, flags)
            cnt['simplify_calls'] += 1
            if str(result) != str(expr):
                changed += 1
        except symmon.SimplifyChangedValue as exc:
            rep = exc.report
            key, detail = symmon.attribute(expr, flags, envs)
            v = byk.setdefault(key, {'flags': [], 'first': None})
            v['flags'].append('|'.join(names) or 'none')
            if v['first'] is None or len(names) < v['first'][0]:
                v['first'] = (len(names), names, rep, detail, flags)
            changed += 1
        except CaseTimeout:
            raise
        except Exception as exc:  # pylint: disable=broad-except
            where = symmon.innermost_symbolic_frame(exc)
            key = f'simplify:exception:{type(exc).__name__}:{where}'
            v = byk.setdefault(key, {'flags': [], 'first': None})
            v['flags'].append('|'.join(names) or 'none')
            if v['first'] is None or len(names) < v['first'][0]:
                v['first'] = (len(names), names, {'exception': f'{type(exc).__name__}: {exc}',
                                                  'traceback': traceback.format_exc()[-700:]}, None, flags)
        finally:
            st = mon.end()
            cnt['contract_evaluations'] += st['evaluations']
            cnt['valuations_skipped'] += st['skipped']
    for key, v in byk.items():
        _, names, rep, detail, flags = v['first']
        small = symmon.minimal_subtree(expr, flags, envs, key) if not key.startswith('simplify:exception') else None
        res['violations'].append({
            'key': key,
            'msg': (f"simplify({small['expr'] if small else text}, {'|'.join(names) or 'none'}) -> "
                    f"{small['result'] if small else rep.get('result', rep.get('exception'))}: "
                    f"{small['why'] if small else rep.get('why', '')}")[:600],
            'witness': {'expr': text, 'loki_str': str(expr), 'flags_failing': v['flags'], 'report': rep,
                        'attribution': detail, 'minimal_subtree': small}})
    cnt['results_changed'] = changed
    cnt['distinct_violation_keys'] = len(byk)
    res['counters'] = cnt
    res['nontrivial'] = changed > 0 and cnt['contract_evaluations'] >= nval * len(ctx['flag_subsets']) // 2
    res['sample'] = {'expr': text, 'flag_subsets_changing_the_tree': changed, 'valuations': len(envs),
                     'valuations_with_inexact_int_division': n_inexact,
                     'simplified_ALL': _safe_all(S, expr)}
    return res


def _safe_all(S, expr):
    symmon.MON.begin(None)
    try:
        return str(S.simplify(expr))
    except CaseTimeout:
        raise
    except Exception as exc:  # pylint: disable=broad-except
        return f'{type(exc).__name__}'
    finally:
        symmon.MON.end()


def finalize(agg, tier):
    c = agg['counters']
    if c.get('evaluator_mismatches', 0) > 0:
        agg.setdefault('extra_inconclusive', []).append(
            f"evaluator disagreed with gfortran on {c['evaluator_mismatches']} values: oracle not trusted")
    agg['extra_coverage'] = {'flag_subsets_per_tree': 32, 'valuations_per_tree': NVAL[tier]}
