"""
Shared machinery of the checks C26 / C27: parse a generated case (vlib/dfgen.py) with Loki, run the
kernel with gfortran and with the tracing IR interpreter (vlib/irinterp.py), validate the interpreter
against gfortran, and replay the interpreter's event log against the sets that
``dataflow_analysis_attached`` put on the IR nodes (:class:`Monitor`).
"""
import shutil
from contextlib import ExitStack

from vlib import diffexec
from vlib.irinterp import Interp, InterpError
from vlib.dfgen import DFGen

FFLAGS = ['-O0', '-fcheck=all', '-ffpe-trap=invalid,zero,overflow', '-finit-real=snan',
          '-finit-integer=-99999', '-ffree-line-length-none', '-w']


# ---------------------------------------------------------------------------------------------
# case preparation
# ---------------------------------------------------------------------------------------------

def parse_case(case):
    """
    returns (kernel Subroutine, {name: Subroutine} for interpreter, list of callee Subroutines, keepalive);
    the Sourcefile objects must stay referenced: Loki scopes hold their parents only weakly.
    """
    from loki import Sourcefile
    if case.mode == 'same':
        sf = Sourcefile.from_source(case.source_k)
        keep = [sf]
        routines = {r.name.lower(): r for r in sf.all_subroutines}
        kern = routines['kern']
    else:
        sfh = Sourcefile.from_source(case.source_h)
        sfk = Sourcefile.from_source(case.source_k)
        keep = [sfh, sfk]
        routines = {r.name.lower(): r for r in sfh.all_subroutines}
        kern = [r for r in sfk.all_subroutines if r.name.lower() == 'kern'][0]
        if case.mode == 'enrich':
            kern.enrich(list(routines.values()))
        routines['kern'] = kern
    callees = [r for n, r in routines.items() if n != 'kern']
    return kern, routines, callees, keep


def gfortran_runs(cases, wd):
    """
    one gfortran invocation and one process run for all cases and inputs;
    returns outs[case index][input index] = stdout text
    """
    from pathlib import Path
    from vlib.dfgen import combine_program
    wd = Path(wd)
    wd.mkdir(parents=True, exist_ok=True)
    (wd / 'all.F90').write_text(combine_program(cases))
    rc, _, err = diffexec._run(['gfortran'] + FFLAGS + ['all.F90', '-o', 'a.out'], wd, 180)  # pylint: disable=protected-access
    if rc != 0:
        raise diffexec.BuildError('fc', err[-1500:])
    r = diffexec.run(wd / 'a.out', timeout=60)
    if r['rc'] != 0 or r['san']:
        raise diffexec.BuildError('run', f"rc={r['rc']} {r['san'][:2]} {r['err'][-300:]}")
    outs = [[None] * len(cases[0].inputs) for _ in cases]
    cur = None
    for ln in r['out'].splitlines():
        if ln.startswith('@@'):
            _, k, t = ln.split()
            cur = []
            outs[int(k)][int(t) - 1] = cur
        elif cur is not None:
            cur.append(ln)
    return [[('\n'.join(o) + '\n') if o is not None else '' for o in row] for row in outs]


def kernel_args(case, n, sd):
    args = {}
    for k, v in enumerate(case.kernel.dummies):
        if v.name == 'n':
            args['n'] = n
            continue
        if v.role == 'out':
            args[v.name] = None
            continue
        if v.rank == 0:
            args[v.name] = DFGen.init_value(v, k, sd, 0)
        else:
            cnt = n * 2 if v.rank == 2 else n
            args[v.name] = [DFGen.init_value(v, k, sd, i) for i in range(cnt)]
    return args


def format_final(case, final):
    """text in the layout the driver prints"""
    L = [f"n {final['n']}"]

    def fmt(v):
        if isinstance(v, bool):
            return 'T' if v else 'F'
        if isinstance(v, int):
            return str(v)
        if v is None:
            return 'UNDEF'
        return f'{v:.17e}'
    for v in case.kernel.dummies:
        if v.name == 'n':
            continue
        val = final[v.name]
        if v.rank == 0:
            L.append(f'{v.name} {fmt(val)}')
        else:
            for i, x in enumerate(val):
                L.append(f'{v.name} {i + 1} {fmt(x)}')
    return '\n'.join(L) + '\n'


def finals_agree(case, final, out_text, rtol=1e-9):
    a = {'rc': 0, 'san': [], 'out': out_text.strip() + '\n', 'err': ''}
    b = {'rc': 0, 'san': [], 'out': format_final(case, final), 'err': ''}
    return diffexec.outputs_equal(a, b, rtol=rtol, atol=1e-12)


def execute(cases, wd):
    """
    gfortran + interpreter for a batch of cases on every input.  Returns one dict per case:
    dict(status='ok'|reason, logs=[...], kern=, routines=, callees=).  status != 'ok' means the case cannot
    be judged (inconclusive).
    """
    results = [{'status': 'ok', 'logs': [], 'events': 0} for _ in cases]
    good = []
    for case, res in zip(cases, results):
        try:
            kern, routines, callees, keep = parse_case(case)
        except Exception as e:  # pylint: disable=broad-except
            res['status'] = f'parse failure: {type(e).__name__}: {e}'[:300]
            continue
        res.update(kern=kern, routines=routines, callees=callees, keep=keep)
        good.append((case, res))
    if not good:
        return results
    try:
        outs = gfortran_runs([c for c, _ in good], wd)
    except diffexec.BuildError as e:
        # find the culprit(s) by building separately
        outs = []
        for c, res in good:
            try:
                outs.append(gfortran_runs([c], wd)[0])
            except diffexec.BuildError as e2:
                res['status'] = f'generator defect (gfortran): {e2}'[:400]
                outs.append(None)
    finally:
        shutil.rmtree(wd, ignore_errors=True)
    for (case, res), out_row in zip(good, outs):
        if out_row is None:
            continue
        for (n, sd), out in zip(case.inputs, out_row):
            it = Interp(res['routines'])
            try:
                final = it.run('kern', kernel_args(case, n, sd))
            except InterpError as e:
                res['status'] = f'interpreter: {e}'[:300]
                res['interp_kind'] = e.kind
                break
            ok, why = finals_agree(case, final, out)
            if not ok:
                res['status'] = f'interpreter disagrees with gfortran (n={n}, seed={sd}): {why}'[:400]
                res['interp_kind'] = 'mismatch'
                break
            res['logs'].append(it.log)
            res['events'] += len(it.log)
    return results


# ---------------------------------------------------------------------------------------------
# static helpers on the IR
# ---------------------------------------------------------------------------------------------

def child_bodies(node):
    """list of (label, tuple of child nodes) in syntactic order"""
    from loki import ir
    if isinstance(node, (ir.Section, ir.Loop, ir.WhileLoop, ir.Associate)):
        return [('body', tuple(node.body))]
    if isinstance(node, ir.Conditional):
        return [('body', tuple(node.body)), ('else', tuple(node.else_body or ()))]
    if isinstance(node, ir.MultiConditional):
        return [(f'case{i}', tuple(b)) for i, b in enumerate(node.bodies)] + [('default', tuple(node.else_body or ()))]
    if isinstance(node, ir.MaskedStatement):
        return [(f'where{i}', tuple(b)) for i, b in enumerate(node.bodies)] + [('elsewhere', tuple(node.default or ()))]
    return []


def flatten_nodes(t):
    out = []
    for x in t:
        if isinstance(x, tuple):
            out += flatten_nodes(x)
        else:
            out.append(x)
    return out


def preorder(root):
    """dict id(node) -> preorder index, list of nodes"""
    order = []

    def walk(n):
        order.append(n)
        for _, b in child_bodies(n):
            for c in flatten_nodes(b):
                walk(c)
    if isinstance(root, tuple):
        for c in flatten_nodes(root):
            walk(c)
    else:
        walk(root)
    return {id(n): i for i, n in enumerate(order)}, order


def symnames(symset):
    out = set()
    for s in symset or ():
        nm = getattr(s, 'name', None)
        if isinstance(nm, str):
            nm = nm.lower()
            out.add(nm)
            while '%' in nm:
                nm = nm.rsplit('%', 1)[0]
                out.add(nm)
    return out


def node_kind(n):
    from loki import ir
    from loki.expression import symbols as sym
    t = type(n).__name__
    if isinstance(n, ir.Assignment):
        dims = getattr(n.lhs, 'dimensions', None) or ()
        shape = getattr(n.lhs, 'shape', None)
        if not shape and not dims:
            return 'Assignment-scalar'
        if not dims:
            return 'Assignment-array'
        if any(isinstance(d, sym.RangeIndex) for d in dims):
            return 'Assignment-section'
        return 'Assignment-element'
    return t


# ---------------------------------------------------------------------------------------------
# the monitor
# ---------------------------------------------------------------------------------------------

class Entry:
    __slots__ = ('node', 'names', 'fid', 'written', 'is_loop', 'iter', 'lastw', 'start_seq', 'iter_seq')

    def __init__(self, node, names, fid, is_loop):
        self.node = node
        self.names = names
        self.fid = fid
        self.written = set()
        self.is_loop = is_loop
        self.iter = 0
        self.lastw = {} if is_loop else None
        self.start_seq = 0
        self.iter_seq = None      # event number at which the current iteration of a Loop / WhileLoop started


class Monitor:
    """
    Replays event logs against the attached dataflow sets.

    checks: 'defines', 'uses', 'live' (C26); 'lcd', 'raw' (C27)
    raw_tasks: list of dict(ir=, node=, label=) inspection points in the kernel
    """

    def __init__(self, kern, callees, checks, raw_tasks=(), enriched=True):
        from loki import ir, FindNodes
        self.ir = ir
        self.kern = kern
        self.checks = set(checks)
        self.enriched = enriched
        self.viol = {}        # key -> dict(msg, witness, count)
        self.counters = {'events': 0, 'reads': 0, 'writes': 0, 'activations': 0, 'defines_checks': 0,
                         'uses_checks': 0, 'live_checks': 0, 'lcd_loops': 0, 'lcd_carried': 0,
                         'raw_deps': 0, 'raw_tasks': 0, 'callee_activations': 0}
        self.sets = {}
        self.loopvars = {}
        self.pre = {}
        for r in [kern] + list(callees):
            self.loopvars[id(r)] = {l.variable.name.lower() for l in FindNodes(ir.Loop).visit(r.body)}
            self.pre[id(r)] = preorder(r.body)[0]
        self.raw_tasks = []
        for t in raw_tasks:
            self._prepare_raw(t)

    # -- sets -------------------------------------------------------------------
    def nsets(self, node):
        s = self.sets.get(id(node))
        if s is None:
            s = (symnames(node.defines_symbols), symnames(node.uses_symbols), symnames(node.live_symbols))
            self.sets[id(node)] = s
        return s

    def report(self, key, msg, witness):
        v = self.viol.get(key)
        if v is None:
            self.viol[key] = {'key': key, 'msg': msg, 'witness': witness, 'count': 1}
        else:
            v['count'] += 1

    # -- raw tasks --------------------------------------------------------------
    def _prepare_raw(self, t):
        from loki.analyse.dataflow_analysis import read_after_write_vars
        idx, order = preorder(t['ir'])
        p = idx.get(id(t['node']))
        if p is None:
            return
        cls = {}
        for n in order:
            cls[id(n)] = 'A' if idx[id(n)] >= p else 'B'
        try:
            rep = read_after_write_vars(t['ir'], t['node'])
            reported = symnames(rep)
        except Exception as e:  # pylint: disable=broad-except
            self.report(f'raw:exception:{type(e).__name__}', f'read_after_write_vars raised {type(e).__name__}: {e}',
                        {'inspection_node': str(t['node'])[:200]})
            return
        task = dict(t)
        task.update(cls=cls, reported=reported, lastw={}, deps=set())
        self.raw_tasks.append(task)
        self.counters['raw_tasks'] += 1

    # -- replay -----------------------------------------------------------------
    def replay(self, log, label=''):
        # pylint: disable=too-many-branches,too-many-statements,too-many-locals
        ir = self.ir
        stack = []
        frames = {}
        valued = set()
        bindings = {}
        pending_out = {}
        active = []
        c = self.counters
        do_def = 'defines' in self.checks
        do_use = 'uses' in self.checks
        do_live = 'live' in self.checks
        do_lcd = 'lcd' in self.checks
        do_raw = bool(self.raw_tasks)
        kern_fid = None
        for t in self.raw_tasks:
            t['lastw'] = {}
        for seq, ev in enumerate(log):
            tag = ev[0]
            if tag == 'R':
                c['reads'] += 1
                sid = ev[1]
                el = (sid, ev[2])
                if do_use:
                    inner_bad = False
                    inner = None
                    for e in reversed(stack):
                        if el in e.written:
                            break
                        nms = e.names.get(sid)
                        if nms is None:
                            inner_bad = False
                            inner = e
                            continue
                        c['uses_checks'] += 1
                        uses = self.nsets(e.node)[1]
                        bad = not any(n in uses for n in nms)
                        if bad and not inner_bad:
                            self._diag_uses(e, inner, nms, sid, bindings, label)
                        inner_bad = bad
                        inner = e
                if do_lcd:
                    inner = None
                    for e in reversed(stack):
                        if e.is_loop and e.lastw:
                            it = e.lastw.get(el)
                            if it is not None and it < e.iter:
                                nms = e.names.get(sid)
                                if nms is not None:
                                    self._lcd_dep(e, stack, sid, nms, it, bindings, label,
                                                  (frames[e.fid]['lastw'].get(sid) or (None,))[0])
                        inner = e
                if do_raw:
                    self._raw_event(stack, kern_fid, 'R', sid, el, label, bindings)
            elif tag == 'W':
                c['writes'] += 1
                sid = ev[1]
                el = (sid, ev[2])
                ind = ev[3]
                valued.add(sid)
                for fr in active:
                    if fr['out_pending']:
                        fr['out_pending'].discard(sid)
                inner_bad = False
                inner = None
                for e in reversed(stack):
                    e.written.add(el)
                    if e.is_loop and not ind:
                        e.lastw[el] = e.iter
                    if do_def and not ind:
                        nms = e.names.get(sid)
                        if nms is None:
                            inner_bad = False
                        else:
                            c['defines_checks'] += 1
                            defs = self.nsets(e.node)[0]
                            bad = not any(n in defs for n in nms)
                            if bad and not inner_bad:
                                self._diag_defines(e, inner, nms, sid, bindings, label)
                            inner_bad = bad
                    inner = e
                if not ind:
                    # remember the static node of each frame that performed the write (for live diagnosis)
                    seen = set()
                    for e in reversed(stack):
                        if e.fid not in seen:
                            seen.add(e.fid)
                            fr = frames.get(e.fid)
                            if fr is not None:
                                fr['lastw'][sid] = (e.node, seq)
                if do_raw:
                    self._raw_event(stack, kern_fid, 'W' if not ind else 'I', sid, el, label, bindings)
            elif tag == 'E':
                node, names, fid = ev[1], ev[2], ev[3]
                c['activations'] += 1
                if fid != kern_fid:
                    c['callee_activations'] += 1
                is_loop = isinstance(node, ir.Loop)
                e = Entry(node, names, fid, is_loop)
                e.start_seq = seq
                if is_loop and do_lcd:
                    c['lcd_loops'] += 1
                if do_live:
                    fr = frames[fid]
                    live = self.nsets(node)[2]
                    lv = fr['loopvars']
                    outp = fr['out_pending']
                    for sid, nms in names.items():
                        if sid in valued and sid not in outp:
                            c['live_checks'] += 1
                            if not any(n in live for n in nms) and nms[0] not in lv:
                                self._diag_live(node, fr, sid, nms, bindings, label, stack)
                stack.append(e)
            elif tag == 'X':
                stack.pop()
            elif tag == 'I':
                stack[-1].iter = ev[2]
                stack[-1].iter_seq = seq
            elif tag == 'F':
                fid, routine, names, vals = ev[1], ev[2], ev[3], ev[4]
                if kern_fid is None:
                    kern_fid = fid
                valued.update(vals)
                frames[fid] = {'routine': routine, 'names': names, 'lastw': {},
                               'loopvars': self.loopvars.get(id(routine), set()),
                               'pre': self.pre.get(id(routine), {}),
                               'out_pending': pending_out.pop(fid, set())}
                active.append(frames[fid])
            elif tag == 'f':
                active.pop()
            elif tag == 'B':
                bindings[id(ev[1])] = ev[3]
                # intent(out) dummies are undefined on entry of the callee
                pending_out[ev[2]] = {b[3] for b in ev[3] if b[1] == 'out' and b[3] is not None}
        c['events'] += len(log)
        for t in self.raw_tasks:
            c['raw_deps'] += len(t['deps'])
            t['deps'] = set()

    # -- diagnosis ----------------------------------------------------------------
    def _src(self, node):
        try:
            from loki.backend import fgen
            return fgen(node).strip().split('\n')[0][:160]
        except Exception:  # pylint: disable=broad-except
            return str(node)[:160]

    def _call_detail(self, e, sid, nms, bindings, defines=False, header=False):
        from loki import FindVariables
        b = bindings.get(id(e.node), ())
        enr = 'enriched' if e.node.routine else 'unenriched'
        if header:
            # read while the actual arguments are evaluated: a subscript or an operand of an actual
            for _dn, intent, kind, bsid, actual in b:
                inner = [v for a in FindVariables().visit(actual) for v in
                         FindVariables().visit(getattr(a, 'dimensions', None) or ())]
                if kind == 'expr':
                    inner += list(FindVariables().visit(actual))
                if any(v.name.lower() in nms for v in inner):
                    return f'{enr}:intent-{intent or "none"}:subscript-or-operand-of-actual'
        for _dn, intent, kind, bsid, _actual in b:
            if bsid == sid:
                if defines and self._is_subscript_in_call(e.node, nms):
                    return 'argument-is-also-subscript-of-another-actual'
                return f'{enr}:intent-{intent or "none"}'
        for _dn, intent, kind, bsid, actual in b:
            if any(v.name.lower() in nms for v in FindVariables().visit(actual)):
                return f'{enr}:intent-{intent or "none"}:subscript-or-operand-of-actual'
        return f'{enr}:not-an-argument'

    def _is_subscript_in_call(self, call, nms):
        from loki import FindVariables
        args = list(call.arguments) + [v for _, v in (call.kwarguments or ())]
        for a in FindVariables().visit(args):
            for v in FindVariables().visit(getattr(a, 'dimensions', None) or ()):
                if v.name.lower() in nms:
                    return True
        return False

    def _root_killer(self, k, nms):
        """descend through unconditional wrappers (Associate) to the construct that makes the definition partial"""
        ir = self.ir
        while isinstance(k, ir.Associate):
            inv = {v.name.lower(): str(getattr(sel, 'name', '')).lower() for sel, v in k.associations}
            inner_names = set(nms) | {a for a, b in inv.items() if b in nms}
            nxt = None
            for ch in flatten_nodes(k.body):
                if inner_names & self.nsets(ch)[0]:
                    nxt = ch
                    break
            if nxt is None:
                break
            k, nms = nxt, tuple(inner_names)
        return node_kind(k)

    def _killer(self, e, inner, nms, sid=None):
        """
        why a use that the child ``inner`` reports is missing from the parent ``e``: the first earlier
        sibling of inner.node (in the same body; for WHERE also in the previous bodies) that has the name in
        its defines -- the analysis subtracts *all* earlier definitions of the body, also partial ones.
        """
        if inner is None:
            return 'header-read-not-recorded'
        if sid is not None and inner.fid == e.fid:
            nms = inner.names.get(sid) or nms
        bodies = child_bodies(e.node)
        where_prev = isinstance(e.node, self.ir.MaskedStatement)
        prev_bodies = []
        for lab, b in bodies:
            fl = flatten_nodes(b)
            ids = [id(x) for x in fl]
            if id(inner.node) in ids:
                pos = ids.index(id(inner.node))
                for k in fl[:pos]:
                    if any(n in self.nsets(k)[0] for n in nms):
                        return f'use-after-may-definition:{self._root_killer(k, nms)}'
                if where_prev and lab != 'elsewhere':
                    for pb in prev_bodies:
                        for k in pb:
                            if any(n in self.nsets(k)[0] for n in nms):
                                return 'use-after-may-definition:previous-WHERE-body'
                return f'use-of-child-dropped-by:{type(e.node).__name__}'
            prev_bodies.append(fl)
        return f'child-not-found-in:{type(e.node).__name__}'

    def _uses_detail(self, e, inner, nms, sid, bindings):
        ir = self.ir
        node = e.node
        if isinstance(node, ir.CallStatement):
            return 'CallStatement:' + self._call_detail(e, sid, nms, bindings, header=inner is None)
        if isinstance(node, ir.Assignment):
            return 'Assignment:' + self._assign_detail(node, nms)
        d = self._killer(e, inner, nms, sid)
        if d.startswith('header'):
            return f'{type(node).__name__}:{d}'
        return d

    def _diag_uses(self, e, inner, nms, sid, bindings, label):
        node = e.node
        t = type(node).__name__
        key = 'uses:' + self._uses_detail(e, inner, nms, sid, bindings)
        self.report(key, f'{nms[0]} is read before being written while {t} executes but is not in its uses_symbols',
                    {'input': label, 'variable': nms[0], 'node': self._src(node),
                     'uses_symbols': sorted(self.nsets(node)[1]), 'defines_symbols': sorted(self.nsets(node)[0]),
                     'child': self._src(inner.node) if inner is not None else None})

    def _assign_detail(self, node, nms):
        from loki import FindVariables, FindInlineCalls
        lhs_dims = {v.name.lower() for v in FindVariables().visit(getattr(node.lhs, 'dimensions', ()) or ())}
        memq = set()
        for c in FindInlineCalls().visit(node.rhs):
            if str(c.function).lower() in ('size', 'lbound', 'ubound', 'present'):
                memq |= {v.name.lower() for v in FindVariables().visit(c.parameters)}
        if any(n in memq for n in nms):
            return 'rhs-operand-is-also-memory-query-argument'
        if any(n in lhs_dims for n in nms):
            return 'lhs-subscript'
        return 'rhs'

    def _diag_defines(self, e, inner, nms, sid, bindings, label):
        ir = self.ir
        node = e.node
        t = type(node).__name__
        if isinstance(node, ir.CallStatement):
            detail = self._call_detail(e, sid, nms, bindings, defines=True)
        elif isinstance(node, ir.Assignment):
            detail = 'lhs'
        else:
            detail = 'dropped'
        key = f'defines:{t}:{detail}'
        self.report(key, f'{nms[0]} is written while {t} executes but is not in its defines_symbols',
                    {'input': label, 'variable': nms[0], 'node': self._src(node),
                     'defines_symbols': sorted(self.nsets(node)[0]),
                     'child': self._src(inner.node) if inner is not None else None})

    def _diag_live(self, node, fr, sid, nms, bindings, label, stack=()):
        ir = self.ir
        w, wseq = fr['lastw'].get(sid) or (None, None)
        routine = fr['routine']
        name = nms[0]
        if w is None:
            arg = [a for a in routine.arguments if a.name.lower() in nms]
            if arg:
                intent = arg[0].type.intent
                detail = f'entry:dummy-intent-{intent or "none"}'
            else:
                detail = 'entry:unknown-origin'
        else:
            pre = fr['pre']
            pw, pn = pre.get(id(w)), pre.get(id(node))
            # written in an earlier iteration of a loop activation that is still running?
            earlier_iter = any(e.iter_seq is not None and e.start_seq <= wseq < e.iter_seq for e in stack)
            if earlier_iter or (pw is not None and pn is not None and pw >= pn):
                detail = 'loop-back-edge'
            elif isinstance(w, ir.CallStatement):
                fake = Entry(w, fr['names'], None, False)
                detail = 'after-call:' + self._call_detail(fake, sid, nms, bindings, defines=True)
            else:
                detail = f'lost-definition:{self._lca_type(routine, w, node)}:{node_kind(w)}'
        key = f'live:{detail}'
        self.report(key, f'{name} holds a value when {type(node).__name__} starts but is not in its live_symbols',
                    {'input': label, 'variable': name, 'node': self._src(node),
                     'live_symbols': sorted(self.nsets(node)[2]),
                     'last_writer': self._src(w) if w is not None else None})

    def _lca_type(self, routine, a, b):
        par = self._parents(routine.body)
        anc = set()
        x = a
        while x is not None:
            anc.add(id(x))
            x = par.get(id(x))
        x = b
        while x is not None:
            if id(x) in anc:
                return type(x).__name__
            x = par.get(id(x))
        return 'none'

    # -- C27: loop-carried ----------------------------------------------------------
    def _lcd_dep(self, e, stack, sid, nms, it, bindings, label, writer=None):
        from loki.analyse.dataflow_analysis import loop_carried_dependencies
        loop = e.node
        self.counters['lcd_carried'] += 1
        cache = self.sets.get(('lcd', id(loop)))
        if cache is None:
            try:
                cache = symnames(loop_carried_dependencies(loop))
            except Exception as ex:  # pylint: disable=broad-except
                self.report(f'lcd:exception:{type(ex).__name__}', str(ex)[:200], {'loop': self._src(loop)})
                cache = None
            self.sets[('lcd', id(loop))] = cache if cache is not None else set()
            cache = self.sets[('lcd', id(loop))]
        if any(n in cache for n in nms):
            return
        if nms[0] in self.loopvars.get(id(self.kern), set()) and nms[0] == loop.variable.name.lower():
            return
        defs, uses, _ = self.nsets(loop)
        in_d = any(n in defs for n in nms)
        in_u = any(n in uses for n in nms)
        inner = None
        if not in_u:
            # innermost activation (from the reading statement up to the loop) whose uses lack the variable
            pos = stack.index(e)
            culprit, cin = e, (stack[pos + 1] if pos + 1 < len(stack) else None)
            prev = None
            for x in reversed(stack[pos:]):
                xn = x.names.get(sid)
                if xn is not None and not any(n in self.nsets(x.node)[1] for n in xn):
                    culprit, cin = x, prev
                    break
                prev = x
            inner = cin
            detail = 'use-missing:' + self._uses_detail(culprit, cin, culprit.names.get(sid) or nms, sid, bindings)
        elif in_d:
            # both sets hold the name, but as different symbols: visit_Associate maps an associate name back to
            # the selector expression *with* its subscripts (a(:), a(2)), which does not equal the plain symbol
            detail = 'associate-selector-with-subscripts-not-matched'
        else:
            detail = self._lcd_def_detail(e, writer, sid, nms, bindings)
        key = f'lcd:{detail}'
        self.report(key, f'{nms[0]} written in iteration {it} is read in iteration {e.iter} but is not reported by '
                    'loop_carried_dependencies',
                    {'input': label, 'variable': nms[0], 'loop': self._src(loop), 'reported': sorted(cache),
                     'reading_child': self._src(inner.node) if inner is not None else None,
                     'loop_uses': sorted(uses), 'loop_defines': sorted(defs)})

    def _lcd_def_detail(self, e, writer, sid, nms, bindings):
        ir = self.ir
        if isinstance(writer, ir.CallStatement):
            fake = Entry(writer, e.names, e.fid, False)
            return 'definition-missing:CallStatement:' + self._call_detail(fake, sid, nms, bindings, defines=True)
        if writer is not None:
            return f'definition-missing:{node_kind(writer)}'
        return 'definition-missing:unknown-writer'

    # -- C27: read after write -------------------------------------------------------
    def _raw_event(self, stack, kern_fid, kind, sid, el, label, bindings):
        for t in self.raw_tasks:
            cls = t['cls']
            pos = None
            names = None
            node = None
            for e in reversed(stack):
                if e.fid == kern_fid:
                    p = cls.get(id(e.node))
                    if p is not None:
                        pos = p
                        names = e.names
                        node = e.node
                        break
            if kind == 'W':
                t['lastw'][el] = (pos, node) if pos is not None else None
            elif kind == 'I':
                t['lastw'][el] = None
            elif pos == 'A':
                lw = t['lastw'].get(el)
                if lw is not None and lw[0] == 'B':
                    nms = names.get(sid)
                    if nms is None:
                        continue
                    base = self._kern_name(sid, nms, stack, kern_fid)
                    t['deps'].add(base)
                    if not any(n in t['reported'] for n in nms) and base not in t['reported']:
                        self._diag_raw(t, nms, base, lw[1], node, label, sid, bindings, names)

    def _kern_name(self, sid, nms, stack, kern_fid):
        for e in stack:
            if e.fid == kern_fid:
                n = e.names.get(sid)
                if n:
                    return n[0]
        return nms[0]

    def _diag_raw(self, t, nms, base, wnode, rnode, label, sid, bindings, kern_names):
        from loki.analyse.dataflow_analysis import FindWrites, FindReads
        ir = self.ir
        names = set(nms) | {base}
        fw = FindWrites(stop=t['node'], active=True)
        fw.visit(t['ir'])
        wnames = symnames(fw.writes)
        idx, order = preorder(t['ir'])

        def calld(node, defines):
            fake = Entry(node, kern_names, None, False)
            return 'CallStatement:' + self._call_detail(fake, sid, nms, bindings, defines=defines)
        # names under which the writing / reading statement know the variable (associate names)
        allnames = names | self._alias_names(t, wnode, names) | self._alias_names(t, rnode, names)
        w_as = allnames & self.nsets(wnode)[0]
        r_as = allnames & self.nsets(rnode)[1]
        if w_as and r_as and not w_as & r_as:
            detail = 'associate-name-differs-between-write-and-read'
        elif not names & wnames:
            detail = 'write-not-found:' + (calld(wnode, True) if isinstance(wnode, ir.CallStatement)
                                           else node_kind(wnode))
        elif self._raw_reader_lacks(t, rnode, names) is not None:
            eff = self._raw_reader_lacks(t, rnode, names)
            if isinstance(eff, ir.CallStatement):
                detail = 'read-not-found:' + calld(eff, False)
            elif isinstance(eff, ir.Assignment):
                detail = 'read-not-found:Assignment:' + self._assign_detail(eff, tuple(names))
            elif isinstance(eff, (ir.MultiConditional, ir.MaskedStatement)):
                detail = f'read-not-found:use-after-may-definition-inside:{type(eff).__name__}'
            else:
                detail = f'read-not-found:{node_kind(eff)}'
        else:
            fr = FindReads(start=t['node'], candidate_set=fw.writes, clear_candidates_on_write=False)
            fr.visit(t['ir'])
            if names & symnames(fr.reads):
                # reported when candidates are not cleared: find the clearing write
                # (FindReads treats every LeafNode -- also SELECT CASE and WHERE constructs -- as one statement)
                p = idx[id(t['node'])]
                clearer = None
                for n in order[p:]:
                    if isinstance(n, ir.LeafNode) and names & self.nsets(n)[0]:
                        clearer = n
                        break
                kind = node_kind(clearer) if clearer is not None else 'unknown'
                if isinstance(clearer, (ir.MultiConditional, ir.MaskedStatement)):
                    detail = f'candidate-cleared-by-conditional-definition-in:{kind}'
                elif kind in ('Assignment-scalar', 'Assignment-array'):
                    detail = f'candidate-cleared-by-conditional-definition-in:{self._cond_context(t, clearer)}'
                else:
                    detail = f'candidate-cleared-by-partial-definition:{kind}'
            elif isinstance(rnode, ir.Associate):
                detail = 'read-not-found:Associate-header'
            elif isinstance(rnode, ir.CallStatement):
                detail = 'read-not-found:' + calld(rnode, False)
            else:
                detail = f'read-not-found:{node_kind(rnode)}'
        key = f'raw:{detail}'
        self.report(key, f'{base} written before the inspection node is read at/after it but is not reported by '
                    'read_after_write_vars',
                    {'input': label, 'variable': base, 'inspection_node': self._src(t['node']),
                     'ir': t.get('label'), 'writer': self._src(wnode), 'reader': self._src(rnode),
                     'reported': sorted(t['reported'])})

    def _raw_reader_lacks(self, t, rnode, names):
        """the statement as FindReads sees it (SELECT CASE / WHERE constructs are leaves) if its uses lack the name"""
        ir = self.ir
        par = self._parents(self.kern.body)
        inside = preorder(t['ir'])[0]
        eff = rnode
        x = par.get(id(rnode))
        while x is not None and id(x) in inside:
            if isinstance(x, (ir.MultiConditional, ir.MaskedStatement)):
                eff = x
            x = par.get(id(x))
        if isinstance(eff, ir.LeafNode) and not names & self.nsets(eff)[1]:
            return eff
        return None

    def _parents(self, root):
        par = self.sets.get(('parents', id(root)))
        if par is None:
            par = {}

            def walk(n):
                for _, body in child_bodies(n):
                    for ch in flatten_nodes(body):
                        par[id(ch)] = n
                        walk(ch)
            if isinstance(root, tuple):
                for ch in flatten_nodes(root):
                    walk(ch)
            else:
                walk(root)
            self.sets[('parents', id(root))] = par
        return par

    def _cond_context(self, t, node):
        """nearest enclosing construct (inside the inspected ir) under which ``node`` executes conditionally"""
        ir = self.ir
        par = self._parents(self.kern.body)
        inside = preorder(t['ir'])[0]
        x = par.get(id(node))
        while x is not None and id(x) in inside:
            if isinstance(x, (ir.Loop, ir.WhileLoop, ir.MultiConditional, ir.MaskedStatement, ir.Conditional)):
                return type(x).__name__
            x = par.get(id(x))
        return 'none'

    def _alias_names(self, t, node, names):
        """names under which ``names`` are known inside associate blocks enclosing ``node`` (and vice versa)"""
        ir = self.ir
        par = self._parents(self.kern.body)
        out = set()
        x = par.get(id(node))
        while x is not None:
            if isinstance(x, ir.Associate):
                for sel, al in x.associations:
                    sn = str(getattr(sel, 'name', '')).lower()
                    if sn in names:
                        out.add(al.name.lower())
                    if al.name.lower() in names and sn:
                        out.add(sn)
            x = par.get(id(x))
        return out


def attach_all(kern, callees):
    """ExitStack with dataflow analysis attached to kernel and callees"""
    from loki.analyse import dataflow_analysis_attached
    st = ExitStack()
    st.enter_context(dataflow_analysis_attached(kern))
    for r in callees:
        st.enter_context(dataflow_analysis_attached(r))
    return st


# ---------------------------------------------------------------------------------------------
# one case index = a batch of generated routines compiled into one program
# ---------------------------------------------------------------------------------------------

def raw_hazard(stmts, p):
    """
    Static pre-check on generator metadata: can one of the *known* mechanisms of read_after_write_vars fire
    for the inspection position p of this block?  (conservative: may say yes when it cannot)
    """
    wbefore = set()
    for s in stmts[:p]:
        wbefore |= s['W']
    aliased = set()
    for s in stmts:
        aliased |= s['alias']
    if aliased & wbefore:
        return 'associate'
    pend = set()
    for s in stmts[p:]:
        # IF constructs whose branches hold only scalar assignments are handled exactly by FindReads
        partial = set() if s.get('pure_if') else s['W'] - s['M']
        if s['compound'] and (partial & s['R'] & wbefore):
            return 'partial-definition-inside-compound'
        if s['R'] & pend & wbefore:
            return 'read-after-partial-definition'
        if ('associate' in s['has']) and (s['hdr'] & wbefore):
            return 'header-read'
        pend |= partial
        pend -= s['M']
    return None


def raw_tasks_for(case, kern, rng, allow_hazard, maxtasks=8):
    """inspection points (ir, node) from the generator's block table, mapped to IR nodes by source line"""
    from loki import ir, FindNodes
    by_line = {}
    for n in FindNodes(ir.Node).visit(kern.body):
        src = getattr(n, 'source', None)
        if src is not None and src.lines and not isinstance(n, (ir.Comment, ir.CommentBlock)):
            by_line.setdefault(src.lines[0], n)
    first = case.kernel.first_line
    cands = []
    for blk in case.kernel.blocks:
        stmts = blk['stmts']
        if len(stmts) < 2:
            continue
        if blk['kind'] == 'top':
            root = kern.body
            label = 'routine body'
        else:
            loop = by_line.get(first + blk['line'])
            if not isinstance(loop, ir.Loop):
                continue
            root = loop.body
            label = f'body of loop at line {first + blk["line"]}'
        for p in range(1, len(stmts)):
            node = by_line.get(first + stmts[p]['line'])
            if node is None:
                continue
            hz = raw_hazard(stmts, p)
            if hz and not allow_hazard:
                continue
            cands.append({'ir': root, 'node': node, 'label': label, 'hazard': hz})
    rng.shuffle(cands)
    return cands[:maxtasks]


def run_index(idx, rng, tier, ctx, pid, checks, nsub, pick_hz, budget=(8, 14), raw=False):
    """generate nsub routines, validate the interpreter against gfortran, replay the logs through the monitor"""
    from vlib.core import sighash
    hz = pick_hz(rng, idx)
    cases = []
    for j in range(nsub):
        mode = rng.choice(['same', 'enrich', 'unenriched'])
        g = DFGen(rng, hz=hz, mode=mode, budget=rng.randint(*budget), tag=j + 1)
        cases.append(g.generate())
    res = {'sig': sighash([c.source_h + c.source_k for c in cases]), 'nontrivial': False, 'violations': [],
           'inconclusive': None, 'features': set(), 'counters': {'routines': nsub, 'routines_validated': 0,
                                                                 'routines_inconclusive': 0}}
    results = execute(cases, ctx['scratch'] / f'c{idx}')
    reasons = []
    seen = set()
    sample = None
    for j, (case, r) in enumerate(zip(cases, results)):
        if r['status'] != 'ok':
            res['counters']['routines_inconclusive'] += 1
            k = 'inconclusive_' + r['status'].split(':')[0].replace(' ', '_')[:40]
            res['counters'][k] = res['counters'].get(k, 0) + 1
            reasons.append(r['status'])
            continue
        res['counters']['routines_validated'] += 1
        res['counters']['gfortran_agreeing_runs'] = res['counters'].get('gfortran_agreeing_runs', 0) + len(r['logs'])
        try:
            ctxm = attach_all(r['kern'], r['callees'])
        except Exception as e:  # pylint: disable=broad-except
            import traceback
            fn = [f.name for f in traceback.extract_tb(e.__traceback__) if 'dataflow_analysis' in f.filename and not f.name.startswith('<')]
            res['violations'].append({'key': f'dfa:attach-exception:{type(e).__name__}:{fn[-1] if fn else "?"}',
                                      'msg': f'dataflow_analysis_attached raised {type(e).__name__}: {e}'[:400],
                                      'witness': {'source': case.source_h + case.source_k, 'mode': case.mode,
                                                  'hazards': sorted(k for k, on in hz.items() if on)}})
            continue
        with ctxm:
            tasks = raw_tasks_for(case, r['kern'], rng, bool(hz.get('raw_kill'))) if raw else ()
            mon = Monitor(r['kern'], r['callees'], checks, raw_tasks=tasks)
            for lg, inp in zip(r['logs'], case.inputs):
                mon.replay(lg, label=f'n={inp[0]} seed={inp[1]}')
        for k, v in mon.counters.items():
            res['counters'][k] = res['counters'].get(k, 0) + v
        res['features'] |= case.features | {f'hz_{h}' for h in case.hz_used}
        evals = sum(mon.counters[k] for k in ('defines_checks', 'uses_checks', 'live_checks', 'lcd_carried',
                                              'raw_deps'))
        if evals > 0:
            res['nontrivial'] = True
        for key, v in mon.viol.items():
            if key in seen:
                continue
            seen.add(key)
            w = dict(v['witness'])
            w.update(mode=case.mode, hazards=sorted(k for k, on in hz.items() if on), occurrences=v['count'],
                     kernel_source=case.source_k, callee_source=case.source_h)
            res['violations'].append({'key': key, 'msg': v['msg'], 'witness': w})
        if sample is None:
            sample = {'mode': case.mode, 'hazard_flags': sorted(k for k, on in hz.items() if on),
                      'features': sorted(case.features)[:12], 'events': r['events'],
                      'kernel_lines': len(case.source_k.splitlines()),
                      'monitor': {k: mon.counters[k] for k in ('activations', 'reads', 'writes')}}
    res['features'] = sorted(res['features'])
    res['sample'] = sample
    if res['counters']['routines_validated'] == 0:
        res['inconclusive'] = 'no routine of the batch could be validated: ' + ' | '.join(reasons)[:600]
    elif reasons:
        res['counters']['partially_inconclusive_batches'] = 1
        res['sample_inconclusive'] = reasons[0][:300]
    return res


def finalize_rate(agg, maxfrac=0.05):
    """routines that could not be validated count against the run like inconclusive cases"""
    c = agg['counters']
    tot, bad = c.get('routines', 0), c.get('routines_inconclusive', 0)
    if tot and bad / tot > maxfrac:
        agg.setdefault('extra_inconclusive', []).append(
            f'{bad}/{tot} generated routines could not be validated against gfortran (limit {maxfrac:.0%})')
    agg.setdefault('extra_coverage', {})['routines'] = {'generated': tot, 'validated': c.get('routines_validated', 0),
                                                       'not_validated': bad}
