MODULE Kmod
  IMPLICIT NONE
  TYPE TTYPE
    REAL(KIND=8) :: p
    REAL(KIND=8) :: q(5)
    INTEGER :: KK
  END TYPE TTYPE
  CONTAINS
  SUBROUTINE kern (n, M, A1, A2, a3, C1, c2, K1, S1, S2, s3, i1, I2, Lg1, T1)
    INTEGER, INTENT(IN) :: n
    INTEGER, INTENT(IN) :: M
    REAL(KIND=8), INTENT(IN) :: A1(N)
    REAL(KIND=8), INTENT(INOUT) :: A2(N)
    REAL(KIND=8), INTENT(INOUT) :: a3(N)
    REAL(KIND=8), INTENT(OUT) :: C1(n, m)
    REAL(KIND=8), INTENT(IN) :: c2(N, M)
    INTEGER, INTENT(INOUT) :: K1(N)
    REAL(KIND=8), INTENT(IN) :: S1
    REAL(KIND=8), INTENT(INOUT) :: S2
    REAL(KIND=8), INTENT(OUT) :: s3
    INTEGER, INTENT(IN) :: i1
    INTEGER, INTENT(INOUT) :: I2
    LOGICAL, INTENT(IN) :: Lg1
    TYPE(TTYPE), INTENT(INOUT) :: T1
    REAL(KIND=8) :: X1
    REAL(KIND=8) :: x2
    INTEGER :: j1
    LOGICAL :: Lg2
    INTEGER :: i, J, k
    REAL(KIND=8) :: zw(n), zs, zv(n, m)
    REAL(KIND=8) :: ZF(4)
    INTEGER :: JZ, kz
    REAL(KIND=8) :: ZP, ZU1, Zu2
    REAL(KIND=8) :: zq(1:n, 3, 1:2)
    INTEGER :: ii
    REAL(KIND=8) :: result_r
!$loki region-hoist target
    Zq = 0.75_8
    zw = 0.5_8
    zv = 0.25_8
    zf = 1.0_8
    zs = 0.0_8
    ZS = s1*2.0_8 + 1.0_8 + (zs + 0.5_8)*2.0_8 + 1.0_8
    c1 = 1.0_8
    s3 = 1.5_8
    X1 = 2.0_8
    x2 = 3.0_8
    j1 = 11
    Lg2 = .false.
    LP1: DO i=1,m
      ! [Loki] inlined child subroutine: Isub
      ! =========================================
      s3 = s1
      DO ii=1,MIN(N, N)
        s3 = s3 + xin(II)*10.0_8
      END DO
      s3 = COS(s3)
      s2 = s2*0.5_8 + s3
      ! =========================================
    END DO LP1
    ! [Loki] inlined child subroutine: IFUN
    ! =========================================
    result_r = SIN(T1%q(5)) + s1*REAL(T1%KK + j1 + i1, kind=8)*0.01_8
    ! =========================================
    X1 = 2.0_8*COS(result_r + x1)
    ! [Loki] inlined child subroutine: Isub
    ! =========================================
    X2 = s1
    DO ii=1,MIN(n, N)
      X2 = X2 + xin(II)*10.0_8
    END DO
    X2 = COS(X2)
    S2 = S2*0.5_8 + X2
    ! =========================================
    IF (N == i1) a2(1) = 2.0_8*COS(t1%p / (1.0_8 + ABS(x2)))
    s3 = (REAL(4, kind=8) + X2 + s2 - (s2 + s1 + c1(1, 1))) / (1.0_8 + ABS(REAL(4, kind=8) + x2 + s2 - (S2 + S1 + c1(1, 1))))
    CALL hsub(n, a3, x1, x2)
!$loki inline
    CALL Hsub(n, a1, ZS, s2)
    CALL hlow(n, zq(:, 1, :), Zs)
    DO jz=1,N
      zw(Jz) = a1(Jz)*S1
!$loki loop-fission
      A2(jz) = ZW(jz) + 0.25_8
    END DO
!$loki outline name( kern_o1 ) in( n,a1,s1 ) inout( a2 )
    DO JZ=1,N
      A2(jz) = a2(Jz) + a1(Jz)*s1
    END DO
!$loki end outline
    zw(1:n) = A1(1:n) + 0.5_8
    ZV(:, :) = ZV(:, :)*s1
    zw(:) = zw + a1
!$loki loop-fusion group( g1 )
    DO jz=1,n
      ZW(jz) = A1(jz) + s1
    END DO
!$loki loop-fusion group( g1 )
    DO JZ=1,n
      A2(jz) = zw(Jz)*0.5_8
    END DO
!$loki region-hoist
    zs = 2.0_8*s1
!$loki end region-hoist
    DO jz=1,n
      zp = A1(JZ)*s1
      ZW(JZ) = zp + 0.5_8
    END DO
!$loki remove
    ZS = zs + 1.0_8
    DO jz=1,n
      zw(JZ) = ZS
    END DO
!$loki end remove
    ZS = HFUN(s1, i1) + HFUN(zs, 2)
    CALL hdup(n, N, A1, zs)
!$loki loop-unroll
    DO jz=1,3
      zf(jz) = A1(1)*REAL(jz, kind=8)
    END DO
!$loki loop-interchange
    DO Jz=1,n
      DO kz=1,m
        zv(jz, kz) = A1(jz) + REAL(kz, kind=8)
      END DO
    END DO
    CONTAINS
  END SUBROUTINE kern
  SUBROUTINE HSUB (nn, xin, Xio, sout)
    INTEGER, INTENT(IN) :: nn
    REAL(KIND=8), INTENT(IN) :: xin(NN)
    REAL(KIND=8), INTENT(INOUT) :: Xio
    REAL(KIND=8), INTENT(OUT) :: sout
    INTEGER :: II
    sout = 0.0_8
    DO ii=1,nn
      SOUT = sout + XIN(ii)*2.0_8
    END DO
    sout = sout / (1.0_8 + REAL(NN, kind=8))
    xio = SIN(xio + SOUT)
  END SUBROUTINE HSUB
  FUNCTION HFUN (x, k) RESULT(r)
    REAL(KIND=8), INTENT(IN) :: x
    INTEGER, INTENT(IN) :: k
    REAL(KIND=8) :: R
    r = X*7.5_8 + REAL(MOD(k, 5), kind=8)
    IF (k > 3) r = R - 10.0_8
  END FUNCTION HFUN
  SUBROUTINE hdup (n1, N2, Xin, SOUT)
    INTEGER, INTENT(IN) :: n1, N2
    REAL(KIND=8), INTENT(IN) :: Xin(n1)
    REAL(KIND=8), INTENT(INOUT) :: SOUT
    sout = SOUT + xin(1)*REAL(n2, kind=8)
  END SUBROUTINE hdup
  SUBROUTINE HLOW (nn, x2, SOUT)
    INTEGER, INTENT(IN) :: nn
    REAL(KIND=8), INTENT(IN) :: x2(NN, 2)
    REAL(KIND=8), INTENT(INOUT) :: SOUT
    sout = SOUT + x2(1, 1) + x2(NN, 2)
  END SUBROUTINE HLOW
END MODULE Kmod