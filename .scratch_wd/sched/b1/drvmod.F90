MODULE drvmod
  USE kinds_mod, ONLY: jprb
  USE kmod, ONLY: kern
  IMPLICIT NONE
  CONTAINS
  SUBROUTINE drv (n, m, a1, a2, c1, c2, d1, k1, s1, s2, s3, i1, i2, lg1)
    USE kmoddm, ONLY: kerndupl
    INTEGER, INTENT(IN) :: n
    INTEGER, INTENT(IN) :: m
    REAL(KIND=jprb), INTENT(IN) :: a1(n)
    REAL(KIND=jprb), INTENT(INOUT) :: a2(n)
    REAL(KIND=jprb), INTENT(OUT) :: c1(n, m)
    REAL(KIND=jprb), INTENT(OUT) :: c2(n, m)
    REAL(KIND=jprb), INTENT(INOUT) :: d1(-1:n - 2)
    INTEGER, INTENT(INOUT) :: k1(n)
    REAL(KIND=jprb), INTENT(IN) :: s1
    REAL(KIND=jprb), INTENT(INOUT) :: s2
    REAL(KIND=jprb), INTENT(OUT) :: s3
    INTEGER, INTENT(IN) :: i1
    INTEGER, INTENT(INOUT) :: i2
    LOGICAL, INTENT(IN) :: lg1
    INTEGER :: ib, nb
    nb = 2
    DO ib=1,nb
      CALL kern(n, m, a1, a2, c1, c2, d1, k1, s1, s2, s3, i1, i2, lg1)
      CALL kerndupl(n, m, a1, a2, c1, c2, d1, k1, s1, s2, s3, i1, i2, lg1)
    END DO
  END SUBROUTINE drv
END MODULE drvmod