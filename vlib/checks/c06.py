"""C06 -- printed expressions denote the expression tree they were printed from (fgen and cgen).

Oracle: for a generated Loki expression tree T over typed variables, value(fgen(T)) == value(T) at every sampled
valuation where T is defined.  value(T) comes from the independent exprlab evaluator applied to the *structure*
of T (validated on every tree against gfortran / gcc running an independently printed, fully parenthesised
rendering of T); value(text) comes from gfortran (resp. gcc) evaluating the text Loki printed, and, as a second
opinion in half of the Fortran cases, from re-parsing the text with the FP frontend and evaluating the re-parsed tree.
"""
import shutil

from vlib import exprlab as X
from vlib.core import sighash

PID = 'C06'
LEVEL = 'exploration'
TECHNIQUE = 'reference-model + differential evaluation (gfortran/gcc) of printed expression trees'
LEVEL_TEXT = ('every generated tree (programmatic shapes, with / without parenthesis nodes, substitution and simplify '
              'outputs) is printed by the real fgen/cgen and the printed text is evaluated by gfortran/gcc at 8 '
              'valuations against an independent evaluator of the tree; held = no unexplained value difference or '
              'rejected text on the sampled trees')
LEVEL_NOTE = ('trusted: gfortran 12 / gcc 12 -O0 as target semantics (default -std=gnu, so `a*-b` is judged by value); '
              'the evaluator is re-validated against gfortran/gcc on every tree; reals compared within a propagated '
              'error bound; bounded depth (<= 5) and small operand values')
RULE = ('(1) deterministic enumeration slice (first 28 / 72 case indices): every edge parent[position] <- child over Sum, '
        'Product (n-ary, with -1 factors), Quotient, Power, unary minus, negative literals, Comparison, logical operators, '
        'intrinsic calls and Cast, for int / real (/ mixed in thorough) operands, with (thorough) and without explicit '
        'parenthesis nodes, for fgen and cgen; (2) E3 TreeGen random trees of depth 2-5 over int/real(4,8)/logical scalars, '
        'array elements and derived-type components, parenthesis nodes none|random|frontend-like; ~20 % of the trees are '
        'outputs of SubstituteExpressionsMapper or simplify(); 30 % of the random cases target cgen. Shapes with known open '
        'findings are only generated in the enumeration and hostile (25 %) slices. Non-trivial = at least half of the trees '
        'of the case had a defined valuation, were printed, compiled and compared; distinct = hash of all printed texts.')
CASES = {'quick': 96, 'thorough': 1600}
MIN_NONTRIVIAL = {'quick': 60, 'thorough': 1100}
ANCHORS = ['loki/backend/fgen.py', 'loki/expression/mappers.py', 'loki/backend/cgen.py']
REQUIRED_REACH = ['map_quotient', 'map_product', 'map_sum', 'map_power', 'map_comparison', 'map_logical_not',
                  'map_parenthesised_div', 'map_from_expr_map', 'CCodeMapper.map_power', 'CCodeMapper.map_inline_call']
REQUIRED_COUNTERS = {'trees_compared_fortran': 800, 'trees_compared_c': 300, 'evaluator_validated_by_compiler': 1000,
                     'fp_reparse_agree': 300}
ASSUMPTIONS = ['gfortran/gcc 12 at -O0 define the target-language value of a text',
               'a tree is only judged at valuations where the independent evaluator finds it defined and well-conditioned',
               'the FP re-parse is a second opinion: texts it cannot parse but gfortran accepts (a*-b) are judged by gfortran']
BUDGET_S = {'quick': 1200, 'thorough': 3600}
WATCHDOG_S = {'quick': 3000, 'thorough': 9000}
CASE_TIMEOUT_S = 900

NTREES = 24
NENUM = 64          # trees per case in the deterministic enumeration slice
NVAL = 8
MINVALID = 3

# shapes with open findings: only generated when the case is in the hostile slice
LSD = X.left_spine_int_div


def left_minus(c, env):   # pylint: disable=unused-argument
    """does the text cgen prints for c start with a minus sign?"""
    while True:
        if c[0] == 'neg' or (c[0] in ('int', 'real') and X.level(c) == 5 and c[2] != '#py'):
            return True
        if c[0] == 'prod':
            c = c[1][0]
        elif c[0] == 'quot':
            c = c[1]
        else:
            return False


AVOID_F = (('Quotient', 'denominator', 'Product'), ('Quotient', 'denominator', 'Quotient'), ('Quotient', 'denominator', 'Neg'),
           ('Product', 'nonfirst', 'Quotient', LSD), ('Product', 'nonfirst', 'Product', LSD), ('Product', 'nonfirst', 'Neg', LSD),
           ('Power', 'base', 'Power'), ('Power', 'base', 'NegIntLiteral'), ('Power', 'base', 'NegFloatLiteral'))
AVOID_C = (('Product', 'nonfirst', 'Quotient', LSD), ('Product', 'nonfirst', 'Product', LSD), ('Product', 'nonfirst', 'Neg', LSD),
           ('Product', 'nonfirst', 'Call.mod'), ('Quotient', 'denominator', 'Call.mod'),
           ('Neg', 'operand', 'Neg'), ('Neg', 'operand', 'NegIntLiteral'), ('Neg', 'operand', 'NegFloatLiteral'),
           ('Neg', 'operand', 'Product', left_minus), ('Neg', 'operand', 'Quotient', left_minus))

TYCLASS = {'i4': 'int', 'r4': 'real', 'r8': 'real', 'l': 'logical', '?': 'unknown'}


def setup_worker(tier, ctx):
    env = X.Env()
    ctx['env'] = env
    ctx['lenv'] = env.loki_scope()
    ctx['ev'] = X.Evaluator(env)
    ctx['ev_cpow'] = X.Evaluator(env, c_pow=True)
    ctx['enum'] = enum_plan(tier)


def enum_plan(tier):
    """deterministic slice: the first len(plan) case indices print every (parent, position, child) edge"""
    full = tier == 'thorough'
    plan = []
    for target in ('fortran', 'c'):
        L = X.enumerate_pairs(target, mixed=full, par_variants=full)
        plan += [(target, L[i:i + NENUM]) for i in range(0, len(L), NENUM)]
    return plan


# ------------------------------------------------------------------------------------------------------------
def printer(target):
    from loki import fgen, cgen
    return fgen if target == 'fortran' else cgen


def values_of(ev, ast, vals):
    """per valuation: Val or None (undefined / fragile); IllTyped propagates"""
    out = []
    for v in vals:
        try:
            out.append(ev(ast, v))
        except (X.Undefined, X.Fragile):
            out.append(None)
    return out


def compare(expected, observed):
    """expected: list of Val|None; observed: dict {vi: value} or ('error', ...).  Returns None if all agree else msg"""
    if not isinstance(observed, dict):
        return 'rejected:' + observed[1]
    for vi, x in enumerate(expected):
        if x is None:
            continue
        if vi not in observed:
            return f'no value at valuation {vi}'
        if not X.agree(x, observed[vi]):
            return f'valuation {vi}: tree={x.v!r} text={observed[vi]!r}'
    return None


def gen_tree(rng, ctx, flags, hostile, avoid):
    """returns (ast, loki tree, source) ; ast is re-derived from the Loki tree that is printed"""
    env, lenv = ctx['env'], ctx['lenv']
    g = X.TreeGen(rng, env, flags)
    ty = rng.choice('iiirrrl')
    src = 'gen'
    x = rng.random()
    ast = g.gen(ty)
    tree = X.to_loki(ast, lenv)
    back = X.from_loki(tree)
    if back != X.strip_par(ast):
        raise RuntimeError(f'AST round trip failed: {ast} -> {back}')
    if x < 0.14 and flags['target'] == 'fortran' or x < 0.10:
        # substitution: replace a variable of the tree by a generated subtree (the classic source of bare shapes)
        from loki.expression.mappers import SubstituteExpressionsMapper
        names = sorted({n[1] for _p, n in X.subtrees(back) if n[0] == 'var' and n[1] in ('i1', 'i2', 'i3', 'r1', 'r2', 'r3', 'l1', 'l2')})
        if names:
            nm = rng.choice(names)
            sub = X.TreeGen(rng, env, dict(flags, depth=2, par_mode='none')).gen({'i': 'i', 'r': 'r', 'l': 'l'}[nm[0]], 2)
            tree = SubstituteExpressionsMapper({lenv[1][nm]: X.to_loki(sub, lenv)})(tree)
            back = X.from_loki(tree)
            src = 'subst'
    elif x < 0.22 and ty != 'l':
        from loki.expression.symbolic import simplify
        try:
            tree2 = simplify(tree)
            back2 = X.from_loki(tree2)
            X.static_type(back2, env)
            tree, back, src = tree2, back2, 'simplify'
        except Exception:   # pylint: disable=broad-except
            pass            # simplify's own robustness is C08's business
    if flags['avoid'] and X.find_edges(back, env, flags['avoid']):
        return None
    if flags['avoid'] and flags['target'] == 'c' and any(n[0] == 'call' and len(n) > 4 for _p, n in X.subtrees(back)):
        return None         # known cgen mechanism (fmod for rebuilt call symbols): hostile slice only
    if flags['target'] == 'c' and not flags['int_power']:
        for _p, n in X.subtrees(back):
            if n[0] == 'pow' and X.static_type_safe(n, env) == 'i4':
                return None
    return back, tree, src


REPL = {'i4': ['k2', 'i3', 'k1', 'i4', 'i1', 'i2'], 'r8': ['r4', 'r2', 'r3', 'r1'], 'r4': ['s2', 's1'], 'l': ['l3', 'l2', 'l1']}


def leaf_for(node, role, child, env, taken):
    """plain operand of the child's type that does not occur in the node yet (equal operands create coincidences)"""
    ty = X.static_type_safe(child, env)
    if role.startswith('sub'):
        return ('int', 1, None)
    pool = REPL.get(ty, REPL['i4'])
    if role == 'exponent' and ty == 'i4':
        pool = ['n2', 'n1']
    if role == 'base' and ty == 'r8':
        pool = ['p2', 'p1']
    for nm in pool:
        if nm not in taken:
            taken.add(nm)
            return ('var', nm)
    return ('var', pool[0])


class Judge:
    """prints ASTs with the real backend and evaluates the text with the compiler batch service"""

    def __init__(self, ctx, target, vals, wd, counters):
        self.ctx, self.target, self.vals, self.c = ctx, target, vals, counters
        self.env, self.lenv, self.ev = ctx['env'], ctx['lenv'], ctx['ev']
        self.pr = printer(target)
        self.batch = (X.FortranBatch if target == 'fortran' else X.CBatch)(self.env, vals, wd)

    def judge_asts(self, asts):
        """for each AST: (status, text, expected, observed) status in pass|fail|unknown"""
        texts, exps, idx = [], [], []
        out = [None] * len(asts)
        for i, a in enumerate(asts):
            try:
                exp = values_of(self.ev, a, self.vals)
            except X.EvalError:
                out[i] = ('unknown', None, None, None)
                continue
            if sum(x is not None for x in exp) < 1:
                out[i] = ('unknown', None, exp, None)
                continue
            try:
                txt = self.pr(X.to_loki(a, self.lenv))
            except Exception as e:   # pylint: disable=broad-except
                out[i] = ('fail', f'EXC {type(e).__name__}: {e}', exp, ('error', 'print'))
                continue
            texts.append(txt); exps.append(exp); idx.append(i)
        if texts:
            res = self.batch.evaluate(texts, [[x is not None for x in e] for e in exps])
            self.c['classification_texts'] = self.c.get('classification_texts', 0) + len(texts)
            for i, t, e, r in zip(idx, texts, exps, res):
                out[i] = ('pass' if compare(e, r) is None else 'fail', t, e, r)
        return out


def par_wrap(c):
    """the child with explicit parentheses (same value); children that cannot carry a parenthesis node stay as is"""
    if c[0] in ('sum', 'prod', 'quot', 'pow', 'neg'):
        return ('par', c)
    if c[0] in ('int', 'real') and X.level(c) == 5 and c[2] != '#py':
        pos = ('int', -c[1], c[2]) if c[0] == 'int' else ('real', c[1].lstrip().lstrip('-'), c[2])
        return ('par', ('neg', pos))
    return c


def _is_lit(n):
    return n[0] in ('int', 'real') and n[2] != '#py'


def classify_many(judge, asts, prefix):
    """Localise the mechanism for each failing AST.
    (1) minimal failing subtree N: fails when printed on its own while each of its children passes on its own
        (literals are judged too, so a literal the backend cannot print is found);
    (2) culprit child: N with every *other* composite child replaced by a plain variable still fails.
    Key = parent kind . position <- child kind : int|real|logical (type of the culprit child).
    Two compiler batches for all failing trees of a case.  Returns [(key, witness)]."""
    env = judge.env
    subs, seen = [], set()
    for ast in asts:
        for _p, n in X.subtrees(ast):
            if n not in seen and (X.children(n) or _is_lit(n)):
                seen.add(n); subs.append(n)
    res = dict(zip(subs, judge.judge_asts(subs)))
    plans, variants = [], []
    for ast in asts:
        mine = [n for _p, n in X.subtrees(ast) if n in res]
        failing = [n for n in mine if res[n][0] == 'fail']
        if not failing:
            plans.append(None)
            continue
        minimal = [n for n in failing if not any(res.get(c, ('pass',))[0] == 'fail' for _r, c in X.children(n))]
        node = min(minimal or failing, key=lambda n: (X.size(n), str(n)))
        cand = [(i, r, c) for i, (r, c) in enumerate(X.children(node)) if X.children(c) or X.level(c) == 5]
        taken = {n[1] for _p, n in X.subtrees(node) if n[0] == 'var'}
        leaves = {i: leaf_for(node, r, c, env, taken) for i, r, c in cand}
        wraps = {i: par_wrap(c) for i, _r, c in cand}          # value-preserving repair: explicit parentheses
        groups = []
        for repl in (wraps, leaves):
            keep, drop = [], []
            for i, _r, _c in cand:
                v = node
                for j, _r2, _c2 in cand:
                    if j != i:
                        v = X.replace_child(v, j, repl[j])
                keep.append(v)                                       # every other child repaired / replaced
                drop.append(X.replace_child(node, i, repl[i]))      # only child i repaired / replaced
            groups += keep + drop
        allrep = node
        for i, _r, _c in cand:
            allrep = X.replace_child(allrep, i, leaves[i])
        plans.append((node, cand, len(variants), len(cand)))
        variants += groups + [allrep]
    vres = judge.judge_asts(variants) if variants else []
    out = []
    for ast, plan in zip(asts, plans):
        if plan is None:
            out.append((f'{prefix}:whole-tree-only:{X.kind_of(ast)}', {'note': 'no subtree fails on its own'}))
            continue
        node, cand, off, n = plan
        wit = {'minimal_subtree': X.ref_fortran(node) if judge.target == 'fortran' else str(node),
               'printed': res[node][1], 'observed': str(res[node][3])[:200], 'expected': str(res[node][2])[:200]}
        key = None
        if judge.target == 'c' and node[0] == 'real' and 'd' in node[1].lower():
            key = f'{prefix}:FloatLiteral:d-exponent'
        elif judge.target == 'c' and '--' in str(res[node][1]):
            # mechanism recognised from the printed text itself: unary minus glued to a text that starts with '-'
            # (the children print without '--' on their own, otherwise they would be the minimal failing node)
            key = f'{prefix}:Neg.operand<-minus-prefixed-text:decrement-token'
        if key is None:
            # culprit: the node still fails with only this child in place, or is repaired by replacing only this child
            # culprit child i, in order of evidence strength: (a) the node still fails when every other child carries
            # explicit parentheses; (b) parenthesising only child i repairs the node; (c), (d) the same two tests with
            # plain variables instead of parentheses (for children that cannot carry a parenthesis node)
            tests = [(0, 'fail'), (n, 'pass'), (2 * n, 'fail'), (3 * n, 'pass')]
            fixable = [par_wrap(c) != c for _i, _r, c in cand]
            for base, want in tests:
                for k, (i, r, c) in enumerate(cand):
                    if base == 0 and not all(f for kk, f in enumerate(fixable) if kk != k):
                        continue        # test (a) says nothing when another child cannot be given parentheses
                    if vres[off + base + k][0] == want:
                        role = 'arg' if r.startswith('arg') else r
                        key = f'{prefix}:{X.kind_of(node)}.{role}<-{X.kind_of(c)}:{TYCLASS[X.static_type_safe(c, env)]}'
                        break
                if key is not None:
                    break
        if key is None and (not cand or vres[off + 4 * n][0] == 'fail'):
            key = f'{prefix}:{X.kind_of(node)}:self:{TYCLASS[X.static_type_safe(node, env)]}'
        if key is None:
            kinds = '+'.join(sorted({X.kind_of(c) for _i, _r, c in cand}))
            key = f'{prefix}:{X.kind_of(node)}<-interaction({kinds})'
        out.append((key, wit))
    return out


def run_case(idx, rng, tier, ctx):
    env, ev = ctx['env'], ctx['ev']
    plan = ctx['enum']
    enum = plan[idx] if idx < len(plan) else None
    target = enum[0] if enum else ('c' if rng.random() < 0.3 else 'fortran')
    hostile = bool(enum) or rng.random() < 0.25
    avoid = AVOID_F if target == 'fortran' else AVOID_C
    vals = [env.valuation(rng) for _ in range(NVAL)]
    cnt = {}
    bump = lambda k, n=1: cnt.__setitem__(k, cnt.get(k, 0) + n)
    res = {'sig': None, 'nontrivial': False, 'violations': [], 'inconclusive': None, 'features': [], 'counters': cnt}
    feats = {f'target:{target}', 'enumeration' if enum else ('hostile' if hostile else 'main')}
    pr = printer(target)
    items = []        # dicts: ast, tree, src, text, exp
    tries = 0
    want = len(enum[1]) if enum else NTREES
    while len(items) < want and tries < (len(enum[1]) if enum else NTREES * 8):
        tries += 1
        if enum:
            ast = enum[1][tries - 1]
            tree = X.to_loki(ast, ctx['lenv'])
            ast = X.from_loki(tree)
            src, flags, minvalid = 'enum', {'par_mode': 'enum'}, 1
            bump('enumerated_edges')
        else:
            flags = {'target': target, 'depth': rng.choice([2, 3, 3, 4, 4, 5]),
                     'par_mode': rng.choice(['none', 'none', 'random', 'frontend']), 'avoid': () if hostile else avoid}
            if target == 'c':
                # one known cgen mechanism per tree, so that the localisation is not confounded
                fam = rng.choice(['shapes', 'shapes', 'int_power', 'd_exponent']) if hostile else 'none'
                flags['int_power'] = fam == 'int_power'
                flags['d_exponent'] = fam == 'd_exponent'
                flags['avoid'] = () if fam == 'shapes' else avoid
            g = gen_tree(rng, ctx, flags, hostile, avoid)
            if g is None:
                bump('trees_regenerated_known_shape')
                continue
            ast, tree, src = g
            minvalid = MINVALID
        try:
            exp = values_of(ev, ast, vals)
        except X.EvalError:
            bump('trees_regenerated_illtyped')
            continue
        if sum(x is not None for x in exp) < minvalid:
            bump('trees_regenerated_undefined')
            continue
        try:
            text = pr(tree)
        except Exception as e:   # pylint: disable=broad-except
            res['violations'].append({'key': f'{"print" if target == "fortran" else "cprint"}:exception:{type(e).__name__}',
                                      'msg': f'{type(e).__name__}: {e}'[:300], 'witness': {'tree': str(ast)}})
            continue
        items.append({'ast': ast, 'tree': tree, 'src': src, 'text': text, 'exp': exp, 'par': flags['par_mode']})
        feats.add(f'src:{src}'); feats.add(f'par:{flags["par_mode"]}')
        for s in X.shapes(ast, env):
            if s[2] not in ('Var', 'IntLiteral', 'FloatLiteral', 'ArrayElem', 'LogicLiteral'):
                feats.add(f'{s[0]}.{s[1]}<-{s[2]}')
    res['sig'] = sighash([target] + [it['text'] for it in items])
    if len(items) < want // 2:
        res['inconclusive'] = f'generator produced only {len(items)} usable trees'
        return res
    wd = ctx['scratch'] / f'c{idx}'
    prefix = 'print' if target == 'fortran' else 'cprint'
    try:
        judge = Judge(ctx, target, vals, wd, cnt)
        refs = [X.ref_fortran(it['ast']) if target == 'fortran' else ref_c_safe(it['ast'], env) for it in items]
        texts = []
        for it, r in zip(items, refs):
            texts += [r if r is not None else '0', it['text']]
        masks = []
        for it in items:
            m = [x is not None for x in it['exp']]
            masks += [m, m]
        out = judge.batch.evaluate(texts, masks)
        bump('compiler_batches', judge.batch.compiles)
        bump('tree_valuation_pairs', sum(sum(m) for m in masks) // 2)
        # second opinion: FP re-parse of the printed Fortran
        fp = None
        if target == 'fortran' and rng.random() < 0.5:
            fp = X.fp_parse([it['text'] for it in items], env,
                            [X.static_type_safe(it['ast'], env) for it in items])
        failing = []
        compared = 0
        for k, it in enumerate(items):
            if refs[k] is not None:
                if not isinstance(out[2 * k], dict):
                    bump('discarded_reference_text_rejected_by_compiler')
                    continue
                bad = compare(it['exp'], out[2 * k])
                if bad is not None:
                    res['inconclusive'] = (f'evaluator disagrees with the compiler on the reference text: {bad}; '
                                           f'ref={refs[k]} err={judge.batch.first_error.get(2 * k, "")}')[:900]
                    return res
                bump('evaluator_validated_by_compiler')
            verdict = compare(it['exp'], out[2 * k + 1])
            compared += 1
            bump('trees_compared_' + target)
            fpv = None
            if fp is not None:
                t2 = fp[k]
                if isinstance(t2, Exception):
                    fpv = 'unparseable'
                    bump('fp_reparse_unparseable')
                else:
                    try:
                        a2 = X.from_loki(t2)
                        e2 = []
                        for v in vals:
                            try:
                                e2.append(ev(a2, v))
                            except X.Overflow:
                                e2.append('overflow')    # depends on the association order: no opinion
                            except X.Undefined:
                                e2.append(None)
                            except X.Fragile:
                                e2.append('fragile')     # defined, ill-conditioned in this association: no opinion
                        ok2 = all(x is None or isinstance(y, str) or (y is not None and X.agree(x, y))
                                  for x, y in zip(it['exp'], e2))
                        fpv = 'agree' if ok2 else 'differ'
                    except X.EvalError:
                        fpv = 'differ'
                    bump('fp_reparse_' + fpv)
                if fpv == 'unparseable' and verdict is None:
                    bump('nonstandard_text_accepted_by_gfortran')
                    feats.add('nonstandard-text-accepted-by-gfortran')
                if fpv in ('agree', 'differ') and (fpv == 'agree') != (verdict is None):
                    res['inconclusive'] = (f'gfortran and FP re-parse disagree on {it["text"]!r}: gfortran says '
                                           f'{verdict or "equal"}, re-parse says {fpv}')[:600]
                    return res
            if verdict is not None:
                failing.append((k, it, verdict))
        todo = []
        keys = {}
        for k, it, verdict in failing:
            bump('mismatching_trees')
            if target == 'c' and 'fmod(' in it['text'] and any(
                    n[0] == 'call' and n[1] == 'mod' and X.static_type_safe(n, env) == 'i4' and len(n) > 4
                    for _p, n in X.subtrees(it['ast'])):
                # cgen chooses fmod() for an integer MOD whose argument contains a call whose function symbol was
                # rebuilt as a DeferredTypeSymbol (by SubstituteExpressionsMapper / simplify): the result becomes double
                keys[k] = ('cprint:integer-mod-printed-as-fmod(rebuilt-function-symbol)', {})
                continue
            if target == 'c' and any(n[0] == 'pow' and X.static_type_safe(n, env) == 'i4'
                                     for _p, n in X.subtrees(it['ast'])):
                # known mechanism with its own model: cgen prints integer powers as double pow().  Recognised when
                # the observed values are exactly those of the tree with double-valued powers, or when gcc rejects
                # the text because a double reached the integer-only % operator
                try:
                    err = judge.batch.first_error.get(2 * k + 1, '')
                    if isinstance(out[2 * k + 1], dict):
                        explained = compare(values_of(ctx['ev_cpow'], it['ast'], vals), out[2 * k + 1]) is None
                    else:
                        explained = 'invalid operands to binary %' in err and 'double' in err
                    if explained:
                        keys[k] = ('cprint:int-Power-evaluated-as-double-pow', {'gcc': err[:300]})
                        continue
                except X.EvalError:
                    pass
            todo.append(k)
        if todo:
            # localisation uses extra valuations so that value coincidences do not blur the culprit
            cj = Judge(ctx, target, vals + [env.valuation(rng) for _ in range(16)], wd, cnt)
            for k, kw in zip(todo, classify_many(cj, [items[k]['ast'] for k in todo], prefix)):
                keys[k] = kw
        for k, it, verdict in failing:
            key, wit = keys[k]
            wit = dict(wit or {}, tree=str(it['ast'])[:1500], printed_text=it['text'], reference=refs[k], source=it['src'],
                       verdict=verdict, compiler_error=judge.batch.first_error.get(2 * k + 1, ''))
            wit['slice'] = 'enumeration' if enum else ('hostile' if hostile else 'main')
            bump('mismatches_in_' + wit['slice'] + '_slice')
            if wit['slice'] == 'main':
                bump('main_slice:' + key)
            res['violations'].append({'key': key, 'msg': f'{it["text"]!r} does not denote {refs[k]!r}: {verdict}'[:400],
                                      'witness': wit})
        bump('compiler_batches_total', judge.batch.compiles + (cj.batch.compiles if todo else 0))
        bump('batch_bisections', judge.batch.bisections + (cj.batch.bisections if todo else 0))
        res['nontrivial'] = compared >= want // 2
        res['features'] = sorted(feats)
        res['sample'] = {'target': target, 'hostile': hostile, 'trees': len(items),
                         'examples': [{'printed': it['text'], 'reference': r, 'source': it['src']} for it, r in list(zip(items, refs))[:3]]}
    except X.BatchError as e:
        res['inconclusive'] = f'batch service: {e}'
    finally:
        shutil.rmtree(wd, ignore_errors=True)
    return res


def ref_c_safe(ast, env):
    try:
        return X.ref_c(ast, env)
    except (ValueError, X.EvalError):
        return None
