"""
Layout-hostile free-form Fortran generator with a ground-truth relational model (used by C19, and as a
source of structurally rich files for C17/C18/C20).

    case = HostileGen(rng, flags).generate()
    case.text      -> source file text (valid free-form Fortran; modules, typedefs with bindings and
                      generics, interfaces, MODULE PROCEDURE, internal procedures, renamed/operator imports)
    case.model     -> list of top-level unit models (dict, see ``new_unit``)
    case.features  -> set of layout / language features actually emitted
    case.risky     -> set of *gated* features (known to break the REGEX frontend) actually emitted

Layout hostilities: continuation lines (with and without leading '&', with trailing comments and comment
lines in between), ';'-separated statements, inline ``IF (...) CALL`` with nested parentheses, keywords
inside strings and comments, labels, mixed case, END without names, function prefixes, keyword-like
identifiers.
"""
from dataclasses import dataclass, field

# features that are always eligible (chosen at random per case)
BASE_FLAGS = dict(
    mixed_case=0.5, continuation=0.6, cont_noamp=0.4, cont_comment=0.4, cont_comment_line=0.25,
    semicolons=0.5, labels=0.4, kw_strings=0.7, kw_comments=0.7, end_noname=0.6, end_nospace=0.3,
    prefixes=0.6, kw_idents=0.5, internal=0.6, typebound=0.7, generics=0.5, interfaces=0.7,
    operator_import=0.3, rename_import=0.6, inline_if=0.8, blank_lines=0.4, leading_comment=0.4,
    use_in_routine=0.5, assoc=0.3, pragmas=0.2, extends=0.3,
    tab_ws=0.15, string_continuation=0.2, interface_in_internal=0.2,
)

# gated features: each one is a known or suspected REGEX-frontend weakness; at most one per case
RISKY_FLAGS = [
    'use_nature',            # use, intrinsic :: iso_c_binding
    'use_double_colon',      # use :: mod
    'binding_attr_paren',    # procedure, pass(self) :: b
    'deferred_binding',      # procedure(iface), deferred :: b
    'generic_operator',      # generic :: operator(+) => f
    'final_binding',         # final :: cleanup
    'ident_call_prefix',     # callcount = callcount + 1
    'string_type_keyword',   # character ... = "type fake_t" in a module spec
    'typedef_in_routine',    # derived type defined in a subroutine spec
    'bare_end',              # END without SUBROUTINE/FUNCTION/MODULE
    'prefix_special',        # character(len=4, kind=1) function f()
    'if_string_paren',       # if (s == ') call fake(') call real()
    'nested_contains_last',  # last module procedure has internal procedures and another module follows
    'kw_binding_nocolon',    # first type-bound procedure is 'procedure subroutine_x' (keyword-like name, no '::')
    'kw_unit_name',          # a module FUNCTION named subroutine_x (keyword of the other unit kind inside the name)
    'call_in_spec_string',   # reserved
]

KW_IDENTS = ['recall_me', 'end_it', 'use_it', 'type_z', 'functio_y', 'sub_routine_x', 'module_p',
             'procedure_r', 'interface_q', 'contains_c', 'if_then', 'do_call', 'only_a', 'result_v',
             'endtype_t', 'genericx', 'final_f', 'import_i', 'public_p', 'operator_o']


@dataclass
class HCase:
    text: str
    model: list
    features: set
    risky: set
    flags: dict = field(default_factory=dict)


def new_unit(kind, name):
    return {'kind': kind, 'name': name.lower(), 'imports': [], 'typedefs': [], 'interfaces': [],
            'calls': [], 'children': [], 'tags': set()}


def pick_flags(rng, risky_prob=0.25, risky=None):
    f = {k: rng.random() < p for k, p in BASE_FLAGS.items()}
    for r in RISKY_FLAGS:
        f[r] = False
    if risky is None and rng.random() < risky_prob:
        # bare_end (REGEX timeouts, expensive) gets a third of the weight of the others
        pool = [r for r in RISKY_FLAGS if r not in ('call_in_spec_string',)]
        pool = [r for r in pool for _ in range(1 if r == 'bare_end' else 3)]
        risky = rng.choice(pool)
    if risky:
        f[risky] = True
    f['size'] = rng.choice([1, 1, 1, 1, 2, 2, 3])
    return f


class HostileGen:

    def __init__(self, rng, flags=None):
        self.rng = rng
        self.f = flags if flags is not None else pick_flags(rng)
        self.features = set()
        self.risky = set()
        self.lines = []
        self.pending = None       # (text, joinable) of a statement waiting for a ';' join
        self.names = set()
        self.ncount = 0
        self.label = 0
        self.ext_count = 0
        self.modules = []         # info of emitted modules: name, subs, types, ops, generics ...

    # ------------------------------------------------------------------ helpers
    def on(self, name):
        return bool(self.f.get(name))

    def feat(self, name):
        self.features.add(name)
        if name in RISKY_FLAGS:
            self.risky.add(name)

    def case(self, word):
        """Random letter case for keywords / identifiers."""
        if not self.on('mixed_case'):
            return word
        r = self.rng.random()
        self.feat('mixed_case')
        if r < 0.3:
            return word.upper()
        if r < 0.5:
            return word.capitalize()
        if r < 0.65:
            return ''.join(c.upper() if self.rng.random() < 0.5 else c for c in word)
        return word

    K = case
    N = case

    def fresh(self, stem):
        if self.on('kw_idents') and self.rng.random() < 0.35:
            cand = self.rng.choice(KW_IDENTS)
            if cand not in self.names:
                self.names.add(cand)
                self.feat('kw_idents')
                return cand
        self.ncount += 1
        n = f'{stem}{self.ncount}'
        self.names.add(n)
        return n

    def ws(self):
        if self.on('tab_ws') and self.rng.random() < 0.5:
            self.feat('tab_ws')
            return '\t'
        return ' '

    def sp(self, maxn=2):
        """optional spaces"""
        return ' ' * self.rng.randint(0, maxn)

    def kw_comment(self):
        return self.rng.choice([
            '! call fake_c1(x)', '! end subroutine fake_c2', '!contains', '! use fake_mod, only: z',
            '! type fake_t', '! if (a) call fake_c3()', '! interface fake_i', '! end module', "! it's; call fake_c4('",
            '! module procedure fake_p', '! function fake_f(x) result(y)'])

    def kw_string(self):
        q = self.rng.choice(["'", '"'])
        s = self.rng.choice([
            'call fake_s1(x)', 'end subroutine', 'use fake_mod', '; call fake_s2()', 'a ) call fake_s3(',
            '! not a comment', 'contains', 'if (x) call fake_s4()', 'interface', '& not a continuation',
            'module procedure z', 'end function fake_s5', "it''s" if q == "'" else 'say ""hi""', '(((', ')) call x'])
        self.feat('kw_strings')
        return q + s + q

    # ------------------------------------------------------------------ line emission
    def flush(self):
        if self.pending is not None:
            self.lines.append(self.pending[0])
            self.pending = None

    def raw(self, text):
        self.flush()
        self.lines.append(text)

    def comment_line(self):
        if self.on('kw_comments') and self.rng.random() < 0.6:
            self.feat('kw_comments')
            self.raw(' ' * self.rng.randint(0, 6) + self.kw_comment())
        elif self.on('blank_lines') and self.rng.random() < 0.5:
            self.raw('')

    def stmt(self, chunks, ind=2, joinable=False, label=False, nocont=False):
        """
        Emit one statement given as a list of text chunks; continuation breaks may be placed between chunks.
        """
        rng = self.rng
        merged = []
        for c in chunks:
            if c == '':
                continue
            if merged and (c.strip() == '' or merged[-1].strip() == ''):
                merged[-1] += c
            else:
                merged.append(c)
        chunks = merged
        indent = ' ' * (ind + rng.randint(0, 2))
        out = ''
        col_tail_comment = False
        nbreaks = 0
        linelen = len(indent) + 8
        for i, c in enumerate(chunks):
            out += c
            linelen += len(c)
            last = i == len(chunks) - 1
            forced = (not last and linelen + len(chunks[i + 1]) > 100)
            if forced or (not last and not nocont and self.on('continuation') and rng.random() < 0.12 and nbreaks < 4):
                linelen = len(indent) + 8
                nbreaks += 1
                self.feat('continuation')
                tail = ' &'
                if self.on('cont_comment') and rng.random() < 0.4:
                    tail += ' ' + self.kw_comment()
                    self.feat('cont_comment')
                out += tail + '\n'
                if self.on('cont_comment_line') and rng.random() < 0.3:
                    out += indent + self.kw_comment() + '\n'
                    self.feat('cont_comment_line')
                if self.on('cont_noamp') and rng.random() < 0.5:
                    out += indent + '   '
                    self.feat('cont_noamp')
                else:
                    out += indent + '  &' + self.sp(1)
        multi = '\n' in out
        lab = ''
        if label and self.on('labels') and rng.random() < 0.3:
            self.label += 10
            lab = f'{self.label} '
            self.feat('labels')
        # try to join with the pending statement
        if (joinable and not multi and not lab and self.pending is not None and self.pending[1]
                and self.on('semicolons') and rng.random() < 0.45 and len(self.pending[0]) + len(out) < 115):
            self.feat('semicolons')
            self.pending = (self.pending[0] + self.sp(1) + ';' + self.sp(1) + out, True)
            return
        self.flush()
        text = lab + indent + out if lab else indent + out
        if joinable and not multi:
            self.pending = (text, True)
            return
        if not multi and self.on('kw_comments') and rng.random() < 0.15:
            text += ' ' + self.kw_comment()
            self.feat('kw_comments')
            col_tail_comment = True
        self.lines.append(text)
        del col_tail_comment

    # ------------------------------------------------------------------ statements
    def end_stmt(self, kw, name, ind):
        """END <kw> [name] in its variants."""
        rng = self.rng
        if self.on('bare_end') and kw != 'type' and kw != 'interface' and rng.random() < 0.5:
            self.feat('bare_end')
            self.stmt([self.K('end')], ind, nocont=True)
            return
        e = self.K('end')
        sep = '' if (self.on('end_nospace') and kw not in ('interface',) and rng.random() < 0.5) else self.ws()
        if sep == '':
            self.feat('end_nospace')
        txt = e + sep + self.K(kw)
        if name is not None and not (self.on('end_noname') and rng.random() < 0.6):
            txt += ' ' + self.N(name)
        else:
            self.feat('end_noname')
        self.stmt([txt], ind, nocont=True)

    def use_stmt(self, unit, ind, mod):
        """Emit a USE statement importing from module info ``mod`` and record it in the model."""
        rng = self.rng
        cands = [(s, 'sub') for s in mod['subs']] + [(t, 'type') for t in mod['types']] + \
                [(p, 'par') for p in mod['params']] + [(g, 'gen') for g in mod['generics']] + \
                [(f, 'fun') for f in mod['funs']]
        form = rng.random()
        if self.f.get('imports_params_only'):
            # only named constants are imported (no procedure / type links across modules)
            cands = [c for c in cands if c[1] == 'par']
            form = 0.5
        head = [self.K('use')]
        nature = ''
        if self.on('use_double_colon') and rng.random() < 0.7:
            self.feat('use_double_colon')
            head = [self.K('use'), self.sp(1), '::']
            nature = '::'
        head += [self.ws() if not nature else self.sp(1), self.N(mod['name'])]
        imp = {'module': mod['name'].lower(), 'only': False, 'symbols': [], 'renames': [], 'tags': set()}
        if nature:
            imp['tags'].add('use_double_colon')
        local = {'subs': [], 'types': [], 'params': [], 'funs': [], 'generics': [], 'ops': [], 'subargs': {}}
        key = {'sub': 'subs', 'type': 'types', 'par': 'params', 'gen': 'generics', 'fun': 'funs'}
        if not cands or form < 0.2:
            # plain use of everything
            for k in key.values():
                local[k] = list(mod[k])
            local['ops'] = list(mod['ops'])
            local['subargs'] = dict(mod['subargs'])
            chunks = head
            self.feat('use_all')
        elif form < 0.8 or not self.on('rename_import'):
            rng.shuffle(cands)
            sel = cands[:rng.randint(1, min(4, len(cands)))]
            chunks = head + [self.sp(1) + ',' + self.sp(1), self.K('only'), self.sp(1) + ':' + self.sp(1)]
            imp['only'] = True
            items = []
            for s, kind in sel:
                if self.on('rename_import') and rng.random() < 0.35 and kind in ('sub', 'par', 'fun'):
                    ln = self.fresh('ln_')
                    items.append([self.N(ln), self.sp(1) + '=>' + self.sp(1), self.N(s)])
                    imp['symbols'].append((ln.lower(), s.lower()))
                    local[key[kind]].append(ln)
                    if kind == 'sub':
                        local['subargs'][ln] = mod['subargs'][s]
                    self.feat('rename_import')
                else:
                    items.append([self.N(s)])
                    imp['symbols'].append((s.lower(), ''))
                    local[key[kind]].append(s)
                    if kind == 'sub':
                        local['subargs'][s] = mod['subargs'][s]
            if self.on('operator_import') and mod['ops'] and rng.random() < 0.7 and not self.f.get('imports_params_only'):
                op = rng.choice(mod['ops'])
                items.insert(rng.randint(0, len(items)), [self.K('operator'), self.sp(1) + '(', op, ')'])
                imp['symbols'].append((f'operator({op})'.lower(), ''))
                local['ops'].append(op)
                self.feat('operator_import')
            for i, it in enumerate(items):
                if i:
                    chunks = chunks + [self.sp(1) + ',' + self.sp(1)]
                chunks = chunks + it
            self.feat('use_only')
        else:
            # rename list without ONLY: everything visible, some under new names
            ren = [c for c in cands if c[1] in ('sub', 'par', 'fun')]
            rng.shuffle(ren)
            ren = ren[:rng.randint(1, min(2, len(ren)))] if ren else []
            for k in key.values():
                local[k] = list(mod[k])
            local['ops'] = list(mod['ops'])
            local['subargs'] = dict(mod['subargs'])
            chunks = head
            for s, kind in ren:
                ln = self.fresh('rn_')
                chunks = chunks + [self.sp(1) + ',' + self.sp(1), self.N(ln), self.sp(1) + '=>' + self.sp(1), self.N(s)]
                imp['renames'].append((ln.lower(), s.lower()))
                local[key[kind]] = [x for x in local[key[kind]] if x != s] + [ln]
                if kind == 'sub':
                    local['subargs'][ln] = local['subargs'].pop(s)
            if ren:
                self.feat('use_rename_list')
            else:
                self.feat('use_all')
        unit['imports'].append(imp)
        self.stmt(chunks, ind, joinable=self.rng.random() < 0.3)
        return local

    def intrinsic_use(self, unit, ind):
        """use, intrinsic :: iso_c_binding, only: c_int   (gated)"""
        self.feat('use_nature')
        mod, sym_ = self.rng.choice([('iso_c_binding', 'c_int'), ('iso_fortran_env', 'int32')])
        nat = self.rng.choice(['intrinsic', 'intrinsic'])
        chunks = [self.K('use'), self.sp(1) + ',' + self.sp(1), self.K(nat), self.sp(1) + '::' + self.sp(1), self.N(mod),
                  ', ', self.K('only'), ': ', self.N(sym_)]
        unit['imports'].append({'module': mod, 'only': True, 'symbols': [(sym_, '')], 'renames': [],
                                'tags': {'use_nature'}})
        self.stmt(chunks, ind)

    # ------------------------------------------------------------------ routine bodies
    def expr_int(self, ivars, depth=0):
        rng = self.rng
        r = rng.random()
        if depth > 1 or r < 0.4:
            return rng.choice(ivars + [str(rng.randint(1, 9))])
        if r < 0.7:
            return f'({self.expr_int(ivars, depth + 1)}{self.sp(1)}{rng.choice("+-*")}{self.sp(1)}{self.expr_int(ivars, depth + 1)})'
        if r < 0.85:
            return f'{self.K("mod")}({self.expr_int(ivars, depth + 1)}, 7)'
        return f'{self.K("max")}({self.expr_int(ivars, depth + 1)}, ({self.expr_int(ivars, depth + 1)}))'

    def cond(self, ivars):
        a, b = self.expr_int(ivars), self.expr_int(ivars)
        op = self.rng.choice(['>', '<', '==', '/=', '.gt.', '.LE.'])
        c = f'{a} {op} {b}'
        if self.rng.random() < 0.3:
            c = f'({c}) {self.K(".and.")} ({self.expr_int(ivars)} >= 0)'
        return c

    def call_chunks(self, unit, env, ivars):
        """Choose a call target and return (chunks, recorded name)."""
        rng = self.rng
        opts = []
        if env['subs']:
            opts += ['sub'] * 3
        if env['internal']:
            opts += ['internal'] * 2
        if env['objs']:
            opts += ['bound'] * 3
        if env['generics']:
            opts += ['generic']
        opts += ['ext']
        kind = rng.choice(opts)
        kw = self.K('call')
        if kind == 'bound':
            obj, is_arr, nested, tinfo = rng.choice(env['objs'])
            bname, argk = rng.choice(tinfo['callable'])
            ref = self.N(obj)
            if is_arr:
                ref += '(' + rng.choice(['1', '2', '3', f'1 + mod(abs({self.expr_int(ivars)}), 3)']) + ')'
            pct = self.rng.choice(['%', ' % ', '%'])
            if nested:
                ref = ref + pct + self.N(nested)
            target = ref + pct + self.N(bname)
            arg = self.expr_int(ivars) if argk == 'int' else '1.5'
            name = (obj + ('%' + nested if nested else '') + '%' + bname).lower()
            self.feat('call_typebound')
            chunks = [kw, self.ws(), target, self.sp(1) + '(', arg, ')']
            return chunks, name
        if kind == 'generic':
            g = rng.choice(env['generics'])
            arg = rng.choice([self.expr_int(ivars), '2.5'])
            self.feat('call_generic')
            return [kw, self.ws(), self.N(g), '(', arg, ')'], g.lower()
        if kind == 'sub':
            s, nargs = rng.choice(env['subs'])
        elif kind == 'internal':
            s, nargs = rng.choice(env['internal'])
        else:
            self.ext_count += 1
            s = rng.choice(['ext_a', 'ext_b', 'ext_sub3', self.rng.choice(KW_IDENTS) + '_x'])
            sig = {'ext_a': '', 'ext_b': 'ii', 'ext_sub3': 'isi'}.get(s, 'i')
            nargs = len(sig)
        args = []
        for i in range(nargs):
            if kind == 'ext' and sig[i] == 's':
                args.append(self.kw_string() if self.on('kw_strings') else "'plain'")
            else:
                args.append(self.expr_int(ivars))
        if kind in ('sub', 'internal') and nargs == 2 and rng.random() < 0.25 and not env.get('renamed_subs', {}).get(s):
            args[1] = f'{self.N("ib")}{self.sp(1)}={self.sp(1)}({args[1]})'
            self.feat('call_keyword_arg')
        chunks = [kw, self.ws(), self.N(s)]
        if args or rng.random() < 0.7:
            chunks += [self.sp(1) + '(' + self.sp(1)]
            for i, a in enumerate(args):
                if i:
                    chunks.append(self.sp(1) + ',' + self.sp(1))
                chunks.append(a)
            chunks += [self.sp(1) + ')']
        else:
            self.feat('call_noparen')
        return chunks, s.lower()

    def body(self, unit, env, ind, nstmts, ivars, depth=0):
        rng = self.rng
        if len(self.lines) > self.f.get('line_budget', 220):
            nstmts, depth = 1, 2          # over budget: one flat statement
        for _ in range(nstmts):
            r = rng.random()
            if r < 0.32:
                ch, name = self.call_chunks(unit, env, ivars)
                unit['calls'].append(name)
                self.stmt(ch, ind, joinable=True, label=True)
            elif r < 0.45 and self.on('inline_if'):
                ch, name = self.call_chunks(unit, env, ivars)
                unit['calls'].append(name)
                c = self.cond(ivars)
                if self.on('if_string_paren') and rng.random() < 0.6 and env.get('cvar'):
                    self.feat('if_string_paren')
                    unit['tags'].add('if_string_paren')
                    c = f"{env['cvar']} == ') call fake_p1(' {self.K('.or.')} {c}"
                self.feat('inline_if_call')
                self.stmt([self.K('if'), self.sp(1) + '(', c, ')' + self.sp(2)] + ch, ind, joinable=True, label=True)
            elif r < 0.55:
                v = rng.choice(ivars[:2])
                self.stmt([self.N(v), ' = ', self.expr_int(ivars)], ind, joinable=True, label=True)
            elif r < 0.62 and self.on('kw_strings'):
                self.stmt([self.K('print'), ' *, ', self.kw_string(), ', ', rng.choice(ivars)], ind, joinable=True)
            elif r < 0.68 and self.on('ident_call_prefix'):
                self.feat('ident_call_prefix')
                unit['tags'].add('ident_call_prefix')
                self.stmt(['callcount', ' = ', 'callcount + 1'], ind, joinable=True)
            elif r < 0.78 and depth < 2:
                # block if with calls in both branches
                self.stmt([self.K('if'), ' (', self.cond(ivars), ') ', self.K('then')], ind, joinable=True)
                self.body(unit, env, ind + 2, 1, ivars, depth + 1)
                if rng.random() < 0.5:
                    if rng.random() < 0.3:
                        self.stmt([self.K('else if'), ' (', self.cond(ivars), ') ', self.K('then')], ind, joinable=True)
                        self.body(unit, env, ind + 2, 1, ivars, depth + 1)
                    self.stmt([self.K('else')], ind, joinable=True)
                    self.body(unit, env, ind + 2, 1, ivars, depth + 1)
                self.stmt([self.K(rng.choice(['end if', 'endif']))], ind, joinable=True)
                self.feat('block_if')
            elif r < 0.86 and depth < 2:
                lv = ['jl', 'jm', 'jn'][depth]
                self.stmt([self.K('do'), ' ', lv, ' = 1, ', self.expr_int(ivars[:2])], ind)
                self.body(unit, env, ind + 2, 1, [v for v in ivars], depth + 1)
                self.stmt([self.K(rng.choice(['end do', 'enddo']))], ind)
                self.feat('do_loop')
            elif r < 0.92 and depth < 2:
                self.stmt([self.K('select case'), ' (', self.expr_int(ivars), ')'], ind)
                for cv in ('(1)', None):
                    # joinable: a call may follow on the same line as the CASE via ';'
                    if cv:
                        self.stmt([self.K('case'), ' ', cv], ind, joinable=True)
                    else:
                        self.stmt([self.K('case default')], ind, joinable=True)
                    self.body(unit, env, ind + 2, 1, ivars, depth + 1)
                self.stmt([self.K('end select')], ind)
                self.feat('select_case')
            elif self.on('assoc') and depth < 2 and env['objs']:
                obj, is_arr, nested, tinfo = rng.choice(env['objs'])
                if not is_arr and not nested:
                    self.stmt([self.K('associate'), ' (', 'zz => ', obj + '%' + tinfo['comp'], ')'], ind)
                    self.body(unit, env, ind + 2, rng.randint(1, 2), ivars, depth + 1)
                    self.stmt([self.K('end associate')], ind)
                    self.feat('associate')
            else:
                self.comment_line()
            if rng.random() < 0.15:
                self.comment_line()
            if self.on('pragmas') and rng.random() < 0.08:
                self.raw(' ' * ind + '!$loki dummy-pragma call fake_pr(1)')
                self.feat('pragmas')

    def routine(self, parent_model, env, ind, kind, name, spec_extra=None, args=None, arg_decls=None,
                allow_internal=True, result=None, prefix=None, body_stmts=None, tags=(), nst=None):
        """
        Emit a subroutine/function and return its model.  ``env`` describes callable things visible from the
        host; ``args``/``arg_decls`` give fixed dummy arguments (bindings, generics), else (ia, ib).
        """
        rng = self.rng
        unit = new_unit(kind, name)
        unit['tags'].update(tags)
        parent_model['children'].append(unit)
        args = list(args) if args is not None else ['ia', 'ib']
        arg_decls = list(arg_decls) if arg_decls is not None else [
            [self.K('integer'), ', ', self.K('intent'), '(', self.K('in'), ') :: ', 'ia, ib']]
        # header
        pre = []
        if prefix:
            pre = [prefix + ' ']
        elif self.on('prefixes') and rng.random() < 0.5 and kind == 'subroutine':
            pre = [self.K(rng.choice(['recursive', 'impure'])) + self.ws()]
            self.feat('prefix_sub')
        hdr = pre + [self.K(kind), self.ws(), self.N(name)]
        if args or kind == 'function' or rng.random() < 0.7:
            hdr += [self.sp(1) + '(']
            for i, a in enumerate(args):
                if i:
                    hdr.append(',' + self.sp(1))
                hdr.append(a)
            hdr += [')']
        if result:
            hdr += [' ', self.K('result'), '(', result, ')']
        self.stmt(hdr, ind)
        env = dict(env)
        env['internal'] = []
        env['objs'] = list(env.get('objs', []))
        env['subs'] = [x for x in env['subs'] if x[0].lower() != name.lower()]
        env['generics'] = list(env['generics'])
        b = ind + 2
        # imports inside the routine
        if self.on('use_in_routine') and self.modules and rng.random() < 0.5 and not env.get('no_use'):
            cand = [m for m in self.modules if m['name'] != env.get('host_module') and m['name'] not in env.get('used', ())]
            if cand:
                m = rng.choice(cand)
                loc = self.use_stmt(unit, b, m)
                env['subs'] += [(s, loc['subargs'][s]) for s in loc['subs']]
                self.feat('use_in_routine')
        if self.on('use_nature') and rng.random() < 0.4:
            self.intrinsic_use(unit, b)
        if env.get('import_stmt'):
            self.stmt([self.K('import'), ' :: ', env['import_stmt']], b)
        self.stmt([self.K('implicit none')], b, joinable=True)
        for d in arg_decls:
            self.stmt(d, b, joinable=True)
        if body_stmts is None and not env.get('iface_body'):
            self.stmt([self.K('integer'), ' :: ', 'i1, i2, jl, jm, jn'], b, joinable=True)
            env['cvar'] = None
            if rng.random() < 0.5:
                self.stmt([self.K('character'), '(', self.K('len'), '=16) :: ', 'cmsg'], b, joinable=True)
                env['cvar'] = 'cmsg'
            if self.on('ident_call_prefix'):
                self.stmt([self.K('integer'), ' :: ', 'callcount = 0'], b)
            if self.on('inline_kwargs'):
                self.stmt([self.K('integer'), ' :: ', 'larr(3)'], b)
            # local objects of derived types
            for t in env.get('types', []):
                if rng.random() < 0.6 and t['callable']:
                    on_ = self.fresh('ob_')
                    arr = rng.random() < 0.3
                    self.stmt([self.K('type'), '(', self.N(t['name']), ') :: ', on_ + ('(3)' if arr else '')], b)
                    env['objs'].append((on_, arr, None, t))
                    if t.get('holder'):
                        pass
            for h in env.get('holders', []):
                if rng.random() < 0.4:
                    on_ = self.fresh('hd_')
                    self.stmt([self.K('type'), '(', self.N(h['name']), ') :: ', on_], b)
                    env['objs'].append((on_, False, h['member'], h['inner']))
            if self.on('typedef_in_routine') and rng.random() < 0.6:
                self.feat('typedef_in_routine')
                tn = self.fresh('lt_')
                self.stmt([self.K('type'), ' :: ', tn], b)
                self.stmt([self.K('integer'), ' :: ', 'lcomp'], b + 2)
                self.end_stmt('type', tn, b)
                unit['typedefs'].append({'name': tn.lower(), 'bindings': [], 'generics': [], 'finals': [],
                                         'tags': {'typedef_in_routine'}})
            if spec_extra:
                spec_extra(unit, b)
            if self.on('interfaces') and rng.random() < 0.25 and not env.get('is_internal'):
                # explicit interface block for an external routine
                en = self.fresh('xt_')
                self.stmt([self.K('interface')], b)
                im = {'spec': '', 'abstract': False, 'procedures': [], 'bodies': [en.lower()], 'tags': set()}
                sub = new_unit('subroutine', en)
                self.stmt([self.K('subroutine'), ' ', self.N(en), '(', 'xa', ')'], b + 2)
                self.stmt([self.K('integer'), ' :: ', 'xa'], b + 4)
                self.end_stmt('subroutine', en, b + 2)
                self.end_stmt('interface', None, b)
                del sub
                unit['interfaces'].append(im)
                env['subs'].append((en, 1))
                self.feat('interface_in_routine')
            if self.on('interface_in_internal') and env.get('is_internal'):
                self.feat('interface_in_internal')
                en = self.fresh('xi_')
                self.stmt([self.K('interface')], b)
                self.stmt([self.K('subroutine'), ' ', self.N(en), '(', 'xa', ')'], b + 2)
                self.stmt([self.K('integer'), ' :: ', 'xa'], b + 4)
                self.end_stmt('subroutine', en, b + 2)
                self.end_stmt('interface', None, b)
                unit['interfaces'].append({'spec': '', 'abstract': False, 'procedures': [], 'bodies': [en.lower()],
                                           'tags': set()})
            ivars = ['i1', 'i2', 'jl'] + [a for a in args if a in ('ia', 'ib')]
            # internal procedure names are known before the body is generated
            internals = []
            if allow_internal == 'force':
                self.feat('nested_contains_last')
            if allow_internal == 'force':
                internals.append((self.fresh('in_'), kind))
            elif allow_internal and self.on('internal') and rng.random() < 0.5 and len(self.lines) < self.f.get('line_budget', 220):
                kinds = ['subroutine', 'subroutine', 'function']
                if isinstance(allow_internal, (set, frozenset)):
                    kinds = [k for k in kinds if k in allow_internal]
                for _ in range(rng.randint(1, 2) if kinds else 0):
                    internals.append((self.fresh('in_'), rng.choice(kinds)))
                env['internal'] = [(n, 2) for n, k in internals if k == 'subroutine']
            self.stmt(['i1', ' = ', '1'], b, joinable=True)
            self.stmt(['i2', ' = ', '2'], b, joinable=True)
            self.stmt(['jl', ' = ', '0'], b, joinable=True)
            if self.on('stop_stmt'):
                self.feat('stop_stmt')
                self.stmt([self.K('if'), ' (i1 < 0) ', self.K('stop'), ' 1'], b, joinable=True)
            if self.on('inline_kwargs'):
                self.feat('inline_kwargs')
                self.stmt(['i2', ' = ', self.K('size'), '(larr, ', self.K('dim'), '=1)'], b, joinable=True)
            if env['cvar']:
                if self.on('string_continuation') and rng.random() < 0.7:
                    self.feat('string_continuation')
                    self.flush()
                    self.lines.append(' ' * b + "cmsg = 'abc; call fake_sc( &")
                    self.lines.append(' ' * b + "   &def'")
                else:
                    self.stmt(['cmsg', ' = ', self.kw_string() if self.on('kw_strings') else "'x'"], b, joinable=True)
            if kind == 'function' and result is None:
                self.stmt([self.N(name), ' = ', '0'], b)
            elif kind == 'function':
                self.stmt([result, ' = ', '0'], b)
            if nst is None:
                nst = rng.randint(1, 1 + 2 * self.f.get('size', 1))
            if env.get('is_internal'):
                nst = rng.randint(1, 2)
            self.body(unit, env, b, nst, ivars, depth=1 if env.get('is_internal') else 0)
            if internals:
                self.stmt([self.K('contains')], ind, nocont=True)
                self.feat('internal_procedures')
                ienv = dict(env)
                ienv['is_internal'] = True
                ienv['no_use'] = rng.random() < 0.7
                for n, k in internals:
                    self.comment_line()
                    if k == 'subroutine':
                        self.routine(unit, ienv, b, 'subroutine', n, allow_internal=False)
                    else:
                        self.function(unit, ienv, b, n, allow_internal=False)
        elif body_stmts is not None:
            for s in body_stmts:
                self.stmt(s, b, joinable=True)
        self.end_stmt(kind, name, ind)
        return unit

    def function(self, parent_model, env, ind, name, allow_internal=True, tags=()):
        rng = self.rng
        prefix = None
        res = None
        decls = [[self.K('integer'), ', ', self.K('intent'), '(', self.K('in'), ') :: ', 'ia, ib']]
        tags = set(tags)
        if self.on('prefix_special') and rng.random() < 0.7:
            self.feat('prefix_special')
            tags.add('prefix_special')
            if rng.random() < 0.5:
                prefix = self.K('character') + '(' + self.K('len') + '=4, ' + self.K('kind') + '=1)'
                val = "'r'"
            else:
                prefix = self.K('integer') + '(' + self.K('kind') + '=2*2)'
                val = '1'
            return self.routine(parent_model, env, ind, 'function', name, args=['ia', 'ib'], arg_decls=decls,
                                allow_internal=False, prefix=prefix, tags=tags,
                                body_stmts=[[self.N(name), ' = ', val]])
        if self.on('prefixes') and rng.random() < 0.7:
            self.feat('prefix_fun')
            prefix = rng.choice([
                self.K('pure') + ' ' + self.K('elemental') + ' ' + self.K('integer'),
                self.K('integer'), self.K('pure') + self.ws() + self.K('integer') + '(' + self.K('kind') + '=4)',
                self.K('elemental') + '  ' + self.K('integer') + '(4)', self.K('recursive') + ' ' + self.K('integer'),
                self.K('integer') + ' ' + self.K('pure'),
            ])
            pure = 'pure' in prefix.lower() or 'elemental' in prefix.lower()
            if pure:
                return self.routine(parent_model, env, ind, 'function', name, args=['ia', 'ib'], arg_decls=decls,
                                    allow_internal=False, prefix=prefix, tags=tags,
                                    body_stmts=[[self.N(name), ' = ', 'ia + ', '(ib*2)']])
            return self.routine(parent_model, env, ind, 'function', name, args=['ia', 'ib'], arg_decls=decls,
                                allow_internal=allow_internal, prefix=prefix, tags=tags)
        res = 'rv'
        decls = decls + [[self.K('integer'), ' :: ', 'rv']]
        return self.routine(parent_model, env, ind, 'function', name, args=['ia', 'ib'], arg_decls=decls,
                            allow_internal=allow_internal, result=res, tags=tags)

    # ------------------------------------------------------------------ modules
    def module(self, top, idx):
        rng = self.rng
        name = self.fresh('hmod_')
        info = {'name': name, 'subs': [], 'funs': [], 'types': [], 'params': [], 'generics': [], 'ops': [],
                'subargs': {}, 'typeinfo': {}}
        unit = new_unit('module', name)
        top.append(unit)
        self.comment_line()
        self.stmt([self.K('module'), self.ws(), self.N(name)], 0, nocont=True)
        env = {'subs': [], 'generics': [], 'objs': [], 'types': [], 'holders': [], 'host_module': name, 'used': []}
        # imports
        avail = list(self.modules)
        rng.shuffle(avail)
        for m in avail[:rng.randint(0, 2)]:
            loc = self.use_stmt(unit, 2, m)
            env['used'].append(m['name'])
            env['subs'] += [(s, loc['subargs'][s]) for s in loc['subs']]
            for t in loc['types']:
                env['types'].append(m['typeinfo'][t])
            env['generics'] += loc['generics']
        if self.on('use_nature') and rng.random() < 0.7:
            self.intrinsic_use(unit, 2)
        self.stmt([self.K('implicit none')], 2, joinable=True)
        if rng.random() < 0.3:
            self.stmt([self.K('public')], 2, joinable=True)
        # parameters / strings
        pn = self.fresh('kp_')
        self.stmt([self.K('integer'), ', ', self.K('parameter'), ' :: ', self.N(pn), ' = ', str(rng.randint(1, 9))], 2, joinable=True)
        info['params'].append(pn)
        if self.on('kw_strings') and rng.random() < 0.6:
            sn = self.fresh('cs_')
            self.stmt([self.K('character'), '(', self.K('len'), '=*), ', self.K('parameter'), ' :: ', sn, ' = ', self.kw_string()], 2)
        if self.on('string_type_keyword') and rng.random() < 0.8:
            self.feat('string_type_keyword')
            unit['tags'].add('string_type_keyword')
            sn = self.fresh('ct_')
            self.stmt([self.K('character'), '(', self.K('len'), '=*), ', self.K('parameter'), ' :: ', sn, ' = ',
                       rng.choice(['"type fake_t"', "'end type fake_u; type fake_v'"])], 2)
        pending_routines = []     # closures that emit the module procedures after CONTAINS

        # ---- derived types
        ntypes = rng.choice([0, 1, 1, 1, 2]) if self.on('typebound') else rng.randint(0, 1)
        if self.f.get('no_typedefs'):
            ntypes = 0
        for _ in range(ntypes):
            tn = self.fresh('ty_')
            td = {'name': tn.lower(), 'bindings': [], 'generics': [], 'finals': [], 'tags': set()}
            tinfo = {'name': tn, 'callable': [], 'comp': 'ic', 'bind_impl': []}
            attrs = ''
            parent_t = None
            if self.on('extends') and info['types'] and rng.random() < 0.5:
                parent_t = rng.choice(info['types'])
                attrs = ', ' + self.K('extends') + '(' + self.N(parent_t) + ')'
                self.feat('extends')
            if rng.random() < 0.3:
                attrs += ', ' + self.K('public')
            form = rng.random()
            if attrs or form < 0.5:
                self.stmt([self.K('type'), attrs, self.sp(1) + '::' + self.sp(1), self.N(tn)], 2)
            else:
                self.stmt([self.K('type'), self.ws(), self.N(tn)], 2)
            comp = 'ic' if not parent_t else self.fresh('ic_')
            tinfo['comp'] = comp
            self.stmt([self.K('integer'), ' :: ', comp, ' = 0'], 4, joinable=True)
            if rng.random() < 0.5:
                self.stmt([self.K('real'), ' :: ', self.fresh('rc_'), '(3)'], 4, joinable=True)
            if parent_t:
                tinfo['callable'] = list(info['typeinfo'][parent_t]['callable'])
            if self.on('typebound') and rng.random() < 0.8:
                self.stmt([self.K('contains')], 2, nocont=True)
                self.feat('typebound')
                nb = rng.choice([1, 2, 2])
                bound = []
                for bi in range(nb):
                    impl = self.fresh('tb_')
                    if self.on('kw_binding_nocolon') and bi == 0:
                        impl = rng.choice(['subroutine_x', 'function_y']) + f'_{self.ncount}'
                        self.names.add(impl)
                    argk = 'int' if bi % 2 == 0 else 'real'
                    bname = impl
                    renamed = rng.random() < 0.5 and not (self.on('kw_binding_nocolon') and bi == 0)
                    if renamed:
                        bname = self.fresh('bn_')
                    attrs_b = ''
                    tags_b = set()
                    r = rng.random()
                    if self.on('binding_attr_paren') and r < 0.7:
                        attrs_b = ', ' + self.K('pass') + '(self)'
                        self.feat('binding_attr_paren')
                        tags_b.add('binding_attr_paren')
                    elif r < 0.3:
                        attrs_b = ', ' + self.K(rng.choice(['pass', 'public', 'non_overridable']))
                    ch = [self.K('procedure'), attrs_b]
                    kwname = 'subroutine' in bname.lower() or 'function' in bname.lower()
                    if self.on('kw_binding_nocolon') and bi == 0 and not attrs_b and not renamed and kwname:
                        ch.append(' ')
                        self.feat('kw_binding_nocolon')
                        unit['tags'].add('kw_binding_nocolon')
                    elif attrs_b or renamed or kwname or rng.random() < 0.8:
                        ch.append(self.sp(1) + '::' + self.sp(1))
                    else:
                        ch.append(' ')
                    ch.append(self.N(bname))
                    if renamed:
                        ch += [self.sp(1) + '=>' + self.sp(1), self.N(impl)]
                        self.feat('binding_rename')
                    self.stmt(ch, 4)
                    td['bindings'].append({'name': bname.lower(), 'target': impl.lower() if renamed else '',
                                           'tags': tags_b})
                    tinfo['callable'].append((bname, argk))
                    bound.append((bname, argk))
                    pending_routines.append(('bound', impl, tn, argk))
                if self.on('generics') and len(bound) >= 2 and rng.random() < 0.7:
                    gn = self.fresh('gb_')
                    a_, b_ = bound[0][0], bound[1][0]
                    self.stmt([self.K('generic'), rng.choice(['', ', ' + self.K('public')]), ' :: ', self.N(gn), ' => ',
                               self.N(a_), self.sp(1) + ',' + self.sp(1), self.N(b_)], 4)
                    td['generics'].append({'name': gn.lower(), 'targets': sorted([a_.lower(), b_.lower()]), 'tags': set()})
                    self.feat('generic_binding')
                if self.on('deferred_binding') and False:
                    pass
                if self.on('generic_operator') and rng.random() < 0.8:
                    self.feat('generic_operator')
                    impl = self.fresh('tf_')
                    self.stmt([self.K('procedure'), ' :: ', self.N(impl)], 4)
                    td['bindings'].append({'name': impl.lower(), 'target': '', 'tags': set()})
                    self.stmt([self.K('generic'), ' :: ', self.K('operator'), '(+)', ' => ', self.N(impl)], 4)
                    td['generics'].append({'name': 'operator(+)', 'targets': [impl.lower()], 'tags': {'generic_operator'}})
                    pending_routines.append(('opfun', impl, tn, None))
                if self.on('final_binding') and rng.random() < 0.8:
                    self.feat('final_binding')
                    impl = self.fresh('fin_')
                    self.stmt([self.K('final'), ' :: ', self.N(impl)], 4)
                    td['finals'].append({'name': impl.lower(), 'tags': {'final_binding'}})
                    pending_routines.append(('final', impl, tn, None))
            self.end_stmt('type', tn, 2)
            unit['typedefs'].append(td)
            info['types'].append(tn)
            info['typeinfo'][tn] = tinfo
            env['types'].append(tinfo)
            # a holder type with a member of this type (for obj%member%binding calls)
            if tinfo['callable'] and rng.random() < 0.3:
                hn = self.fresh('th_')
                self.stmt([self.K('type'), ' :: ', self.N(hn)], 2)
                self.stmt([self.K('type'), '(', self.N(tn), ') :: ', 'mem'], 4)
                self.end_stmt('type', hn, 2)
                unit['typedefs'].append({'name': hn.lower(), 'bindings': [], 'generics': [], 'finals': [], 'tags': set()})
                info['types'].append(hn)
                info['typeinfo'][hn] = {'name': hn, 'callable': [], 'comp': 'mem'}
                env['holders'].append({'name': hn, 'member': 'mem', 'inner': tinfo})

        # ---- abstract type with deferred binding (gated)
        if self.on('deferred_binding'):
            self.feat('deferred_binding')
            an, ifn, bn = self.fresh('ta_'), self.fresh('ai_'), self.fresh('db_')
            self.stmt([self.K('type'), ', ', self.K('abstract'), ' :: ', self.N(an)], 2)
            self.stmt([self.K('integer'), ' :: ', 'ic'], 4)
            self.stmt([self.K('contains')], 2, nocont=True)
            self.stmt([self.K('procedure'), '(', self.N(ifn), '), ', self.K('deferred'), ' :: ', self.N(bn)], 4)
            self.end_stmt('type', an, 2)
            unit['typedefs'].append({'name': an.lower(), 'generics': [], 'finals': [], 'tags': set(),
                                     'bindings': [{'name': bn.lower(), 'target': '*', 'tags': {'deferred_binding'}}]})
            self.stmt([self.K('abstract'), ' ', self.K('interface')], 2)
            self.stmt([self.K('subroutine'), ' ', self.N(ifn), '(self)'], 4)
            self.stmt([self.K('import'), ' :: ', self.N(an)], 6)
            self.stmt([self.K('class'), '(', self.N(an), '), ', self.K('intent'), '(', self.K('in'), ') :: ', 'self'], 6)
            self.end_stmt('subroutine', ifn, 4)
            self.end_stmt('interface', None, 2)
            unit['interfaces'].append({'spec': '', 'abstract': True, 'procedures': [], 'bodies': [ifn.lower()], 'tags': set()})

        # ---- interfaces
        if self.on('interfaces'):
            r = rng.random()
            if r < 0.6:
                gn = self.fresh('gi_')
                a_, b_ = self.fresh('ga_'), self.fresh('gb_')
                self.stmt([self.K('interface'), self.ws(), self.N(gn)], 2)
                im = {'spec': gn.lower(), 'abstract': False, 'procedures': [], 'bodies': [], 'tags': set()}
                if rng.random() < 0.5:
                    self.stmt([self.K('module'), self.ws(), self.K('procedure'), rng.choice([' ', ' :: ']), self.N(a_),
                               self.sp(1) + ',' + self.sp(1), self.N(b_)], 4)
                else:
                    self.stmt([self.K('module'), ' ', self.K('procedure'), ' ', self.N(a_)], 4, joinable=True)
                    self.stmt([self.K('procedure'), rng.choice([' ', ' :: ']), self.N(b_)], 4, joinable=True)
                im['procedures'] = sorted([a_.lower(), b_.lower()])
                self.feat('module_procedure')
                if rng.random() < 0.5:
                    self.end_stmt('interface', gn, 2)
                else:
                    self.end_stmt('interface', None, 2)
                unit['interfaces'].append(im)
                info['generics'].append(gn)
                env['generics'].append(gn)
                pending_routines.append(('plain_int', a_, None, None))
                pending_routines.append(('plain_real', b_, None, None))
            if rng.random() < 0.4:
                # operator interface
                self.ncount += 1
                op = '.op' + ''.join('abcdefghij'[int(d)] for d in str(self.ncount)) + '.'
                fn = self.fresh('of_')
                self.stmt([self.K('interface'), ' ', self.K('operator'), self.sp(1) + '(', op, ')'], 2)
                self.stmt([self.K('module procedure'), ' ', self.N(fn)], 4)
                self.end_stmt('interface', None, 2)
                unit['interfaces'].append({'spec': f'operator({op})'.lower(), 'abstract': False,
                                           'procedures': [fn.lower()], 'bodies': [], 'tags': set()})
                info['ops'].append(op)
                pending_routines.append(('intop', fn, None, None))
                self.feat('operator_interface')
            if rng.random() < 0.3:
                # abstract interface with a function body
                ifn = self.fresh('af_')
                self.stmt([self.K('abstract'), self.ws(), self.K('interface')], 2)
                self.stmt([self.K('integer'), ' ', self.K('function'), ' ', self.N(ifn), '(xa)'], 4)
                self.stmt([self.K('integer'), ', ', self.K('intent'), '(in) :: ', 'xa'], 6)
                self.end_stmt('function', ifn, 4)
                self.end_stmt('interface', None, 2)
                unit['interfaces'].append({'spec': '', 'abstract': True, 'procedures': [], 'bodies': [ifn.lower()], 'tags': set()})
                self.feat('abstract_interface')

        # ---- module procedures
        nplain = rng.randint(1, self.f.get('size', 1))
        plain = [(self.fresh('ms_'), 'subroutine') for _ in range(nplain)]
        if self.on('kw_unit_name'):
            self.ncount += 1
            plain.append((f'subroutine_x{self.ncount}', 'function'))
            self.feat('kw_unit_name')
            unit['tags'].add('kw_unit_name')
        elif rng.random() < 0.6:
            plain.append((self.fresh('mf_'), 'function'))
        self.comment_line()
        self.stmt([self.K('contains')], 0, nocont=True)
        # all module subroutines are callable from each other
        env['subs'] += [(n, 2) for n, k in plain if k == 'subroutine']
        seq_kinds = [('function' if w in ('opfun', 'intop') else 'subroutine') for w, *_ in pending_routines] + \
                    [k for _, k in plain]
        if self.on('nested_contains_last'):
            seq_kinds[-1] = 'subroutine'

        def allowed_internal(pos):
            # a module procedure of kind K gets internal procedures of kind K only if a later module procedure of
            # kind K follows (the REGEX module pattern otherwise runs into the next module: gated feature)
            k = seq_kinds[pos]
            return {'subroutine', 'function'} if k in seq_kinds[pos + 1:] else {'subroutine', 'function'} - {k}
        for pos, (what, impl, tn, argk) in enumerate(pending_routines):
            self.comment_line()
            if what == 'bound':
                decl = [[self.K('class'), '(', self.N(tn), '), ', self.K('intent'), '(inout) :: ', 'self'],
                        [self.K('integer') if argk == 'int' else self.K('real'), ', ', self.K('intent'), '(in) :: ', 'va']]
                benv = dict(env)
                self.routine(unit, benv, 2, 'subroutine', impl, args=['self', 'va'], arg_decls=decl,
                             allow_internal=allowed_internal(pos) if rng.random() < 0.3 else False, nst=rng.randint(1, 2))
            elif what == 'final':
                decl = [[self.K('type'), '(', self.N(tn), '), ', self.K('intent'), '(inout) :: ', 'self']]
                self.routine(unit, env, 2, 'subroutine', impl, args=['self'], arg_decls=decl,
                             body_stmts=[['self%ic', ' = ', '0']])
            elif what == 'opfun':
                decl = [[self.K('class'), '(', self.N(tn), '), ', self.K('intent'), '(in) :: ', 'self'],
                        [self.K('integer'), ', ', self.K('intent'), '(in) :: ', 'va'], [self.K('integer'), ' :: ', 'rv']]
                self.routine(unit, env, 2, 'function', impl, args=['self', 'va'], arg_decls=decl, result='rv',
                             body_stmts=[['rv', ' = ', 'self%ic + va']])
            elif what == 'intop':
                decl = [[self.K('integer'), ', ', self.K('intent'), '(in) :: ', 'ia, ib'], [self.K('integer'), ' :: ', 'rv']]
                self.routine(unit, env, 2, 'function', impl, args=['ia', 'ib'], arg_decls=decl, result='rv',
                             prefix=self.K('pure'), body_stmts=[['rv', ' = ', 'ia + ib']])
                info['funs'].append(impl)
            else:
                ty = self.K('integer') if what == 'plain_int' else self.K('real')
                decl = [[ty, ', ', self.K('intent'), '(in) :: ', 'va']]
                self.routine(unit, env, 2, 'subroutine', impl, args=['va'], arg_decls=decl,
                             allow_internal=allowed_internal(pos) if rng.random() < 0.3 else False, nst=rng.randint(1, 2))
                if what == 'plain_int':
                    info['subs'].append(impl)
                    info['subargs'][impl] = 1
        for i, (n, k) in enumerate(plain):
            self.comment_line()
            # the last module procedure has internal procedures only in the gated slice
            last = i == len(plain) - 1
            internal_ok = allowed_internal(len(pending_routines) + i)
            tags = ()
            if last and self.on('nested_contains_last'):
                k = 'subroutine'
                internal_ok = 'force'
                tags = ('nested_contains_last',)
                unit['tags'].add('nested_contains_last')
            if k == 'subroutine':
                self.routine(unit, env, 2, 'subroutine', n, allow_internal=internal_ok, tags=tags)
                info['subs'].append(n)
                info['subargs'][n] = 2
            else:
                self.function(unit, env, 2, n, allow_internal=internal_ok)
                info['funs'].append(n)
        self.end_stmt('module', name, 0)
        self.modules.append(info)
        return unit

    def free_routine(self, top):
        rng = self.rng
        env = {'subs': [], 'generics': [], 'objs': [], 'types': [], 'holders': [], 'host_module': None, 'used': []}

        def spec_extra(unit, b):
            pass
        name = self.fresh('fr_')
        holder = {'children': []}
        self.comment_line()
        # imports are emitted by routine() (use_in_routine); force one when modules exist
        saved = self.f.get('use_in_routine')
        self.f['use_in_routine'] = bool(self.modules)
        if rng.random() < 0.75:
            u = self.routine(holder, env, 0, 'subroutine', name, spec_extra=spec_extra)
        else:
            u = self.function(holder, env, 0, name)
        self.f['use_in_routine'] = saved
        top.append(u)
        return u

    def generate(self):
        rng = self.rng
        top = []
        if self.on('leading_comment'):
            self.raw('! file header comment: call fake_h0(1); end module')
            self.feat('leading_comment')
        nmod = rng.choice([1, 1, 2]) if self.f.get('size', 1) < 3 else rng.choice([2, 3])
        if self.on('nested_contains_last'):
            nmod = max(nmod, 2)
        nfree = rng.choice([0, 1, 1, 2]) if self.f.get('size', 1) > 1 else rng.choice([0, 0, 1])
        plan = ['m'] * nmod + ['f'] * nfree
        # the first unit is a module in most cases so later units have something to import
        first = plan.pop(0)
        rng.shuffle(plan)
        plan.insert(0, first)
        for i, p in enumerate(plan):
            if p == 'm':
                self.module(top, i)
            else:
                self.free_routine(top)
            self.flush()
            if self.on('blank_lines') and rng.random() < 0.5:
                self.raw('')
        self.flush()
        text = '\n'.join(self.lines) + '\n'
        return HCase(text=text, model=top, features=set(self.features), risky=set(self.risky), flags=dict(self.f))
