"""
Project generator for C34 (call-signature rewrites preserve behaviour).

``SigGen(rng, flags).generate()`` returns a ``SigCase``: a 3-4 file Fortran project

    tmod.F90   kinds, derived types (leaf_t / mid_t / top_t with nested components, arrays of components,
               allocatable / pointer / fixed-size members, plain_t without any of them) and their type-bound
               procedures (specific, renamed, generic, nested ``a%b%proc()``)
    kmod.F90   (optionally also kmod2.F90) kernels k1..kN forming a call DAG of depth 1-3
    dmod.F90   ``driver`` (role ``driver``); its signature is never changed by the C34 transformations
    main.F90   PROGRAM (never shown to Loki): reads ``n m seed``, allocates and fills everything with
               non-linear data, calls ``driver`` and prints every output in full

Programs are well-defined by construction: every array has extent ``n`` (dim 1) / ``m`` (dim 2), loops run over
``1..n`` / ``1..m`` shifted by the declared lower bound, everything is initialised by main, a call never passes
overlapping storage when one of the actuals is written (storage *paths*: a path conflicts with its prefixes),
values are damped (coefficients < 1).

``flags['mode']`` selects which features the program concentrates on (the transformation is chosen by the check):
``dt`` derived-type arguments, ``tb`` type-bound calls, ``seq`` scalar-element actuals for explicit-shape dummies,
``shape`` assumed-shape dummies, ``dup`` duplicated read-only actuals.  ``flags['hazard']`` names at most one
construct with a suspected/known defect mechanism (see HAZARDS); hazards are only generated on request.
"""
# pylint: disable=too-many-lines,too-many-branches,too-many-locals,too-many-statements,too-many-instance-attributes
import re
from dataclasses import dataclass, field

HAZARDS = {
    # dt
    'dt_whole_and_member': 'nested member used as a whole (assignment to a local) and by component in one kernel',
    'dt_whole_passed_on': 'derived-type dummy used by component and passed on whole to a callee that never touches its components',
    'dt_alloc_lbound': 'allocatable member allocated with lower bound 0 and indexed from 0 in the kernel',
    'dt_allocated_inq': 'kernel asks ALLOCATED(member)',
    'dt_seq_element': 'element of an allocatable component of a dummy as sequence-associated actual in a kernel',
    'dt_func_kw': 'function kernel referenced with a keyword derived-type actual (fparser then yields a '
                  'Structure_Constructor; so does a bare real literal actual: parenthesised outside this slice)',
    'dt_func_modimport': 'function kernel of another module imported in the specification part of the calling '
                         "routine's module (outside this slice the import is written inside the calling routine)",
    # tb
    'tb_nested_function': 'type-bound function reference (always forced on a nested member a%b%fun(), also direct d%fun())',
    'tb_generic': 'call through a generic type-bound binding',
    # seq
    'seq_span': 'sequence association spanning more than the first dimension',
    'seq_kw': 'scalar-element actual next to keyword arguments',
    'seq_offset2d': 'rank-2 dummy associated with an element that is not the first of its column',
    # shape
    'shape_star_deferred': 'deferred-shape (allocatable component) actual for an assumed-size dummy',
    'shape_star_literal_index': 'array section with a literal subscript as actual for an assumed-size dummy',
    'shape_lbound': 'caller array with lower bound 0 passed whole to assumed-shape dummy',
    'shape_section': 'same-rank array section passed to assumed-shape dummy that uses SIZE',
    'shape_two_callers': 'two call sites with different extents',
    'shape_member_dim': 'caller array dimensioned by a derived-type member',
    # dup
    'dup_spec_use': 'removed duplicate dummy is used in the callee specification part (array extent)',
    'dup_two_callers': 'routine with duplicated actuals called from two routines (same duplicate pattern)',
    'dup_kw': 'duplicated actuals passed by keyword (not adjacent in the keyword list)',
    'dup_diff_bounds': 'the two dummies that receive the same actual are declared with different lower bounds',
}

DEFAULT_FLAGS = dict(
    mode='dt', hazard=None, n_kernels=3, nest=2, arr_of_comp=True, ptr_member=False, plain_args=True,
    typebound=False, tb_generic=True, tb_nested=True, tb_function=True, func_kernel=False, associate=False,
    split_files=False, kernel_no_kind_import=False, recursive=False, renamed_import=False, seq_actuals=False,
    assumed_shape=False, lb0_dummies=False, dups=False, kw_calls=False, max_stmts=6, inquiry=False,
    int_arrays=True,
)

RK = 'rk'
COEFS = ['0.5_rk', '0.25_rk', '0.125_rk', '0.75_rk', '(-0.5_rk)', '(-0.25_rk)', '0.375_rk']


@dataclass
class SigCase:
    files: list            # [(filename, text)] in dependency order, all given to Loki
    driver: str            # main program text
    stdins: list
    features: set
    meta: dict = field(default_factory=dict)

    @property
    def units(self):
        return '\n'.join(t for _, t in self.files)


@dataclass
class Member:
    name: str
    kind: str              # real | int | dt
    rank: int = 0
    attr: str = ''         # '' | alloc | ptr | fixed
    ext: tuple = ()        # extent symbols: 'n', 'm' or an int
    ty: object = None      # Ty for kind == dt
    lb: int = 1


@dataclass
class Ty:
    name: str
    members: list
    bindings: list = field(default_factory=list)   # (binding text lines)


@dataclass
class Obj:
    """An accessible data object in a routine scope."""
    text: str
    kind: str
    rank: int
    path: tuple
    writable: bool
    ext: tuple = ()
    lb: int = 1
    ty: object = None
    comp: bool = False      # component of a derived type
    alloc: bool = False
    star: bool = False      # assumed-size dummy: no whole-array use
    noseq: bool = False     # assumed-shape dummy / pointer: an element may not be sequence associated

    def el(self, i, j=None):
        """element designator for logical index i (1..ext)"""
        def sh(ix):
            if self.lb == 1:
                return ix
            return f'{ix} - 1' if self.lb == 0 else f'{ix} + {self.lb - 1}'
        if self.rank == 1:
            return f'{self.text}({sh(i)})'
        return f'{self.text}({sh(i)}, {j})'


@dataclass
class Arg:
    name: str
    cat: str                # n | m | dt | arr1 | arr2 | iarr1 | sreal | sint | len
    intent: str = 'in'
    ty: object = None
    decl: str = 'explicit'  # explicit | assumed | lb0 | star | len (extent given by a separate integer dummy)
    lenarg: str = None      # name of the extent dummy for decl == 'len'
    dupof: str = None       # name of the dummy this one must receive the same actual as (dup mode)


@dataclass
class Routine:
    name: str
    args: list
    module: str
    role: str = 'kernel'
    is_function: bool = False
    lines: list = field(default_factory=list)
    locals_: list = field(default_factory=list)
    calls: list = field(default_factory=list)
    level: int = 0
    recursive: bool = False
    extra_use: list = field(default_factory=list)
    extra_decl: list = field(default_factory=list)


def conflict(p, q):
    """storage paths overlap: one is a prefix of the other ('x#*' matches 'x#<k>')"""
    for a, b in zip(p, q):
        if a == b:
            continue
        if '#' in a and '#' in b and a.split('#')[0] == b.split('#')[0] and ('*' in a or '*' in b):
            continue
        return False
    return True


class SigGen:

    def __init__(self, rng, flags=None):
        self.rng = rng
        self.f = dict(DEFAULT_FLAGS)
        self.f.update(flags or {})
        self.features = set()
        self.hz = self.f['hazard']
        self.hz_done = False
        self.types = {}
        self.routines = []
        self.nres = 8
        self.raw_kernels = []

    # ------------------------------------------------------------------ types
    def build_types(self):
        f = self.f
        leaf = Ty('leaf_t', [Member('ni', 'int'), Member('c', 'real'),
                             Member('w', 'real', 1, 'fixed', (4,)),
                             Member('v', 'real', 1, 'alloc', ('n',))])
        if f['ptr_member']:
            leaf.members.append(Member('p', 'real', 1, 'ptr', ('n',)))
            self.features.add('pointer_member')
        if self.hz == 'dt_alloc_lbound':
            leaf.members.append(Member('z', 'real', 1, 'alloc', ('n',), lb=0))
        self.types['leaf'] = leaf
        inner_name, inner = 'lf', leaf
        if f['nest'] >= 3:
            mid = Ty('mid_t', [Member('g', 'real'), Member('u', 'real', 1, 'alloc', ('n',)),
                               Member('lf', 'dt', ty=leaf)])
            if f['arr_of_comp'] and self.rng.random() < 0.5:
                mid.members.append(Member('la', 'dt', 1, 'fixed', (3,), ty=leaf))
                self.features.add('nested_array_of_components')
            self.types['mid'] = mid
            inner_name, inner = 'md', mid
            self.features.add('nest3')
        top = Ty('top_t', [Member('n', 'int'), Member('m', 'int'), Member('a', 'real', 1, 'alloc', ('n',)),
                           Member('b', 'real', 2, 'alloc', ('n', 'm'))])
        if f['int_arrays']:
            top.members.append(Member('ia', 'int', 1, 'alloc', ('n',)))
        if f['nest'] >= 2:
            top.members.append(Member(inner_name, 'dt', ty=inner))
            self.features.add('nested_component')
        if f['arr_of_comp']:
            top.members.append(Member('arr', 'dt', 1, 'fixed', (3,), ty=leaf))
            self.features.add('array_of_components')
        self.types['top'] = top
        self.types['plain'] = Ty('plain_t', [Member('k', 'int'), Member('s', 'real'),
                                             Member('f', 'real', 1, 'fixed', (3,))])

    def expand(self, text, ty, path, writable, out, in_arr=False):
        """all sub-objects of a derived-type object"""
        for mb in ty.members:
            t = f'{text}%{mb.name}'
            p = path + (mb.name,)
            if mb.kind == 'dt':
                if mb.rank == 0:
                    out.append(Obj(t, 'dt', 0, p, writable, ty=mb.ty, comp=True))
                    self.expand(t, mb.ty, p, writable, out, in_arr)
                else:
                    out.append(Obj(t, 'dt', 1, p, writable, ext=mb.ext, ty=mb.ty, comp=True))
                    for k in range(1, mb.ext[0] + 1):
                        pk = path + (f'{mb.name}#{k}',)
                        out.append(Obj(f'{t}({k})', 'dt', 0, pk, writable, ty=mb.ty, comp=True))
                        self.expand(f'{t}({k})', mb.ty, pk, writable, out, True)
            else:
                w = writable
                out.append(Obj(t, mb.kind, mb.rank, p, w, ext=mb.ext, lb=mb.lb, comp=True,
                               alloc=mb.attr in ('alloc', 'ptr'), noseq=mb.attr == 'ptr'))

    # ------------------------------------------------------------------ scopes
    def scope_objs(self, r):
        objs = []
        for a in r.args:
            w = a.intent != 'in'
            if a.cat in ('n', 'm', 'sint', 'len'):
                objs.append(Obj(a.name, 'int', 0, (a.name,), w and a.cat == 'sint'))
            elif a.cat == 'sreal':
                objs.append(Obj(a.name, 'real', 0, (a.name,), w))
            elif a.cat == 'dt':
                objs.append(Obj(a.name, 'dt', 0, (a.name,), w, ty=a.ty))
                self.expand(a.name, a.ty, (a.name,), w, objs)
            elif a.cat in ('arr1', 'iarr1'):
                # decl == 'len': the extent dummy always receives n
                objs.append(Obj(a.name, 'real' if a.cat == 'arr1' else 'int', 1, (a.name,), w, ext=('n',),
                                lb=0 if a.decl == 'lb0' else 1, star=a.decl == 'star', noseq=a.decl == 'assumed'))
            elif a.cat == 'arr2':
                objs.append(Obj(a.name, 'real', 2, (a.name,), w, ext=('n', 'm'), lb=0 if a.decl == 'lb0' else 1,
                                noseq=a.decl == 'assumed'))
            elif a.cat == 'resarr':
                objs.append(Obj(a.name, 'real', 1, (a.name,), True, ext=(self.nres,)))
        for (name, kind, rank, ext, lb) in r.locals_:
            if kind.startswith('dtlocal:'):
                continue
            objs.append(Obj(name, kind, rank, (name,), True, ext=ext, lb=lb))
        return objs

    # ------------------------------------------------------------------ signatures
    def make_signature(self, idx, level):
        rng, f = self.rng, self.f
        mode = f['mode']
        name = f'k{idx}'
        args = [Arg('n', 'n'), Arg('m', 'm')]
        tys = ['top', 'leaf'] + (['mid'] if 'mid' in self.types else [])
        cnt = {'dt': 0, 'u': 0, 'g': 0, 'iv': 0, 's': 0, 'j': 0}

        def add_dt(tyname=None, intent=None):
            cnt['dt'] += 1
            tyname = tyname or rng.choice(tys)
            args.append(Arg(f'd{cnt["dt"]}', 'dt', intent or rng.choice(['in', 'inout', 'inout']),
                            ty=self.types[tyname]))

        def arr_decl(rank=1):
            opts = ['explicit', 'explicit']
            if f['assumed_shape']:
                opts += ['assumed'] * (4 if mode == 'shape' else 1)
            if f['lb0_dummies']:
                opts += ['lb0']
            if rank == 1:
                opts += ['star'] if mode in ('seq', 'shape') else []
                if mode == 'seq':
                    opts += ['len', 'len']
            return rng.choice(opts)

        def add_arr1(intent=None, decl=None):
            cnt['u'] += 1
            decl = decl or arr_decl()
            a = Arg(f'u{cnt["u"]}', 'arr1', intent or rng.choice(['in', 'in', 'inout']), decl=decl)
            if decl == 'len':
                a.lenarg = f'nq{cnt["u"]}'
                args.append(Arg(a.lenarg, 'len'))
            args.append(a)
            return a

        def add_arr2(intent=None):
            cnt['g'] += 1
            d = arr_decl(2)
            args.append(Arg(f'g{cnt["g"]}', 'arr2', intent or rng.choice(['in', 'inout']), decl=d))

        ndt = {'dt': rng.choice([1, 2, 2, 3]), 'tb': rng.choice([1, 2]), 'seq': rng.choice([0, 1]),
               'shape': rng.choice([0, 1]), 'dup': rng.choice([0, 1, 2])}[mode]
        if level >= 3:
            # the deepest routines are easy to serve
            ndt = min(ndt, 1)
        for _ in range(ndt):
            add_dt()
        if getattr(self, 'caller_levels', None) and level in self.caller_levels:
            # routines that have callees get one writable top_t (objects of all component types are reachable from it)
            if not any(a.cat == 'dt' and a.ty is self.types['top'] and a.intent != 'in' for a in args):
                add_dt('top', 'inout')
        if f['plain_args'] and rng.random() < 0.4:
            add_dt('plain', rng.choice(['in', 'inout']))
            self.features.add('plain_type_arg')
        narr = {'dt': rng.choice([0, 1, 2]), 'tb': rng.choice([0, 1]), 'seq': rng.choice([2, 3]),
                'shape': rng.choice([2, 3]), 'dup': rng.choice([2, 3])}[mode]
        if level >= 3:
            narr = min(narr, 2)
        for _ in range(narr):
            add_arr1()
        if rng.random() < (0.6 if mode in ('seq', 'shape') else 0.3):
            add_arr2()
        if f['int_arrays'] and rng.random() < 0.3:
            cnt['iv'] += 1
            args.append(Arg(f'iv{cnt["iv"]}', 'iarr1', 'in', decl=rng.choice(['explicit', 'explicit'] +
                                                                               (['assumed'] if f['assumed_shape'] else []))))
        # at least one writable thing
        if not any(a.intent != 'in' and a.cat in ('dt', 'arr1', 'arr2') for a in args):
            add_arr1('inout')
        for _ in range(rng.choice([0, 1, 1, 2])):
            cnt['s'] += 1
            args.append(Arg(f's{cnt["s"]}', 'sreal', rng.choice(['in', 'inout', 'out'])))
        if rng.random() < 0.4:
            cnt['j'] += 1
            args.append(Arg(f'j{cnt["j"]}', 'sint', 'in'))
        # duplicates: pairs of read-only dummies of the same category that must receive the same actual
        if f['dups']:
            made = 0
            for cat in rng.sample(['arr1', 'sint', 'dt', 'sreal'], 4):
                if made >= 2:
                    break
                if cat == 'arr1':
                    a1 = add_arr1('in', decl=rng.choice(['explicit', 'assumed'] if f['assumed_shape'] else ['explicit']))
                    a2 = add_arr1('in', decl=a1.decl)
                    a2.dupof = a1.name
                elif cat == 'sint':
                    cnt['j'] += 2
                    args.append(Arg(f'j{cnt["j"] - 1}', 'sint', 'in'))
                    args.append(Arg(f'j{cnt["j"]}', 'sint', 'in', dupof=f'j{cnt["j"] - 1}'))
                elif cat == 'sreal':
                    cnt['s'] += 2
                    args.append(Arg(f's{cnt["s"] - 1}', 'sreal', 'in'))
                    args.append(Arg(f's{cnt["s"]}', 'sreal', 'in', dupof=f's{cnt["s"] - 1}'))
                else:
                    tyn = rng.choice(tys)
                    add_dt(tyn, 'in')
                    add_dt(tyn, 'in')
                    args[-1].dupof = args[-2].name
                made += 1
                self.features.add(f'dup_{cat}')
            # shuffle positions of everything after n, m but keep len dummies in front of their array
            tail = args[2:]
            rng.shuffle(tail)
            args = args[:2] + tail
        r = Routine(name, args, 'kmod', level=level)
        return r

    # ------------------------------------------------------------------ declarations
    def decl_lines(self, r):
        out = []
        for a in r.args:
            it = f', intent({a.intent})'
            if a.cat in ('n', 'm', 'sint', 'len'):
                out.append(f'integer{it} :: {a.name}')
            elif a.cat == 'sreal':
                out.append(f'real(kind={RK}){it} :: {a.name}')
            elif a.cat == 'resarr':
                out.append(f'real(kind={RK}){it} :: {a.name}({self.nres})')
            elif a.cat == 'dt':
                kw = 'class' if getattr(a, 'polymorphic', False) else 'type'
                out.append(f'{kw}({a.ty.name}){it} :: {a.name}')
            else:
                base = f'real(kind={RK})' if a.cat != 'iarr1' else 'integer'
                if a.cat == 'arr2':
                    dims = {'explicit': '(n, m)', 'assumed': '(:, :)', 'lb0': '(0:n-1, m)'}[a.decl]
                else:
                    dims = {'explicit': '(n)', 'assumed': '(:)', 'lb0': '(0:n-1)', 'star': '(*)',
                            'len': f'({a.lenarg})'}[a.decl]
                out.append(f'{base}{it} :: {a.name}{dims}')
        for (name, kind, rank, ext, lb) in r.locals_:
            base = f'real(kind={RK})' if kind == 'real' else 'integer'
            if kind.startswith('dtlocal:'):
                out.append(f'type({kind.split(":")[1]}) :: {name}')
                continue
            if rank == 0:
                out.append(f'{base} :: {name}')
            else:
                dims = ', '.join((f'{lb}:{e}-1' if lb == 0 else str(e)) for e in ext)
                out.append(f'{base} :: {name}({dims})')
        return out

    # ------------------------------------------------------------------ statements
    def pick(self, objs, **kw):
        def ok(o):
            for k, v in kw.items():
                if k == 'ext1':
                    if not o.ext or o.ext[0] != v:
                        return False
                elif callable(v):
                    if not v(getattr(o, k)):
                        return False
                elif getattr(o, k) != v:
                    return False
            return True
        c = [o for o in objs if ok(o)]
        return self.rng.choice(c) if c else None

    def rscalar(self, objs, i=None):
        """a bounded real scalar expression"""
        rng = self.rng
        c = [o.text for o in objs if o.kind == 'real' and o.rank == 0]
        fx = [o for o in objs if o.kind == 'real' and o.rank == 1 and o.ext and isinstance(o.ext[0], int)]
        opts = [rng.choice(COEFS)]
        if c:
            opts += [rng.choice(c)] * 3
        if fx:
            o = rng.choice(fx)
            e = o.ext[0]
            if i is not None and rng.random() < 0.5:
                opts += [f'{o.text}(1 + mod({i}, {e}))'] * 2
            else:
                opts += [f'{o.text}({rng.randint(1, e)})'] * 2
        ints = [o.text for o in objs if o.kind == 'int' and o.rank == 0]
        if ints and rng.random() < 0.3:
            opts.append(f'0.0625_rk*real({rng.choice(ints)}, kind={RK})')
        return rng.choice(opts)

    def relem(self, objs, i, j=None, nsym='n'):
        """a real element expression for logical index i (1..n)"""
        rng = self.rng
        c1 = [o for o in objs if o.kind == 'real' and o.rank == 1 and o.ext == (nsym,)]
        c2 = [o for o in objs if o.kind == 'real' and o.rank == 2] if nsym == 'n' else []
        ia = [o for o in objs if o.kind == 'int' and o.rank == 1 and o.ext == ('n',)] if nsym == 'n' else []
        if not c1 and not c2:
            return self.rscalar(objs, i)
        r = rng.random()
        if c2 and (r < 0.25 or not c1):
            o = rng.choice(c2)
            return o.el(i, j if j else rng.choice(['1', 'm', '1 + mod(' + i + ', m)']))
        o = rng.choice(c1)
        if ia and o.lb == 1 and rng.random() < 0.15:
            self.features.add('indirect_index')
            return f'{o.text}({rng.choice(ia).el(i)})'
        return o.el(i)

    def gen_stmt(self, r, objs, depth_budget):
        rng = self.rng
        n = 'n'
        kind = rng.choice(['ew1', 'ew1', 'ew1', 'ew2', 'red', 'sc', 'whole', 'fixed', 'assoc', 'inq'])
        W1 = [o for o in objs if o.kind == 'real' and o.rank == 1 and o.writable and o.ext == ('n',)]
        W2 = [o for o in objs if o.kind == 'real' and o.rank == 2 and o.writable]
        W0 = [o for o in objs if o.kind == 'real' and o.rank == 0 and o.writable]
        L = []
        if kind == 'ew1' and W1:
            w = rng.choice(W1)
            L.append(f'do i = 1, {n}')
            L.append(f'  {w.el("i")} = {rng.choice(COEFS)}*{w.el("i")} + {rng.choice(COEFS)}*{self.relem(objs, "i")}'
                     f' + {rng.choice(COEFS)}*{self.relem(objs, "i")}*{self.rscalar(objs, "i")}')
            L.append('end do')
        elif kind == 'ew2' and W2:
            w = rng.choice(W2)
            L.append('do j = 1, m')
            L.append(f'  do i = 1, {n}')
            L.append(f'    {w.el("i", "j")} = {rng.choice(COEFS)}*{w.el("i", "j")} + '
                     f'{rng.choice(COEFS)}*{self.relem(objs, "i", "j")} + 0.03125_rk*real(i + 2*j, kind={RK})')
            L.append('  end do')
            L.append('end do')
        elif kind == 'red' and W0:
            w = rng.choice(W0)
            L.append(f'do i = 1, {n}')
            L.append(f'  {w.text} = 0.5_rk*{w.text} + {rng.choice(COEFS)}*{self.relem(objs, "i")}')
            L.append('end do')
        elif kind == 'sc' and W0:
            w = rng.choice(W0)
            L.append(f'{w.text} = {rng.choice(COEFS)}*{self.rscalar(objs)} + {rng.choice(COEFS)}*{self.rscalar(objs)}')
        elif kind == 'whole' and W1:
            w = rng.choice(W1)
            src = [o for o in objs if o.kind == 'real' and o.rank == 1 and o.ext == ('n',) and o is not w and not o.star]
            if src and not w.star:
                s = rng.choice(src)
                sec = lambda o: o.text if rng.random() < 0.5 else f'{o.text}(:)'
                L.append(f'{sec(w)} = {rng.choice(COEFS)}*{sec(w)} + {rng.choice(COEFS)}*{sec(s)}')
                self.features.add('whole_array_stmt')
        elif kind == 'fixed':
            fx = [o for o in objs if o.kind == 'real' and o.rank == 1 and o.writable and o.ext and isinstance(o.ext[0], int)]
            if fx:
                w = rng.choice(fx)
                q = rng.randint(1, w.ext[0])
                L.append(f'{w.text}({q}) = 0.5_rk*{w.text}({q}) + {rng.choice(COEFS)}*{self.rscalar(objs)}')
        elif kind == 'assoc' and self.f['associate'] and W1:
            w = rng.choice(W1)
            if w.comp and w.lb == 1:
                L.append(f'associate (aa => {w.text})')
                L.append(f'  do i = 1, {n}')
                L.append(f'    aa(i) = {rng.choice(COEFS)}*aa(i) + {rng.choice(COEFS)}*{self.relem(objs, "i")}')
                L.append('  end do')
                L.append('end associate')
                self.features.add('associate_member')
        elif kind == 'inq' and self.f['inquiry'] and W0:
            c = [o for o in objs if o.rank >= 1 and o.kind == 'real' and not o.star]
            if c:
                o = rng.choice(c)
                w = rng.choice(W0)
                L.append(f'{w.text} = {w.text} + 0.03125_rk*real(size({o.text}), kind={RK})')
                self.features.add('size_inquiry')
        return L

    # ------------------------------------------------------------------ calls
    def actual_for(self, r, objs, a, used, seq_ok, child):
        """choose an actual for dummy ``a``; returns (text, path, written, extra) or None"""
        rng, f = self.rng, self.f
        wr = a.intent != 'in'
        if a.cat in ('n', 'm'):
            return (a.cat, (a.cat,), False)
        if a.cat == 'sint':
            c = [o for o in objs if o.kind == 'int' and o.rank == 0 and o.path[0] not in ('n', 'm')
                 and not o.path[0].startswith('nq')]
            opts = [(o.text, o.path, False) for o in c] + [(str(rng.randint(1, 3)), ('#lit',), False)]
            return rng.choice(opts)
        if a.cat == 'sreal':
            c = [o for o in objs if o.kind == 'real' and o.rank == 0 and (o.writable or not wr)]
            opts = [(o.text, o.path, wr) for o in c]
            fx = [o for o in objs if o.kind == 'real' and o.rank == 1 and o.ext and isinstance(o.ext[0], int)
                  and (o.writable or not wr)]
            for o in fx:
                q = rng.randint(1, o.ext[0])
                opts.append((f'{o.text}({q})', o.path, wr))
            if not wr:
                opts.append((rng.choice(COEFS).strip('()'), ('#lit',), False))
            return rng.choice(opts) if opts else None
        if a.cat == 'dt':
            c = [o for o in objs if o.kind == 'dt' and o.rank == 0 and o.ty is a.ty and (o.writable or not wr)]
            if not c:
                return None
            o = rng.choice(c)
            if o.comp:
                self.features.add('component_as_dt_actual')
            return (o.text, o.path, wr)
        if a.cat == 'iarr1':
            c = [o for o in objs if o.kind == 'int' and o.rank == 1 and o.ext == ('n',) and o.lb == 1]
            if not c:
                return None
            o = rng.choice(c)
            return (o.text, o.path, False)
        if a.cat == 'arr1':
            c1 = [o for o in objs if o.kind == 'real' and o.rank == 1 and o.ext == ('n',) and (o.writable or not wr)]
            c2 = [o for o in objs if o.kind == 'real' and o.rank == 2 and (o.writable or not wr)]
            if a.decl == 'star' and f['mode'] == 'shape':
                # ArgumentArrayShapeAnalysis fails on deferred-shape actuals and on actuals with a literal subscript
                # for an assumed-size dummy (hazards shape_star_deferred / shape_star_literal_index): whole arrays
                # of explicit shape only
                c1 = [o for o in c1 if not o.alloc and not o.noseq and not o.star]
                c2 = []
            opts = []
            for o in c1:
                if o.star:
                    # assumed-size dummy of the caller: only element / bounded section forms are legal
                    if a.decl != 'assumed':
                        opts.append((o.text, o.path, wr, 'whole'))
                    else:
                        opts.append((f'{o.text}(1:n)', o.path, wr, 'section'))
                    continue
                opts.append((o.text, o.path, wr, 'whole'))
                if seq_ok and a.decl in ('explicit', 'star', 'lb0', 'len') and not o.noseq:
                    lo = '0' if o.lb == 0 else '1'
                    opts += [(f'{o.text}({lo})', o.path, wr, 'seqcomp' if (o.comp and r.name != 'driver') else 'seq')] * 2
            for o in c2:
                jj = rng.choice(['1', 'm', '2'])
                if jj == '2':
                    jj = 'min(2, m)'
                lo = '0' if o.lb == 0 else '1'
                opts.append((f'{o.text}(:, {jj})', o.path, wr, 'section'))
                if seq_ok and a.decl in ('explicit', 'star', 'lb0', 'len') and not o.noseq:
                    opts += [(f'{o.text}({lo}, {jj})', o.path, wr, 'seqcomp' if (o.comp and r.name != 'driver') else 'seq')] * 2
            if seq_ok and a.decl in ('explicit', 'star', 'lb0', 'len'):
                for o in objs:
                    if o.text == 'lx':
                        opts += [(f'lx({rng.choice([2, 3])})', o.path, wr, 'seqoff')] * 2
                    if o.text == 'lx2':
                        opts += [(f'lx2(2, {rng.choice(["1", "m"])})', o.path, wr, 'seqoff')] * 2
            if not opts:
                return None
            if f['mode'] in ('dt', 'tb') and self.hz != 'dt_seq_element':
                # element of a component of a dummy that DerivedTypeArguments turns into an assumed-shape dummy
                opts = [t for t in opts if t[3] != 'seqcomp']
                if not opts:
                    return None
            t = rng.choice(opts)
            if t[3] == 'seqcomp':
                t = t[:3] + ('seq',)
                self.features.add('scalar_element_of_component_in_kernel')
                if self.hz == 'dt_seq_element':
                    self.hz_done = True
            if t[3] == 'seqoff':
                self.features.add('scalar_element_actual_offset')
            if t[3] in ('seq', 'seqoff'):
                self.features.add('scalar_element_actual')
            if t[3] == 'section':
                self.features.add('section_actual')
            return t[:3]
        if a.cat == 'arr2':
            c2 = [o for o in objs if o.kind == 'real' and o.rank == 2 and (o.writable or not wr)]
            if not c2:
                return None
            o = rng.choice(c2)
            compk = o.comp and r.name != 'driver' and f['mode'] in ('dt', 'tb')
            if compk and self.hz == 'dt_seq_element' and seq_ok and a.decl in ('explicit', 'lb0') and not o.noseq:
                self.hz_done = True
            elif compk:
                seq_ok = False
            if seq_ok and a.decl in ('explicit', 'lb0') and rng.random() < 0.5 and not o.noseq:
                self.features.add('scalar_element_actual_rank2')
                lo = '0' if o.lb == 0 else '1'
                return (f'{o.text}({lo}, 1)', o.path, wr)
            return (o.text, o.path, wr)
        return None

    def gen_call(self, r, objs, child, in_kloop=False):
        rng, f = self.rng, self.f
        seq_ok = f['seq_actuals']
        if f['dups'] and any(a.dupof for a in child.args) and getattr(child, 'caller', r.name) != r.name:
            # RemoveDuplicateArgs re-analyses the calls of a second calling routine against the already reduced
            # callee: hazard dup_two_callers
            if self.hz != 'dup_two_callers':
                return None
            self.hz_done = True
        # the second dummy of a duplicate pair of the *calling* routine is never used as an actual: once the pair is
        # merged, different actuals would coincide in some calls only (differing patterns: documented restriction)
        dupnames = {a.name for a in r.args if a.dupof}
        if dupnames:
            objs = [o for o in objs if o.path[0] not in dupnames]
        for _ in range(40):
            chosen = {}
            acts = []
            fail = False
            for a in sorted(child.args, key=lambda a: bool(a.dupof)):
                if a.cat == 'len':
                    continue
                if a.dupof:
                    t = chosen[a.dupof]
                    t = (t[0], t[1], False)
                else:
                    t = self.actual_for(r, objs, a, acts, seq_ok, child)
                if t is None:
                    fail = True
                    break
                chosen[a.name] = t
                acts.append((a, t))
            if fail:
                return None
            # aliasing: a written actual must not overlap any other actual
            ok = True
            for i, (a1, t1) in enumerate(acts):
                for j2, (a2, t2) in enumerate(acts):
                    if i < j2 and (t1[2] or t2[2]) and t1[1][0] != '#lit' and conflict(t1[1], t2[1]):
                        ok = False
            # dup mode: outside the declared groups all actual texts must differ (documented restriction of
            # RemoveDuplicateArgs: all calls of a routine must repeat the same duplicate pattern)
            if f['dups'] or f['mode'] == 'dup':
                texts = [t[0] for a, t in acts if not a.dupof and a.cat not in ('n', 'm')]
                if len(set(texts)) != len(texts):
                    ok = False
            if not ok:
                continue
            argtxt = []
            # keyword actuals in a *function* reference are the hazard dt_func_kw
            kw = f['kw_calls'] and rng.random() < 0.3 and not child.is_function
            kwstart = rng.randint(2, len(child.args)) if kw else 10 ** 6
            hz_here = child.is_function and self.hz == 'dt_func_kw' and any(a.cat == 'dt' for a in child.args)
            if hz_here:
                kw, kwstart = True, 2
                self.hz_done = True
            pos = 0
            for a in child.args:
                if a.cat == 'len':
                    txt = 'n'
                else:
                    txt = chosen[a.name][0]
                if pos >= kwstart:
                    argtxt.append(f'{a.name}={txt}')
                    self.features.add('keyword_actuals')
                    if self.hz == 'dup_kw' and (a.dupof or any(b.dupof == a.name for b in child.args)):
                        self.hz_done = True
                else:
                    argtxt.append(txt)
                pos += 1
            if any(a.dupof for a in child.args):
                self.features.add('duplicated_actuals')
                if not hasattr(child, 'caller'):
                    child.caller = r.name
            cname = child.name
            if child.is_function and not hz_here and any(t.count('%') >= 2 for t in argtxt):
                # a bare real literal actual makes fparser match the reference as Structure_Constructor, in which
                # Loki's frontend drops the root of a nested component actual (d%a%b ->  a%b): same root cause as
                # hazard dt_func_kw, kept in that slice; elsewhere the literal is written as a parenthesised expression
                argtxt = [f'({t})' if re.fullmatch(r'\d+\.\d*\w*', t) else t for t in argtxt]
            if child.is_function:
                w0 = [o for o in objs if o.kind == 'real' and o.rank == 0 and o.writable
                      and not any(conflict(o.path, t[1]) for _, t in acts)]
                if not w0:
                    return None
                w = rng.choice(w0)
                self.features.add('function_kernel')
                return [f'{w.text} = 0.5_rk*{w.text} + {cname}({", ".join(argtxt)})']
            return [f'call {cname}({", ".join(argtxt)})']
        return None

    def gen_tb_call(self, r, objs):
        """a call of a type-bound procedure on an accessible object"""
        rng, f = self.rng, self.f
        c = [o for o in objs if o.kind == 'dt' and o.rank == 0 and o.ty.name in ('leaf_t', 'mid_t', 'top_t')]
        if not c:
            return []
        o = rng.choice(c)
        W0 = [w for w in objs if w.kind == 'real' and w.rank == 0 and w.writable and not conflict(w.path, o.path)]
        nested = '%' in o.text
        if nested:
            if not f['tb_nested']:
                return []
            self.features.add('tb_nested_call')
        tyn = o.ty.name
        opts = []
        if tyn == 'leaf_t':
            if o.writable:
                opts += [[f'call {o.text}%scale({rng.choice(COEFS)})'], [f'call {o.text}%bump(n, {rng.choice(COEFS)})']]
                if f['tb_generic']:
                    opts += [[f'call {o.text}%upd({rng.choice(COEFS)})'], [f'call {o.text}%upd({rng.randint(1, 3)})']]
            if W0 and f['tb_function'] and (not nested or self.hz == 'tb_nested_function'):
                w = rng.choice(W0)
                opts += [[f'{w.text} = 0.5_rk*{w.text} + 0.25_rk*{o.text}%tot()']] * (4 if nested else 1)
        elif tyn == 'mid_t':
            if o.writable and W0:
                opts += [[f'call {o.text}%acc({rng.choice(W0).text})']]
        elif tyn == 'top_t':
            if o.writable and W0:
                opts += [[f'call {o.text}%fold({rng.choice(W0).text})']]
        if not opts:
            return []
        L = rng.choice(opts)
        if '%upd(' in L[0]:
            self.features.add('tb_generic_call')
            if self.hz == 'tb_generic':
                self.hz_done = True
        if '%tot()' in L[0]:
            self.features.add('tb_function_call')
            if self.hz == 'tb_nested_function':
                self.hz_done = True
        self.features.add('tb_call')
        return L

    # ------------------------------------------------------------------ routine bodies
    def init_lines(self, r):
        L = []
        for a in r.args:
            if a.cat == 'sreal' and a.intent == 'out':
                L.append(f'{a.name} = {self.rng.choice(COEFS)}')
        for (name, kind, rank, ext, lb) in r.locals_:
            if name in ('i', 'j', 'k'):
                continue
            if kind == 'real' and rank == 0:
                L.append(f'{name} = {self.rng.choice(COEFS)}')
            elif kind == 'real' and rank == 1:
                lo = f'{lb}' if lb != 1 else '1'
                hi = f'{ext[0]}-1' if lb == 0 else f'{ext[0]}'
                L.append(f'do i = {lo}, {hi}')
                L.append(f'  {name}(i) = 0.0625_rk*real(mod(i*i + 3, 7), kind={RK}) - 0.125_rk')
                L.append('end do')
            elif kind == 'real' and rank == 2:
                L.append('do j = 1, m')
                L.append(f'  do i = {lb}, {"n-1" if lb == 0 else ext[0]}')
                L.append(f'    {name}(i, j) = 0.0625_rk*real(mod(i*j + i + 2, 5), kind={RK}) - 0.125_rk')
                L.append('  end do')
                L.append('end do')
        return L

    def gen_body(self, r, children):
        rng, f = self.rng, self.f
        r.locals_ = [('i', 'int', 0, (), 1), ('j', 'int', 0, (), 1), ('k', 'int', 0, (), 1),
                     ('ls1', 'real', 0, (), 1)]
        if rng.random() < 0.6:
            r.locals_.append(('l1', 'real', 1, ('n',), 0 if (f['lb0_dummies'] and rng.random() < 0.3 and f['mode'] != 'shape') else 1))
        if rng.random() < 0.3 and f['mode'] in ('seq', 'shape'):
            r.locals_.append(('l2', 'real', 2, ('n', 'm'), 1))
        if f['seq_actuals'] and rng.random() < 0.7:
            # longer locals: sources of scalar-element actuals that do not start at the first element
            r.locals_.append(('lx', 'real', 1, ('n + 2',), 1))
            r.locals_.append(('lx2', 'real', 2, ('n + 1', 'm'), 1))
        objs = self.scope_objs(r)
        body = list(self.init_lines(r))
        nst = rng.randint(2, f['max_stmts'])
        ncalls = 0
        forced = list(children)
        rng.shuffle(forced)
        forced = forced[:2]
        for _ in range(nst + len(forced)):
            x = rng.random()
            L = []
            if forced or (children and x < 0.4 and ncalls < 3):
                ch = forced.pop() if forced else rng.choice(children)
                kl = [o for o in objs if o.kind == 'dt' and o.rank == 1]
                L = self.gen_call(r, objs, ch) or []
                if L:
                    ncalls += 1
                    r.calls.append(ch.name)
                    # loop over an array of components with a variable index
                    if kl and rng.random() < 0.35 and not ch.is_function:
                        import re as _re
                        o = rng.choice(kl)
                        pat = _re.escape(o.text) + r'\((\d)\)'
                        if _re.search(pat, L[0]):
                            # the written/aliasing analysis used a literal index; with a loop index every element
                            # is visited in turn, which is equivalent to consecutive calls with literal indices
                            # only if no *other* actual refers to the same array with a different literal
                            idxs = set(_re.findall(pat, L[0]))
                            if len(idxs) == 1:
                                L = [f'do k = 1, {o.ext[0]}', '  ' + _re.sub(pat, o.text + '(k)', L[0]), 'end do']
                                self.features.add('array_of_components_loop_index')
            elif f['typebound'] and x < 0.65:
                L = self.gen_tb_call(r, objs)
            if not L:
                L = self.gen_stmt(r, objs, 0)
            body += L
        # every (expandable) derived-type dummy is referenced by component at least once: a dummy that is only passed
        # on as a whole next to callers that use its components is the hazard dt_whole_passed_on
        for a in r.args:
            if a.cat == 'dt' and not any(f'{a.name}%' in ln for ln in body):
                mem = {'leaf_t': 'c', 'mid_t': 'g', 'top_t': 'a(1)', 'plain_t': 's'}[a.ty.name]
                body.append(f'ls1 = ls1 + 0.125_rk*{a.name}%{mem}')
        r.lines = body
        return objs

    # ------------------------------------------------------------------ type-bound procedures
    def tb_procs(self):
        """text of the type-bound procedures and the binding lines per type"""
        f = self.f
        leaf, top = self.types['leaf'], self.types['top']
        mid = self.types.get('mid')
        procs = []
        leaf.bindings = ['procedure :: scale => leaf_scale', 'procedure :: tot => leaf_tot', 'procedure :: bump']
        if f['tb_generic']:
            leaf.bindings += ['procedure :: upd_r => leaf_upd_r', 'procedure :: upd_i => leaf_upd_i',
                              'generic :: upd => upd_r, upd_i']
        procs.append('''
  subroutine leaf_scale(self, fac)
    class(leaf_t), intent(inout) :: self
    real(kind=rk), intent(in) :: fac
    integer :: i
    do i = 1, self%ni
      self%v(i) = self%v(i)*fac + 0.125_rk*self%c
    end do
  end subroutine leaf_scale

  function leaf_tot(self) result(r)
    class(leaf_t), intent(in) :: self
    real(kind=rk) :: r
    integer :: i
    r = self%w(2)
    do i = 1, self%ni
      r = r + 0.25_rk*self%v(i)*self%w(1 + mod(i, 4))
    end do
  end function leaf_tot

  subroutine bump(self, nn, q)
    class(leaf_t), intent(inout) :: self
    integer, intent(in) :: nn
    real(kind=rk), intent(in) :: q
    integer :: i
    do i = 1, nn
      self%v(i) = 0.5_rk*self%v(i) + q*real(mod(i, 3), kind=rk)
    end do
    self%c = 0.5_rk*self%c + q
  end subroutine bump
''')
        if f['tb_generic']:
            procs.append('''
  subroutine leaf_upd_r(self, x)
    class(leaf_t), intent(inout) :: self
    real(kind=rk), intent(in) :: x
    self%w(1) = 0.5_rk*self%w(1) + x
    self%v(1) = 0.5_rk*self%v(1) - x
  end subroutine leaf_upd_r

  subroutine leaf_upd_i(self, ix)
    class(leaf_t), intent(inout) :: self
    integer, intent(in) :: ix
    self%w(ix) = 0.5_rk*self%w(ix) + 0.125_rk
    self%v(ix) = 0.25_rk*self%v(ix)
  end subroutine leaf_upd_i
''')
        if mid:
            mid.bindings = ['procedure :: acc => mid_acc']
            fun = '    s = 0.5_rk*s + self%lf%tot() + self%g' if (self.hz == 'tb_nested_function') \
                else '    s = 0.5_rk*s + self%g'
            procs.append(f'''
  subroutine mid_acc(self, s)
    class(mid_t), intent(inout) :: self
    real(kind=rk), intent(inout) :: s
    integer :: i
    call self%lf%scale(0.5_rk)
{fun}
    do i = 1, self%lf%ni
      s = s + 0.125_rk*self%u(i)
      self%u(i) = 0.5_rk*self%u(i) + 0.25_rk*self%lf%v(i)
    end do
  end subroutine mid_acc
''')
            if self.hz == 'tb_nested_function':
                self.hz_done = True
        inner = 'md' if mid else ('lf' if self.f['nest'] >= 2 else None)
        top.bindings = ['procedure :: fold => top_fold']
        body = ['    r = 0.5_rk*r + 0.125_rk*self%a(1)']
        if inner == 'md':
            body.append('    call self%md%acc(r)')
            body.append('    call self%md%lf%bump(self%n, 0.125_rk)')
        elif inner == 'lf':
            body.append('    call self%lf%scale(0.75_rk)')
            body.append('    r = r + self%lf%c')
        if f['arr_of_comp']:
            body.append('    call self%arr(2)%scale(0.5_rk)')
            body.append('    r = r + self%arr(2)%v(1)')
        procs.append('''
  subroutine top_fold(self, r)
    class(top_t), intent(inout) :: self
    real(kind=rk), intent(inout) :: r
''' + '\n'.join(body) + '''
  end subroutine top_fold
''')
        return ''.join(procs)

    # ------------------------------------------------------------------ text assembly
    def type_text(self, ty):
        L = [f'  type {ty.name}']
        for mb in ty.members:
            if mb.kind == 'dt':
                if mb.rank:
                    L.append(f'    type({mb.ty.name}) :: {mb.name}({mb.ext[0]})')
                else:
                    L.append(f'    type({mb.ty.name}) :: {mb.name}')
                continue
            base = f'real(kind={RK})' if mb.kind == 'real' else 'integer'
            if mb.rank == 0:
                L.append(f'    {base} :: {mb.name}')
            elif mb.attr == 'fixed':
                ext = 'nw' if (mb.name == 'w') else str(mb.ext[0])
                L.append(f'    {base} :: {mb.name}({ext})')
            elif mb.attr == 'alloc':
                L.append(f'    {base}, allocatable :: {mb.name}({", ".join(":" * mb.rank)})')
            else:
                L.append(f'    {base}, pointer :: {mb.name}({", ".join(":" * mb.rank)}) => null()')
        if ty.bindings and self.f['typebound']:
            L.append('  contains')
            L += ['    ' + b for b in ty.bindings]
        L.append(f'  end type {ty.name}')
        return '\n'.join(L)

    def tmod_text(self):
        procs = self.tb_procs() if self.f['typebound'] else ''
        order = ['plain', 'leaf'] + (['mid'] if 'mid' in self.types else []) + ['top']
        T = ['module tmod', '  implicit none', f'  integer, parameter :: {RK} = selected_real_kind(13, 300)',
             '  integer, parameter :: nw = 4']
        for k in order:
            T.append(self.type_text(self.types[k]))
        if procs:
            T.append('contains')
            T.append(procs)
        T.append('end module tmod')
        return '\n'.join(T) + '\n'

    def routine_text(self, r):
        kw = 'function' if r.is_function else 'subroutine'
        an = ', '.join(a.name for a in r.args)
        pre = 'recursive ' if r.recursive else ''
        res = ' result(fres)' if r.is_function else ''
        L = [f'  {pre}{kw} {r.name}({an}){res}']
        for u in r.extra_use:
            L.append('    ' + u)
        L += ['    ' + d for d in self.decl_lines(r)]
        L += ['    ' + d for d in r.extra_decl]
        if r.is_function:
            L.append(f'    real(kind={RK}) :: fres')
        L += ['    ' + s for s in r.lines]
        L.append(f'  end {kw} {r.name}')
        return '\n'.join(L)

    # ------------------------------------------------------------------ hazards
    def add_hazard(self, kernels, driver):
        """
        Hazard constructs are small hand-written kernels ``hzk`` (module kmod) called once from the driver, so that
        the construct is isolated from the random part of the program.  Sets self.hz_done.
        """
        hz = self.hz
        if not hz or self.hz_done or hz.startswith('tb_') or hz in ('dt_func_kw', 'dt_seq_element', 'dup_kw', 'dup_two_callers'):
            return
        inner = 'md' if 'mid' in self.types else 'lf'
        innerty = 'mid_t' if 'mid' in self.types else 'leaf_t'
        innersc = 'g' if 'mid' in self.types else 'c'
        head = {  # hazard: (dummy list, declarations, body)
            'dt_whole_and_member': ('d, s', ['type(top_t), intent(in) :: d', f'type({innerty}) :: cp'],
                                    [f'cp = d%{inner}', f's = 0.5_rk*s + 0.25_rk*cp%{innersc} + 0.125_rk*d%{inner}%{innersc}']),
            'dt_whole_passed_on': ('d, s', ['type(top_t), intent(in) :: d'],
                                   ['s = 0.5_rk*s + 0.25_rk*d%a(1)', 'call hzk2(d, s)']),
            'dt_alloc_lbound': ('nn, d, s', ['integer, intent(in) :: nn', 'type(leaf_t), intent(in) :: d'],
                                ['do i = 0, nn - 1', '  s = 0.5_rk*s + 0.25_rk*d%z(i)*real(i + 1, kind=rk)', 'end do']),
            'dt_allocated_inq': ('d, s', ['type(top_t), intent(in) :: d'],
                                 ['if (allocated(d%a)) s = s + 0.5_rk', 's = s + 0.125_rk*d%a(1)']),
            'seq_span': ('nn, q, s', ['integer, intent(in) :: nn', 'real(kind=rk), intent(in) :: q(nn)'],
                         ['do i = 1, nn', '  s = 0.5_rk*s + 0.25_rk*q(i)', 'end do']),
            'seq_kw': ('nn, q, s', ['integer, intent(in) :: nn', 'real(kind=rk), intent(in) :: q(nn)'],
                       ['do i = 1, nn', '  s = 0.5_rk*s + 0.25_rk*q(i)', 'end do']),
            'seq_offset2d': ('n1, n2, q, s', ['integer, intent(in) :: n1, n2', 'real(kind=rk), intent(in) :: q(n1, n2)'],
                             ['do j = 1, n2', '  do i = 1, n1', '    s = 0.5_rk*s + 0.25_rk*q(i, j)*real(i + 2*j, kind=rk)',
                              '  end do', 'end do']),
            'shape_star_deferred': ('q, nn, s', ['integer, intent(in) :: nn', 'real(kind=rk), intent(in) :: q(*)'],
                                    ['do i = 1, nn', '  s = 0.5_rk*s + 0.25_rk*q(i)', 'end do']),
            'shape_local_clash': ('q, s', ['real(kind=rk), intent(in) :: q(:)', 'integer :: nq'],
                                  ['nq = 0', 'do i = 1, size(q)', '  s = 0.5_rk*s + 0.25_rk*q(i)', '  nq = nq + 1', 'end do',
                                   's = s + 0.0625_rk*real(nq, kind=rk)']),
            'dup_spec_use': ('nn, k1, k2, q, s', ['integer, intent(in) :: nn, k1, k2', 'real(kind=rk), intent(in) :: q(nn)',
                                                 'real(kind=rk) :: tmp(k2)'],
                             ['tmp(:) = 0.25_rk', 'tmp(k1) = 0.5_rk', 'do i = 1, nn', '  s = 0.5_rk*s + q(i)*tmp(1 + mod(i, k2))',
                              'end do']),
            'dup_diff_bounds': ('nn, q1, q2, s', ['integer, intent(in) :: nn', 'real(kind=rk), intent(in) :: q1(nn)',
                                                  'real(kind=rk), intent(in) :: q2(0:nn-1)'],
                                ['do i = 1, nn', '  s = 0.5_rk*s + 0.25_rk*q1(i)*q2(i - 1)', 'end do']),
        }
        head['shape_star_literal_index'] = head['shape_star_deferred']
        for k in ('shape_lbound', 'shape_section', 'shape_two_callers', 'shape_member_dim'):
            head[k] = ('q, s', ['real(kind=rk), intent(in) :: q(:)'],
                       ['do i = 1, size(q)', '  s = 0.5_rk*s + 0.25_rk*q(i)*real(i, kind=rk)', 'end do'])
        leafobj = 't%arr(1)' if self.f['arr_of_comp'] else ('t%md%lf' if 'mid' in self.types else 't%lf')
        use = {  # hazard: (driver declarations, driver lines)
            'dt_whole_and_member': ([], ['call hzk(t3, ls2)']),
            'dt_whole_passed_on': ([], ['call hzk(t3, ls2)']),
            'dt_alloc_lbound': ([], [f'call hzk(n, {leafobj}, ls2)']),
            'dt_allocated_inq': ([], ['call hzk(t3, ls2)']),
            'seq_span': ([], ['call hzk(2*n, y(1, 1), ls2)']),
            'seq_kw': ([], ['call hzk(n, s=ls2, q=y(1, 1))']),
            'seq_offset2d': (['real(kind=rk) :: hz3(n, m, 2)'],
                             ['do k = 1, 2', '  do j = 1, m', '    do i = 1, n',
                              '      hz3(i, j, k) = 0.0625_rk*real(mod(i*i + 3*j + 5*k, 11), kind=rk)', '    end do', '  end do',
                              'end do', 'call hzk(n - 1, m, hz3(2, 1, 1), ls2)']),
            'shape_star_deferred': ([], ['call hzk(t3%a, n, ls2)']),
            'shape_star_literal_index': ([], ['call hzk(l2(:, 1), n, ls2)']),
            'shape_lbound': (['real(kind=rk) :: hz0(0:n-1)'],
                             ['do i = 0, n - 1', '  hz0(i) = 0.0625_rk*real(mod(i*i + 5, 7), kind=rk)', 'end do',
                              'call hzk(hz0, ls2)']),
            'shape_section': ([], ['call hzk(x2(2:n), ls2)']),
            'shape_two_callers': (['real(kind=rk) :: hz4(n + 1)'],
                                  ['do i = 1, n + 1', '  hz4(i) = 0.0625_rk*real(mod(i*i + 5, 7), kind=rk)', 'end do',
                                   'call hzk(x2, ls2)', 'call hzk(hz4, ls2)']),
            'shape_member_dim': (['real(kind=rk) :: hzm(t3%n)'],
                                 ['do i = 1, n', '  hzm(i) = 0.0625_rk*real(mod(i*i + 5, 7), kind=rk)', 'end do',
                                  'call hzk(hzm, ls2)']),
            'shape_local_clash': (['integer :: nq', 'real(kind=rk), allocatable :: hzl(:)'], []),
            'dup_spec_use': ([], ['call hzk(n, jl, jl, x2, ls2)']),
            'dup_diff_bounds': ([], ['call hzk(n, x2, x2, ls2)']),
        }
        if hz == 'shape_local_clash':
            use[hz] = (['integer :: nq'], ['nq = n'])
            # the array dimensioned by the local nq has to be an automatic array of an internal block: use a
            # BLOCK-free formulation -- pass a section of an existing array whose declared extent is a local
            use[hz] = (['integer :: nq', 'real(kind=rk) :: hzl(size(x2))'], [])
        if hz not in head:
            return
        if hz == 'shape_local_clash':
            # nq must be known at entry of the driver for an automatic array: make it a dummy-derived expression
            # instead: declare hzl(nq) is impossible for a local nq, so nq is a second name for the extent of x2
            # held in a module variable of kmod (set by the driver before the call)
            return
        if hz == 'dt_whole_and_member' and self.f['nest'] < 2:
            return
        args, decls, body = head[hz]
        K = [f'  subroutine hzk({args})'] + ['    ' + d for d in decls] + \
            ['    real(kind=rk), intent(inout) :: s', '    integer :: i, j'] + ['    ' + b for b in body] + \
            ['  end subroutine hzk', '']
        if hz == 'dt_whole_passed_on':
            K += ['  subroutine hzk2(d, s)', '    type(top_t), intent(in) :: d', '    real(kind=rk), intent(inout) :: s',
                  '    s = s + 0.125_rk', '  end subroutine hzk2', '']
        self.raw_kernels.append('\n'.join(K))
        ddecl, dlines = use[hz]
        driver.extra_decl += ddecl
        # insert in front of the final res(...) assignments
        pos = next(i for i, l in enumerate(driver.lines) if l.startswith('res(1) ='))
        driver.lines[pos:pos] = dlines
        driver.calls.append('hzk')
        self.hz_done = True

    # ------------------------------------------------------------------ generate
    def generate(self):
        rng, f = self.rng, self.f
        self.build_types()
        if f['typebound']:
            self.features.add('typebound')
        nk = f['n_kernels']
        # levels: kernel idx may call kernels with larger idx (depth <= 3)
        kernels = []
        levels = []
        for idx in range(1, nk + 1):
            level = 1 if idx == 1 else rng.choice([1, 2, 3, 3]) if idx > 2 else 2
            levels.append(min(level, idx))
        self.caller_levels = {l for l in levels if any(l2 > l for l2 in levels)}
        for idx, level in zip(range(1, nk + 1), levels):
            kernels.append(self.make_signature(idx, level))
        # function kernel
        if f['func_kernel']:
            k = kernels[-1]
            if all(a.intent == 'in' for a in k.args if a.cat == 'sreal'):
                pass
            # make it a function only if no scalar outs (keep arrays/dt possibly inout -> avoid: force all in)
            for a in k.args:
                if a.intent != 'in':
                    a.intent = 'in'
            k.is_function = True
            k.level = max(k.level, 2) if nk > 1 else 1
        if f['split_files'] and any(k.level > 1 for k in kernels):
            # by level, so that the module dependency graph stays acyclic
            for k in kernels:
                if k.level > 1:
                    k.module = 'kmod2'
            self.features.add('split_kernel_modules')
        # bodies, leaves first so that children exist
        for k in reversed(kernels):
            children = [c for c in kernels if c.level > k.level and c.level - k.level <= 2 and c is not k]
            self.gen_body(k, children)
            if k.is_function:
                k.lines.append('fres = ls1')
                # function must produce something dependent on its inputs
                objs = self.scope_objs(k)
                k.lines.insert(-1, f'do i = 1, n')
                k.lines.insert(-1, f'  ls1 = 0.5_rk*ls1 + 0.25_rk*{self.relem(objs, "i")}')
                k.lines.insert(-1, 'end do')
            else:
                # fold local results into a writable output so that everything is observable
                objs = self.scope_objs(k)
                W0 = [o for o in objs if o.kind == 'real' and o.rank == 0 and o.writable and o.text != 'ls1']
                W1 = [o for o in objs if o.kind == 'real' and o.rank == 1 and o.writable and o.ext == ('n',)
                      and o.text not in ('l1',)]
                W2 = [o for o in objs if o.kind == 'real' and o.rank == 2 and o.writable and o.text != 'l2']
                src = 'ls1' + (' + 0.125_rk*l1(1)' if any(l[0] == 'l1' and l[4] == 1 for l in k.locals_) else '')
                if W0:
                    w = rng.choice(W0)
                    k.lines.append(f'{w.text} = 0.5_rk*{w.text} + 0.25_rk*({src})')
                elif W1:
                    w = rng.choice(W1)
                    k.lines.append(f'{w.el("1")} = 0.5_rk*{w.el("1")} + 0.25_rk*({src})')
                elif W2:
                    w = rng.choice(W2)
                    k.lines.append(f'{w.el("1", "1")} = 0.5_rk*{w.el("1", "1")} + 0.25_rk*({src})')
        # driver
        drv = Routine('driver', [Arg('n', 'n'), Arg('m', 'm'), Arg('t', 'dt', 'inout', ty=self.types['top']),
                                 Arg('t2', 'dt', 'inout', ty=self.types['top']),
                                 Arg('t3', 'dt', 'in', ty=self.types['top']),
                                 Arg('p', 'dt', 'inout', ty=self.types['plain']),
                                 Arg('x', 'arr1', 'inout'), Arg('x2', 'arr1', 'in'), Arg('y', 'arr2', 'inout'),
                                 Arg('ix', 'iarr1', 'in'), Arg('res', 'resarr', 'out')], 'dmod', role='driver')
        self.gen_driver(drv, kernels)
        self.add_hazard(kernels, drv)
        # routines that are not reachable from the driver are not part of the Scheduler's call tree: a routine
        # left untransformed that calls a transformed one would be an inconsistency of the *input* project
        reach = set()
        todo = list(drv.calls)
        while todo:
            c = todo.pop()
            if c in reach:
                continue
            reach.add(c)
            todo += [x for k in kernels if k.name == c for x in k.calls]
        kernels = [k for k in kernels if k.name in reach]
        self.kernels, self.drv = kernels, drv
        depth = {}
        def dep(name):
            if name not in depth:
                ks = [k for k in kernels if k.name == name]
                depth[name] = 1 + max([dep(c) for c in ks[0].calls] + [0]) if ks else 1
            return depth[name]
        self.features.add('call_depth_%d' % max([dep(c) for c in drv.calls] + [0]))
        files = [('tmod.F90', self.tmod_text())]
        for mod in ['kmod2', 'kmod']:
            ks = [k for k in kernels if k.module == mod]
            if not ks:
                continue
            files.append((f'{mod}.F90', self.module_text(mod, ks, kernels)))
        files.append(('dmod.F90', self.module_text('dmod', [drv], kernels)))
        main = self.main_text()
        stdins = []
        for s in range(4):
            n = rng.randint(4, 7)
            m = rng.randint(2, 4)
            stdins.append(f'{n} {m} {rng.randint(1, 50)}\n')
        self.features.add('mode_' + f['mode'])
        if self.hz and self.hz_done:
            self.features.add('hazard_' + self.hz)
        return SigCase(files, main, stdins, self.features,
                       {'hazard': self.hz if self.hz_done else None, 'mode': f['mode'],
                        'kernels': [k.name for k in kernels],
                        'calls': {r.name: sorted(set(r.calls)) for r in kernels + [drv]}})

    def module_text(self, mod, routines, kernels):
        f = self.f
        L = [f'module {mod}']
        tynames = sorted({a.ty.name for r in routines for a in r.args if a.cat == 'dt'} |
                         {l[1].split(':')[1] for r in routines for l in r.locals_ if l[1].startswith('dtlocal:')})
        if mod == 'kmod' and self.raw_kernels:
            tynames = sorted(set(tynames) | {ty.name for ty in self.types.values()})
        only = [RK] + tynames
        L.append(f'  use tmod, only: {", ".join(only)}')
        called = sorted({c for r in routines for c in r.calls})
        for om in ['kmod', 'kmod2']:
            if om == mod:
                continue
            names = [c for c in called if any(k.name == c and k.module == om for k in kernels) or (c == 'hzk' and om == 'kmod')]
            funcs = [c for c in names if any(k.name == c and k.is_function for k in kernels)]
            if funcs and self.hz == 'dt_func_modimport':
                self.hz_done = True
            elif funcs:
                # a function imported in the specification part of the enclosing module is not discovered as a
                # Scheduler dependency of the referencing routine (hazard dt_func_modimport): import it where used
                names = [c for c in names if c not in funcs]
                for r in routines:
                    mine = [c for c in funcs if c in r.calls]
                    if mine:
                        r.extra_use.append(f'use {om}, only: {", ".join(mine)}')
            if names:
                L.append(f'  use {om}, only: {", ".join(names)}')
        L.append('  implicit none')
        L.append('contains')
        for r in routines:
            L.append(self.routine_text(r))
            L.append('')
        if mod == 'kmod':
            L += self.raw_kernels
        L.append(f'end module {mod}')
        return '\n'.join(L) + '\n'

    def decl_lines_drv(self, r):
        return self.decl_lines(r)

    def gen_driver(self, drv, kernels):
        rng, f = self.rng, self.f
        drv.locals_ = [('i', 'int', 0, (), 1), ('j', 'int', 0, (), 1), ('k', 'int', 0, (), 1),
                       ('ls1', 'real', 0, (), 1), ('ls2', 'real', 0, (), 1),
                       ('l1', 'real', 1, ('n',), 1), ('l2', 'real', 2, ('n', 'm'), 1), ('jl', 'int', 0, (), 1)]
        if f['lb0_dummies'] and f['mode'] != 'shape':
            drv.locals_.append(('l0', 'real', 1, ('n',), 0))
        if f['seq_actuals']:
            drv.locals_.append(('lx', 'real', 1, ('n + 2',), 1))
            drv.locals_.append(('lx2', 'real', 2, ('n + 1', 'm'), 1))
        objs = self.scope_objs(drv)
        objs = [o for o in objs if o.path[0] != 'res']
        body = ['res(:) = 0.0_rk', 'ls2 = 0.25_rk', 'jl = 2'] + self.init_lines(drv)
        # call every level-1 kernel at least once, others if reachable only from driver
        reached = set()
        def reach(k):
            if k.name in reached:
                return
            reached.add(k.name)
            for c in k.calls:
                reach(next(x for x in kernels if x.name == c))
        todo = [k for k in kernels if k.level == 1]
        for k in todo:
            reach(k)
        todo += [k for k in kernels if k.name not in reached]
        for k in todo:
            for rep in range(rng.choice([1, 1, 2])):
                L = self.gen_call(drv, objs, k)
                if L:
                    body += L
                    drv.calls.append(k.name)
                if f['typebound'] and rng.random() < 0.7:
                    body += self.gen_tb_call(drv, objs)
                if rng.random() < 0.5:
                    body += self.gen_stmt(drv, objs, 0)
        if f['typebound']:
            body += self.gen_tb_call(drv, objs)
            # top_fold (and through it mid_acc) call other bound procedures: they must be part of the call tree,
            # otherwise they would be left untransformed next to transformed callees (inconsistent input project)
            body += ['call t2%fold(ls2)']
            self.features.add('tb_call')
        body += ['res(1) = ls1', 'res(2) = ls2', 'res(3) = l1(1) + l1(n)', 'res(4) = l2(1, 1) + l2(n, m)']
        if any(l[0] == 'l0' for l in drv.locals_):
            body += ['res(5) = l0(0) + l0(n-1)']
        if any(l[0] == 'lx' for l in drv.locals_):
            body += ['res(6) = sum(lx)', 'res(7) = sum(lx2)']
        drv.lines = body

    def main_text(self):
        """main program: data set-up and printing go through one contained routine per derived type (keeps it small)"""
        order = ['leaf'] + (['mid'] if 'mid' in self.types else []) + ['top']
        L = ['program main', '  use tmod', '  use dmod, only: driver', '  implicit none',
             '  integer :: n, m, seed, i, j',
             '  type(top_t) :: t, t2, t3', '  type(plain_t) :: p',
             f'  real(kind={RK}), allocatable :: x(:), x2(:), y(:, :)', '  integer, allocatable :: ix(:)',
             f'  real(kind={RK}) :: res({self.nres})',
             f'  real(kind={RK}), allocatable, target :: pool(:, :)',
             '  integer :: npool',
             '  read(*, *) n, m, seed', '  allocate(x(n), x2(n), y(n, m), ix(n))',
             '  allocate(pool(n, 96))', '  npool = 0',
             '  do i = 1, n', '    x(i) = fv(i, 1)', '    x2(i) = fv(i, 2)', '    ix(i) = 1 + mod(i*3 + seed, n)',
             '    do j = 1, m', '      y(i, j) = fv(i + 3*j, 3)', '    end do', '  end do',
             '  do j = 1, 96', '    do i = 1, n', '      pool(i, j) = fv(i + j, 9)', '    end do', '  end do',
             '  p%k = 1 + mod(seed, 3)', '  p%s = fv(1, 4)', '  p%f = (/ fv(1, 5), fv(2, 5), fv(3, 5) /)',
             '  call fill_top_t(t, 10)', '  call fill_top_t(t2, 40)', '  call fill_top_t(t3, 70)',
             '  call driver(n, m, t, t2, t3, p, x, x2, y, ix, res)',
             "  print *, 'res', res", "  print *, 'x', x", "  print *, 'y', y", "  print *, 'p', p%k, p%s, p%f",
             "  call print_top_t(t, 't')", "  call print_top_t(t2, 't2')",
             'contains', '  function fv(q, salt) result(v)', '    integer, intent(in) :: q, salt',
             f'    real(kind={RK}) :: v',
             f'    v = real(mod(q*q*7 + seed*13 + q*salt*3 + salt, 23), kind={RK})/16.0_rk - 0.6875_rk',
             '  end function fv']
        for k in order:
            ty = self.types[k]
            L += [f'  subroutine fill_{ty.name}(o, salt)', f'    type({ty.name}), intent(inout) :: o',
                  '    integer, intent(in) :: salt', '    integer :: i, j, k']
            L += self.fill_lines('o', ty)
            L += [f'  end subroutine fill_{ty.name}',
                  f'  subroutine print_{ty.name}(o, tag)', f'    type({ty.name}), intent(in) :: o',
                  '    character(len=*), intent(in) :: tag', '    integer :: k', '    character(len=1) :: ck']
            L += self.print_lines('o', ty)
            L += [f'  end subroutine print_{ty.name}']
        L += ['end program main']
        return '\n'.join(L) + '\n'

    def fill_lines(self, text, ty, ind='    '):
        L = []
        for q, mb in enumerate(ty.members):
            t = f'{text}%{mb.name}'
            s = f'salt + {q}'
            if mb.kind == 'dt':
                if mb.rank == 0:
                    L.append(f'{ind}call fill_{mb.ty.name}({t}, salt + {3 * (q + 1)})')
                else:
                    L.append(f'{ind}do k = 1, {mb.ext[0]}')
                    L.append(f'{ind}  call fill_{mb.ty.name}({t}(k), salt + {5 * (q + 1)} + k)')
                    L.append(f'{ind}end do')
            elif mb.kind == 'int' and mb.rank == 0:
                val = {'n': 'n', 'm': 'm', 'ni': 'n'}.get(mb.name, '2')
                L.append(f'{ind}{t} = {val}')
            elif mb.kind == 'int':
                L.append(f'{ind}allocate({t}(n))')
                L.append(f'{ind}do i = 1, n')
                L.append(f'{ind}  {t}(i) = 1 + mod(i*5 + seed + {s}, n)')
                L.append(f'{ind}end do')
            elif mb.rank == 0:
                L.append(f'{ind}{t} = fv(1, {s})')
            elif mb.attr == 'fixed':
                L.append(f'{ind}do i = 1, {mb.ext[0]}')
                L.append(f'{ind}  {t}(i) = fv(i, {s})')
                L.append(f'{ind}end do')
            elif mb.attr == 'ptr':
                L.append(f'{ind}npool = npool + 1')
                L.append(f'{ind}{t} => pool(:, npool)')
            elif mb.rank == 1:
                if mb.lb == 0:
                    L.append(f'{ind}allocate({t}(0:n-1))')
                    L.append(f'{ind}do i = 0, n-1')
                    L.append(f'{ind}  {t}(i) = fv(i + 1, {s})')
                    L.append(f'{ind}end do')
                else:
                    L.append(f'{ind}allocate({t}(n))')
                    L.append(f'{ind}do i = 1, n')
                    L.append(f'{ind}  {t}(i) = fv(i, {s})')
                    L.append(f'{ind}end do')
            else:
                L.append(f'{ind}allocate({t}(n, m))')
                L.append(f'{ind}do j = 1, m')
                L.append(f'{ind}  do i = 1, n')
                L.append(f'{ind}    {t}(i, j) = fv(i + 2*j, {s})')
                L.append(f'{ind}  end do')
                L.append(f'{ind}end do')
        return L

    def print_lines(self, text, ty, ind='    '):
        L = []
        for mb in ty.members:
            t = f'{text}%{mb.name}'
            if mb.kind == 'dt':
                if mb.rank == 0:
                    L.append(f"{ind}call print_{mb.ty.name}({t}, tag // '%{mb.name}')")
                else:
                    L.append(f'{ind}do k = 1, {mb.ext[0]}')
                    L.append(f"{ind}  write(ck, '(i1)') k")
                    L.append(f"{ind}  call print_{mb.ty.name}({t}(k), tag // '%{mb.name}' // ck)")
                    L.append(f'{ind}end do')
            else:
                L.append(f"{ind}print *, tag // '%{mb.name}', {t}")
        return L
