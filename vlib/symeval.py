"""
symeval -- typed expression-tree generator over ``loki.expression.symbols`` nodes and an
*independent* evaluator under Fortran semantics (used by C08, C09, C10).

* ``TreeGen(rng, **opts)`` builds integer / real / logical expression trees out of the real Loki
  node classes (Sum, Product, Quotient, Power, Product((-1, x)) for unary minus, Comparison,
  LogicalAnd/Or/Not, Int/Float/LogicLiteral, typed scalar variables; optionally Parenthesised* nodes).
* ``Evaluator(env).ev(expr)`` evaluates a tree for a valuation ``{name: int | float}``:
  integer division truncates toward zero, integer ``**`` follows Fortran (negative exponents truncate),
  mixed int/real operands promote to real, n-ary nodes fold left to right.  Anything outside the
  well-defined fragment (zero divisor, 0**(<=0), non-positive base with real exponent, |int| >= 2**31,
  huge reals) raises ``Undefined`` -- generators reject such (tree, valuation) pairs.
  The evaluator never calls Loki's own evaluation / simplification code.
* ``render(expr)`` prints a tree as fully parenthesised Fortran (own printer, not Loki's ``fgen``).
* ``validate_against_gfortran(workdir, rng)`` compiles ONE batch program of generated trees, runs it on
  several valuations and compares every printed value with the Python evaluator (ints/logicals exactly,
  reals to 1e-12 of the largest intermediate).  Checks call it on every run; a mismatch makes them
  INCONCLUSIVE (the oracle is not to be trusted), never a violation.
"""
import subprocess
from pathlib import Path

import pymbolic.primitives as pmbl
from loki.expression import symbols as sym
from loki.expression import operations as lops
from loki import Scope, BasicType, SymbolAttributes

INT_VARS = ('ia', 'ib', 'ic', 'id')
REAL_VARS = ('xa', 'xb', 'xc')
INT_MAX = 2 ** 31 - 1
REAL_MAX = 1e30
CMP_GAP = 1e-6          # real comparisons closer than this (relative) are "fragile": valuation is skipped

_SCOPE = Scope()
_VARCLS = (sym.Scalar, sym.DeferredTypeSymbol, pmbl.Variable)
_ITYPE = SymbolAttributes(BasicType.INTEGER)
_RTYPE = SymbolAttributes(BasicType.REAL)


def ivar(name):
    return sym.Variable(name=name, type=_ITYPE, scope=_SCOPE)


def rvar(name):
    return sym.Variable(name=name, type=_RTYPE, scope=_SCOPE)


def ilit(v):
    """Integer literal the way the frontends build it: negative values as Product((-1, IntLiteral))."""
    v = int(v)
    if v < 0:
        return sym.Product((-1, sym.IntLiteral(-v)))
    return sym.IntLiteral(v)


def neg(e):
    return sym.Product((-1, e))


class Undefined(Exception):
    """The (tree, valuation) pair is outside the well-defined fragment."""


def trunc_div(a, b):
    q = abs(a) // abs(b)
    return q if (a < 0) == (b < 0) else -q


def int_pow(b, e):
    if e >= 0:
        if b == 0 and e == 0:
            raise Undefined('0**0')
        return b ** e
    if b == 0:
        raise Undefined('0**negative')
    if b == 1:
        return 1
    if b == -1:
        return 1 if e % 2 == 0 else -1
    return 0


def parse_float(text):
    t = str(text).lower().split('_')[0].replace('d', 'e')
    return float(t)


_CMP = {'==': lambda a, b: a == b, '!=': lambda a, b: a != b, '<': lambda a, b: a < b,
        '<=': lambda a, b: a <= b, '>': lambda a, b: a > b, '>=': lambda a, b: a >= b,
        '.eq.': lambda a, b: a == b, '.ne.': lambda a, b: a != b, '.lt.': lambda a, b: a < b,
        '.le.': lambda a, b: a <= b, '.gt.': lambda a, b: a > b, '.ge.': lambda a, b: a >= b,
        '/=': lambda a, b: a != b}


class Evaluator:
    """Fortran-semantics evaluation of a Loki/pymbolic expression tree at one valuation."""

    def __init__(self, env):
        self.env = {k.lower(): v for k, v in env.items()}
        self.mag = 1.0            # largest |real intermediate|
        self.int_divs = 0         # integer divisions evaluated
        self.inexact_divs = 0     # ... with a non-zero remainder (truncation matters)
        self.neg_inexact = 0      # ... with a negative inexact quotient (floor != trunc)
        self.fragile = False      # a real comparison was closer than CMP_GAP

    # -- helpers
    def _chk(self, v):
        if isinstance(v, bool):
            return v
        if isinstance(v, int):
            if abs(v) > INT_MAX:
                raise Undefined('integer overflow')
            return v
        if v != v or abs(v) > REAL_MAX:
            raise Undefined('real out of range')
        if abs(v) > self.mag:
            self.mag = abs(v)
        return v

    def _num(self, v, what):
        if isinstance(v, bool) or not isinstance(v, (int, float)):
            raise Undefined(f'non-numeric operand in {what}')
        return v

    def ev(self, e):  # pylint: disable=too-many-return-statements,too-many-branches
        if isinstance(e, bool):
            return e
        if isinstance(e, int):
            return self._chk(e)
        if isinstance(e, float):
            return self._chk(e)
        if isinstance(e, sym.IntLiteral):
            return self._chk(int(e.value))
        if isinstance(e, sym.FloatLiteral):
            return self._chk(parse_float(e.value))
        if isinstance(e, sym.LogicLiteral):
            return bool(e.value)
        if isinstance(e, pmbl.Sum):
            acc = self._num(self.ev(e.children[0]), 'sum')
            for c in e.children[1:]:
                acc = self._chk(acc + self._num(self.ev(c), 'sum'))
            return acc
        if isinstance(e, pmbl.Product):
            acc = self._num(self.ev(e.children[0]), 'product')
            for c in e.children[1:]:
                acc = self._chk(acc * self._num(self.ev(c), 'product'))
            return acc
        if isinstance(e, pmbl.Quotient):
            n = self._num(self.ev(e.numerator), 'quotient')
            d = self._num(self.ev(e.denominator), 'quotient')
            if d == 0:
                raise Undefined('zero divisor')
            if isinstance(n, int) and isinstance(d, int):
                self.int_divs += 1
                if n % d != 0:
                    self.inexact_divs += 1
                    if (n < 0) != (d < 0):
                        self.neg_inexact += 1
                return self._chk(trunc_div(n, d))
            return self._chk(n / d)
        if isinstance(e, pmbl.Power):
            b = self._num(self.ev(e.base), 'power')
            x = self._num(self.ev(e.exponent), 'power')
            if isinstance(x, int):
                if isinstance(b, int):
                    return self._chk(int_pow(b, x))
                if b == 0.0 and x <= 0:
                    raise Undefined('0.0**(<=0)')
                if abs(x) > 64:
                    raise Undefined('huge exponent')
                try:
                    return self._chk(float(b) ** x)
                except OverflowError as exc:
                    raise Undefined('real overflow') from exc
            if b <= 0:
                raise Undefined('non-positive base with real exponent')
            try:
                return self._chk(float(b) ** x)
            except OverflowError as exc:
                raise Undefined('real overflow') from exc
        if isinstance(e, pmbl.Comparison):
            l = self._num(self.ev(e.left), 'comparison')
            r = self._num(self.ev(e.right), 'comparison')
            if isinstance(l, float) or isinstance(r, float):
                if abs(l - r) <= CMP_GAP * max(self.mag, 1.0):
                    self.fragile = True
            try:
                return _CMP[str(e.operator).lower()](l, r)
            except KeyError as exc:
                raise Undefined(f'unknown comparison operator {e.operator}') from exc
        if isinstance(e, pmbl.LogicalAnd):
            vals = [self._bool(self.ev(c)) for c in e.children]
            return all(vals)
        if isinstance(e, pmbl.LogicalOr):
            vals = [self._bool(self.ev(c)) for c in e.children]
            return any(vals)
        if isinstance(e, pmbl.LogicalNot):
            return not self._bool(self.ev(e.child))
        if isinstance(e, _VARCLS):      # Scalar, DeferredTypeSymbol, ...
            if getattr(e, 'dimensions', None):
                raise Undefined('array element')
            name = e.name.lower()
            if name not in self.env:
                raise Undefined(f'unbound variable {name}')
            return self._chk(self.env[name])
        raise Undefined(f'unsupported node {type(e).__name__}')

    @staticmethod
    def _bool(v):
        if not isinstance(v, bool):
            raise Undefined('non-logical operand of logical operator')
        return v


def evaluate(expr, env):
    """(value, evaluator) or raises Undefined."""
    ev = Evaluator(env)
    return ev.ev(expr), ev


def evaluate_exact(e, env):
    """
    Value of ``e`` over the rationals: every division is exact (no truncation), reals are the exact binary
    fractions of their double values.  Used only to *classify* a value change: a rewriting step that preserves
    this value but not the Fortran value is algebraically valid and wrong only because of integer division / a
    lost real type; a step that changes this value too is an algebra error.  Non-integral exponents fall back
    to floating point.  Returns Fraction or bool; raises Undefined.
    """
    from fractions import Fraction
    envl = {k.lower(): v for k, v in env.items()}

    def num(v):
        if isinstance(v, bool):
            raise Undefined('logical operand in arithmetic')
        return v

    def ev(x):  # pylint: disable=too-many-return-statements,too-many-branches
        if isinstance(x, bool):
            return x
        if isinstance(x, (int, float)):
            return Fraction(x)
        if isinstance(x, sym.IntLiteral):
            return Fraction(int(x.value))
        if isinstance(x, sym.FloatLiteral):
            return Fraction(parse_float(x.value))
        if isinstance(x, sym.LogicLiteral):
            return bool(x.value)
        if isinstance(x, pmbl.Sum):
            return sum((num(ev(c)) for c in x.children), Fraction(0))
        if isinstance(x, pmbl.Product):
            acc = Fraction(1)
            for c in x.children:
                acc *= num(ev(c))
            return acc
        if isinstance(x, pmbl.Quotient):
            d = num(ev(x.denominator))
            if d == 0:
                raise Undefined('zero divisor')
            return num(ev(x.numerator)) / d
        if isinstance(x, pmbl.Power):
            b, p = num(ev(x.base)), num(ev(x.exponent))
            if p.denominator == 1:
                if b == 0 and p <= 0:
                    raise Undefined('0**(<=0)')
                if abs(p) > 64:
                    raise Undefined('huge exponent')
                return b ** int(p)
            if b <= 0:
                raise Undefined('non-positive base with real exponent')
            return Fraction(float(b) ** float(p))
        if isinstance(x, pmbl.Comparison):
            return _CMP[str(x.operator).lower()](num(ev(x.left)), num(ev(x.right)))
        if isinstance(x, pmbl.LogicalAnd):
            return all([bool(ev(c)) for c in x.children])
        if isinstance(x, pmbl.LogicalOr):
            return any([bool(ev(c)) for c in x.children])
        if isinstance(x, pmbl.LogicalNot):
            return not ev(x.child)
        if isinstance(x, _VARCLS):
            if getattr(x, 'dimensions', None) or x.name.lower() not in envl:
                raise Undefined('unbound variable')
            return Fraction(envl[x.name.lower()])
        raise Undefined(f'unsupported node {type(x).__name__}')

    try:
        return ev(e)
    except (OverflowError, ZeroDivisionError) as exc:
        raise Undefined(str(exc)) from exc


def exact_agree(a, b, rtol=1e-9):
    if isinstance(a, bool) or isinstance(b, bool):
        return a is b
    return abs(a - b) <= rtol * max(1, abs(a), abs(b))


def kind_of(v):
    return 'logical' if isinstance(v, bool) else ('integer' if isinstance(v, int) else 'real')


def values_agree(v1, v2, mag=1.0, rtol=1e-9):
    """Numeric agreement: logicals and integers exactly, anything involving a real to rtol*mag."""
    if isinstance(v1, bool) or isinstance(v2, bool):
        return isinstance(v1, bool) and isinstance(v2, bool) and v1 == v2
    if isinstance(v1, int) and isinstance(v2, int):
        return v1 == v2
    return abs(float(v1) - float(v2)) <= rtol * max(mag, 1.0)


# --------------------------------------------------------------------------------------------
# rendering (own printer: fully parenthesised, double precision literals)
# --------------------------------------------------------------------------------------------

def _flt(v):
    t = repr(float(v))
    if 'e' in t:
        return t.replace('e', 'd')
    return t + 'd0'


def render(e):  # pylint: disable=too-many-return-statements
    if isinstance(e, bool):
        return '.true.' if e else '.false.'
    if isinstance(e, int):
        return f'({e})' if e < 0 else str(e)
    if isinstance(e, float):
        return f'({_flt(e)})'
    if isinstance(e, sym.IntLiteral):
        return f'({e.value})' if e.value < 0 else str(e.value)
    if isinstance(e, sym.FloatLiteral):
        return f'({_flt(parse_float(e.value))})'
    if isinstance(e, sym.LogicLiteral):
        return '.true.' if e.value else '.false.'
    if isinstance(e, pmbl.Sum):
        return '(' + ' + '.join(render(c) for c in e.children) + ')'
    if isinstance(e, pmbl.Product):
        return '(' + ' * '.join(render(c) for c in e.children) + ')'
    if isinstance(e, pmbl.Quotient):
        return f'({render(e.numerator)} / {render(e.denominator)})'
    if isinstance(e, pmbl.Power):
        return f'({render(e.base)} ** {render(e.exponent)})'
    if isinstance(e, pmbl.Comparison):
        op = {'!=': '/='}.get(e.operator, e.operator)
        return f'({render(e.left)} {op} {render(e.right)})'
    if isinstance(e, pmbl.LogicalAnd):
        return '(' + ' .and. '.join(render(c) for c in e.children) + ')'
    if isinstance(e, pmbl.LogicalOr):
        return '(' + ' .or. '.join(render(c) for c in e.children) + ')'
    if isinstance(e, pmbl.LogicalNot):
        return f'(.not. {render(e.child)})'
    if isinstance(e, _VARCLS):
        return e.name.lower()
    raise ValueError(f'cannot render {type(e).__name__}')


def shape(e, depth=3):
    """Short structural description (class names) used in samples / witnesses."""
    if isinstance(e, (int, float, bool)):
        return type(e).__name__
    if depth == 0:
        return '..'
    kids = []
    for attr in ('children', ):
        if hasattr(e, attr):
            kids = list(getattr(e, attr))
    if isinstance(e, pmbl.Quotient):
        kids = [e.numerator, e.denominator]
    elif isinstance(e, pmbl.Power):
        kids = [e.base, e.exponent]
    elif isinstance(e, pmbl.Comparison):
        kids = [e.left, e.right]
    elif isinstance(e, pmbl.LogicalNot):
        kids = [e.child]
    name = type(e).__name__
    if not kids:
        return name
    return name + '(' + ','.join(shape(k, depth - 1) for k in kids) + ')'


def has_int_division(e, env):
    """True if evaluating ``e`` at ``env`` performs at least one integer/integer division."""
    try:
        _, ev = evaluate(e, env)
    except Undefined:
        return False
    return ev.int_divs > 0


# --------------------------------------------------------------------------------------------
# generator
# --------------------------------------------------------------------------------------------

class TreeGen:
    """
    Random typed trees.  Options:
      int_div   : 'none' | 'atomic' | 'free'  -- integer/integer quotients: never / only ``leaf / leaf`` whose
                  parent is a sum or a comparison / anywhere (numerators may be sums, products, quotients)
      reals     : allow real-typed variables and literals (mixed-mode arithmetic)
      power     : allow ``**`` (small non-negative integer exponents; a few negative / variable ones)
      real_exp  : allow positive-literal ** real-literal
      paren     : probability of using a Parenthesised* node class for a composite node
      zero_lit  : probability that an integer literal is 0 (never generated as a divisor by itself)
      max_depth : tree depth
      exotic_pow: allow negative-literal and variable exponents of integer powers
    """

    def __init__(self, rng, int_div='atomic', reals=True, power=True, real_exp=False, paren=0.1,
                 zero_lit=0.03, max_depth=4, int_vars=INT_VARS, real_vars=REAL_VARS, exotic_pow=True):
        self.rng = rng
        self.int_div = int_div
        self.reals = reals
        self.power = power
        self.real_exp = real_exp
        self.paren = paren
        self.zero_lit = zero_lit
        self.max_depth = max_depth
        self.int_vars = int_vars
        self.real_vars = real_vars
        self.exotic_pow = exotic_pow
        self.features = set()

    # -- leaves
    def int_leaf(self, nonzero=False):
        r = self.rng
        if r.random() < 0.6:
            return ivar(r.choice(self.int_vars))
        if not nonzero and r.random() < self.zero_lit:
            self.features.add('lit-zero')
            return sym.IntLiteral(0)
        v = r.choice([1, 1, 2, 2, 3, 4, 5, 6, 7, 8, 10, 12])
        if r.random() < 0.25:
            self.features.add('lit-negative')
            return ilit(-v) if r.random() < 0.7 else sym.IntLiteral(-v)
        return sym.IntLiteral(v)

    def real_leaf(self):
        r = self.rng
        if r.random() < 0.6:
            return rvar(r.choice(self.real_vars))
        v = r.choice([0.25, 0.5, 1.0, 1.5, 2.0, 2.5, 3.0, 4.0, 0.75, 10.0])
        self.features.add('lit-real')
        lit = sym.FloatLiteral(repr(v))
        if r.random() < 0.2:
            return neg(lit)
        return lit

    def _cls(self, plain, paren):
        if self.paren and self.rng.random() < self.paren:
            self.features.add('parenthesised-node')
            return paren
        return plain

    # -- integer trees
    def gen_int(self, depth=None, ctx='top'):
        """ctx is the parent kind: 'top' | 'sum' | 'cmp' | 'other' (used by int_div='atomic')."""
        r = self.rng
        depth = self.max_depth if depth is None else depth
        if depth <= 0 or r.random() < 0.18:
            return self.int_leaf()
        kinds = ['sum', 'sum', 'sub', 'prod', 'prod', 'neg']
        if self.int_div == 'free' or (self.int_div == 'atomic' and ctx in ('top', 'sum', 'cmp')):
            kinds += ['div', 'div']
        if self.power:
            kinds += ['pow']
        k = r.choice(kinds)
        if k == 'sum':
            n = r.choice([2, 2, 3])
            self.features.add('int-sum')
            return self._cls(sym.Sum, lops.ParenthesisedAdd)(tuple(self.gen_int(depth - 1, 'sum') for _ in range(n)))
        if k == 'sub':
            self.features.add('int-sub')
            return sym.Sum((self.gen_int(depth - 1, 'sum'), neg(self.gen_int(depth - 1, 'other'))))
        if k == 'prod':
            n = r.choice([2, 2, 3])
            self.features.add('int-product')
            return self._cls(sym.Product, lops.ParenthesisedMul)(
                tuple(self.gen_int(depth - 1, 'other') for _ in range(n)))
        if k == 'neg':
            self.features.add('unary-minus')
            return neg(self.gen_int(depth - 1, 'other'))
        if k == 'div':
            cls = self._cls(sym.Quotient, lops.ParenthesisedDiv)
            if self.int_div == 'atomic':
                self.features.add('int-div-atomic')
                num = self.int_leaf()
                if r.random() < 0.3:
                    num = sym.Product((sym.IntLiteral(r.choice([2, 3, 4, 6])), num))
                return cls(num, self.int_leaf(nonzero=True))
            self.features.add('int-div-free')
            return cls(self.gen_int(depth - 1, 'other'), self.gen_int(min(depth - 1, 1), 'other'))
        # pow
        self.features.add('int-power')
        base = self.gen_int(min(depth - 1, 1), 'other')
        q = r.random()
        if q < 0.8 or not self.exotic_pow:
            ex = sym.IntLiteral(r.choice([0, 1, 2, 2, 3]))
        elif q < 0.9:
            self.features.add('power-negative-exponent')
            ex = ilit(-r.choice([1, 2]))
        else:
            self.features.add('power-variable-exponent')
            ex = ivar(r.choice(self.int_vars))
        return sym.Power(base, ex)

    # -- real (mixed) trees
    def gen_real(self, depth=None):
        r = self.rng
        depth = self.max_depth if depth is None else depth
        if depth <= 0 or r.random() < 0.18:
            return self.real_leaf()
        kinds = ['sum', 'sum', 'sub', 'prod', 'prod', 'neg', 'div', 'mixed', 'mixed']
        if self.power:
            kinds += ['pow']
        k = r.choice(kinds)

        def operand(d):
            # mixed-mode: an integer subtree among real operands
            if r.random() < 0.3:
                self.features.add('mixed-mode')
                return self.gen_int(min(d, 2), 'other')
            return self.gen_real(d)

        if k == 'sum':
            n = r.choice([2, 2, 3])
            self.features.add('real-sum')
            kids = [self.gen_real(depth - 1)] + [operand(depth - 1) for _ in range(n - 1)]
            r.shuffle(kids)
            return self._cls(sym.Sum, lops.ParenthesisedAdd)(tuple(kids))
        if k == 'sub':
            self.features.add('real-sub')
            return sym.Sum((self.gen_real(depth - 1), neg(operand(depth - 1))))
        if k in ('prod', 'mixed'):
            n = r.choice([2, 2, 3])
            self.features.add('real-product')
            kids = [self.gen_real(depth - 1)] + [operand(depth - 1) for _ in range(n - 1)]
            r.shuffle(kids)
            return self._cls(sym.Product, lops.ParenthesisedMul)(tuple(kids))
        if k == 'neg':
            self.features.add('unary-minus')
            return neg(self.gen_real(depth - 1))
        if k == 'div':
            self.features.add('real-div')
            cls = self._cls(sym.Quotient, lops.ParenthesisedDiv)
            if r.random() < 0.5:
                return cls(operand(depth - 1), self.gen_real(min(depth - 1, 2)))
            return cls(self.gen_real(depth - 1), operand(min(depth - 1, 2)))
        # pow
        self.features.add('real-power')
        if self.real_exp and r.random() < 0.3:
            self.features.add('power-real-exponent')
            base = sym.IntLiteral(r.choice([2, 3, 4])) if r.random() < 0.5 else sym.FloatLiteral(r.choice(['1.5', '2.0', '4.0']))
            return sym.Power(base, sym.FloatLiteral(r.choice(['2.0', '0.5', '3.0', '1.0'])))
        return sym.Power(self.gen_real(min(depth - 1, 1)), sym.IntLiteral(r.choice([0, 1, 2, 2, 3])))

    def gen_arith(self, depth=None):
        if self.reals and self.rng.random() < 0.45:
            return self.gen_real(depth)
        return self.gen_int(depth, 'top')

    # -- logical trees
    def gen_cmp(self, depth):
        r = self.rng
        op = r.choice(['==', '!=', '<', '<=', '>', '>='])
        self.features.add('comparison')
        if self.reals and r.random() < 0.35:
            self.features.add('comparison-real')
            op = r.choice(['<', '<=', '>', '>='])
            return sym.Comparison(self.gen_real(depth), op, self.gen_arith(depth))
        q = r.random()
        if q < 0.25:
            self.features.add('comparison-literals')
            if r.random() < 0.4:
                # boundary: both sides have the same value, spelled differently
                self.features.add('comparison-literals-equal-values')
                c, k = r.choice([-3, -1, 0, 2, 5, 7]), r.choice([1, 2, 4])
                left = ilit(c) if r.random() < 0.5 else sym.Product((ilit(c), sym.IntLiteral(1)))
                right = ilit(c) if r.random() < 0.4 else sym.Sum((ilit(c - k), sym.IntLiteral(k)))
                if r.random() < 0.5:
                    left, right = right, left
                return sym.Comparison(left, op, right)
            return sym.Comparison(self._const_int(), op, self._const_int())
        return sym.Comparison(self.gen_int(depth, 'cmp'), op, self.gen_int(depth, 'cmp'))

    def _const_int(self):
        r = self.rng
        q = r.random()
        a, b = r.choice([0, 1, 2, 3, 5, 7]), r.choice([1, 2, 3, 4])
        if q < 0.4:
            return ilit(r.choice([-3, -1, 0, 1, 2, 5]))
        if q < 0.7:
            return sym.Sum((ilit(a), ilit(r.choice([-2, 1, 3]))))
        if q < 0.85:
            return sym.Product((ilit(a), ilit(r.choice([-2, 2, 3]))))
        if self.int_div != 'none':
            return sym.Quotient(sym.IntLiteral(a), sym.IntLiteral(b))
        return ilit(a)

    def gen_logical(self, depth=None):
        r = self.rng
        depth = 3 if depth is None else depth
        if depth <= 0 or r.random() < 0.35:
            if r.random() < 0.2:
                self.features.add('logic-literal')
                return sym.LogicLiteral(r.choice(['True', 'False']))
            return self.gen_cmp(min(self.max_depth - 1, 2))
        k = r.choice(['and', 'or', 'not'])
        if k == 'not':
            self.features.add('logical-not')
            return sym.LogicalNot(self.gen_logical(depth - 1))
        n = r.choice([2, 2, 3])
        self.features.add('logical-' + k)
        cls = sym.LogicalAnd if k == 'and' else sym.LogicalOr
        return cls(tuple(self.gen_logical(depth - 1) for _ in range(n)))


def gen_env(rng, int_vars=INT_VARS, real_vars=REAL_VARS, small=False):
    """One valuation: non-zero integers of mixed sign, reals on a 1/4 grid."""
    env = {}
    for n in int_vars:
        if small or rng.random() < 0.8:
            v = rng.randint(1, 9)
        else:
            v = rng.randint(10, 40)
        env[n] = v if rng.random() < 0.6 else -v
    for n in real_vars:
        v = rng.randint(1, 32) / 4.0
        env[n] = v if rng.random() < 0.65 else -v
    return env


def gen_valuations(rng, expr, n, tries=None, want_inexact=True, extra=(), **kw):
    """
    ``n`` valuations at which ``expr`` (and every expression in ``extra``) is well-defined and not fragile.
    With ``want_inexact`` valuations at which an integer division has a non-zero remainder are preferred
    (at least half of the result if such valuations were found).  Returns (envs, n_inexact) or (None, 0).
    """
    tries = tries or 12 * n
    good, inexact = [], []
    for _ in range(tries):
        env = gen_env(rng, **kw)
        try:
            _, ev = evaluate(expr, env)
            if ev.fragile:
                continue
            for x in extra:
                _, ev2 = evaluate(x, env)
                if ev2.fragile:
                    raise Undefined('fragile')
        except Undefined:
            continue
        (inexact if ev.inexact_divs else good).append(env)
        if len(inexact) >= n or (len(good) >= n and len(inexact) >= (n + 1) // 2) or \
                (not want_inexact and len(good) + len(inexact) >= n):
            break
    if len(good) + len(inexact) < n:
        return None, 0
    if want_inexact:
        take_inexact = inexact[:n]
        envs = take_inexact + good[:n - len(take_inexact)]
    else:
        envs = (good + inexact)[:n]
        take_inexact = [e for e in envs if e in inexact]
    return envs, len(take_inexact)


# --------------------------------------------------------------------------------------------
# validation of the evaluator against gfortran
# --------------------------------------------------------------------------------------------

def batch_program(exprs_kinds, nval, int_vars=INT_VARS, real_vars=REAL_VARS):
    lines = ['program symeval_batch', 'implicit none',
             'integer :: ' + ', '.join(int_vars) + ', kk',
             'real(kind=8) :: ' + ', '.join(real_vars),
             f'do kk = 1, {nval}',
             '  read(*,*) ' + ', '.join(list(int_vars) + list(real_vars))]
    for i, (e, kind) in enumerate(exprs_kinds):
        text = render(e)
        if kind == 'integer':
            lines.append(f"  print '(A,1X,I0,1X,I0)', 'I', {i}, &\n    & {text}")
        elif kind == 'real':
            lines.append(f"  print '(A,1X,I0,1X,ES26.17E3)', 'R', {i}, &\n    & {text}")
        else:
            lines.append(f"  print '(A,1X,I0,1X,L1)', 'L', {i}, &\n    & {text}")
    lines += ['end do', 'end program symeval_batch', '']
    return '\n'.join(lines)


def compile_and_run(workdir, source, stdin, name='batch.F90', timeout=120):
    """gfortran -O0 with run-time checks and FPE traps; returns (ok, stdout, message)."""
    workdir = Path(workdir)
    workdir.mkdir(parents=True, exist_ok=True)
    (workdir / name).write_text(source)
    cmd = ['gfortran', '-O0', '-fcheck=all', '-ffpe-trap=invalid,zero,overflow', '-ffree-line-length-none',
           '-w', name, '-o', 'batch.x']
    try:
        p = subprocess.run(cmd, cwd=str(workdir), capture_output=True, text=True, timeout=timeout, check=False)
    except subprocess.TimeoutExpired:
        return False, '', 'gfortran timed out'
    if p.returncode != 0:
        return False, '', 'gfortran failed: ' + p.stderr[-800:]
    try:
        p = subprocess.run([str(workdir / 'batch.x')], cwd=str(workdir), capture_output=True, text=True,
                           timeout=timeout, input=stdin, check=False)
    except subprocess.TimeoutExpired:
        return False, '', 'batch program timed out'
    if p.returncode != 0:
        return False, p.stdout, f'batch program rc={p.returncode}: {p.stderr[-600:]}'
    return True, p.stdout, ''


def validate_against_gfortran(workdir, rng, ntrees=120, nval=6, gen_opts=None):
    """
    Generate ``ntrees`` trees (all kinds, integer division anywhere, powers, logicals), evaluate them at
    ``nval`` shared valuations with the Python evaluator and with one gfortran batch program.
    Returns dict(ok=bool, compared=int, mismatches=[...], detail=str).
    """
    opts = dict(int_div='free', reals=True, power=True, real_exp=True, paren=0.1, zero_lit=0.05)
    opts.update(gen_opts or {})
    envs = [gen_env(rng) for _ in range(nval)]
    items = []
    guard = 0
    while len(items) < ntrees and guard < ntrees * 60:
        guard += 1
        g = TreeGen(rng, **opts)
        q = rng.random()
        e = g.gen_int() if q < 0.45 else (g.gen_real() if q < 0.8 else g.gen_logical())
        try:
            vals = []
            for env in envs:
                v, ev = evaluate(e, env)
                if ev.fragile:
                    raise Undefined('fragile')
                vals.append((v, ev.mag))
        except Undefined:
            continue
        if len({kind_of(v) for v, _ in vals}) != 1:
            continue
        items.append((e, kind_of(vals[0][0]), vals))
    if len(items) < ntrees // 2:
        return {'ok': False, 'compared': 0, 'mismatches': [], 'detail': 'generator produced too few defined trees'}
    src = batch_program([(e, k) for e, k, _ in items], nval)
    stdin = ''.join(' '.join([str(env[n]) for n in INT_VARS] + [_flt(env[n]) for n in REAL_VARS]) + '\n'
                    for env in envs)
    ok, out, msg = compile_and_run(workdir, src, stdin)
    if not ok:
        return {'ok': False, 'compared': 0, 'mismatches': [], 'detail': msg}
    seen = {}
    for ln in out.splitlines():
        p = ln.split()
        if len(p) != 3 or p[0] not in 'IRL':
            continue
        seen.setdefault(int(p[1]), []).append((p[0], p[2]))
    compared, mism, n_inexact = 0, [], 0
    for i, (e, kind, vals) in enumerate(items):
        got = seen.get(i, [])
        if len(got) != nval:
            mism.append({'expr': render(e), 'why': f'{len(got)} of {nval} values printed'})
            continue
        for (v, mag), (tag, txt), env in zip(vals, got, envs):
            compared += 1
            if kind == 'integer':
                same = tag == 'I' and int(txt) == v
            elif kind == 'logical':
                same = tag == 'L' and (txt == 'T') == v
            else:
                same = tag == 'R' and abs(float(txt) - v) <= 1e-12 * max(mag, 1.0)
            if not same:
                mism.append({'expr': render(e), 'env': env, 'python': v, 'gfortran': txt})
    for e, _, _ in items:
        for env in envs:
            n_inexact += evaluate(e, env)[1].inexact_divs
    return {'ok': not mism, 'compared': compared, 'mismatches': mism[:5], 'detail': '',
            'trees': len(items), 'inexact_int_divisions': n_inexact}
