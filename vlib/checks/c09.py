"""C09 -- symbolic_op only gives a definite True/False when it holds for all values."""
import operator as op

from vlib import symeval as se
from vlib.core import CaseTimeout
from vlib import symmon

PID = 'C09'
LEVEL = 'exploration'
TECHNIQUE = 'outcome monitor on symbolic_op: every definite bool refuted/confirmed by evaluation at 64 valuations'
LEVEL_TEXT = ('each definite True/False returned by the real loki.expression.symbolic.symbolic_op for generated '
              'pairs of integer trees and all six comparison operators is compared with the truth of the comparison '
              'at 64 valuations (boundary values -2..2, all-equal assignments, random); one contradicting valuation '
              'is a violation witness. Raising or returning a non-bool is accepted. Refutation only.')
LEVEL_NOTE = ('trusts the Python evaluator of vlib/symeval.py (validated against gfortran in case 0 of every run); '
              'a definite answer that holds at all 64 sampled valuations is counted as not refuted, not as proved')
RULE = ('case 0: evaluator validation. Other cases: one pair (a, b) of integer trees x 6 operators. Pair kinds: '
        'offset (b = semantics-preserving rewrite of a, plus k in {0, +-1, +-2, +-5}), negated (a vs -a + k), '
        'unrelated random trees, sign-definite non-linear differences (a*a + k vs 0), possibly-zero (a vs 0, -a vs 0, '
        'a*b vs 0), and a 5 % slice with integer quotients. eq/ne on pairs whose difference is not constant by '
        'construction are exercised in 1 case of 8 only (known mechanism), the four order operators always. '
        'Non-trivial = at least one operator returned a definite bool that was evaluated at 64 valuations; '
        'distinct = rendered pair.')
CASES = {'quick': 4000, 'thorough': 240000}
THOROUGH_VALIDATED = True   # full thorough tier ran to completion with exit 0 on the unchanged tree
MIN_NONTRIVIAL = {'quick': 1200, 'thorough': 40000}
ANCHORS = ['loki/expression/symbolic.py']
REQUIRED_REACH = ['symbolic_op', 'is_minus_prefix', 'strip_minus_prefix', 'simplify']
REQUIRED_COUNTERS = {'evaluator_validated_values': 500, 'definite_answers_checked': 2000,
                     'outcome_raised': 500, 'valuation_evaluations': 100000}
ASSUMPTIONS = ['64 sampled valuations per pair: a wrong definite answer is only found if a sampled valuation refutes it',
               'any exception and any non-bool return value counts as "not answered" (always acceptable)',
               'integer variables range over small values: no overflow semantics']
BUDGET_S = {'quick': 600, 'thorough': 3000}
CASE_TIMEOUT_S = 60

OPS = [('eq', op.eq), ('ne', op.ne), ('lt', op.lt), ('le', op.le), ('gt', op.gt), ('ge', op.ge)]
NENV = 64


def setup_worker(tier, ctx):
    symmon.install()


def validation_case(idx, rng, tier, ctx):
    r = se.validate_against_gfortran(ctx['scratch'] / f'val{idx}', rng, ntrees=150,
                                     gen_opts={'reals': False})
    res = {'sig': f'validation-{idx}', 'nontrivial': False, 'violations': [], 'inconclusive': None,
           'features': ['evaluator-validation'],
           'counters': {'evaluator_validated_values': r['compared'],
                        'evaluator_mismatches': len(r['mismatches'])}}
    if not r['ok']:
        res['inconclusive'] = 'evaluator validation against gfortran failed: ' + (r['detail'] or str(r['mismatches'][:2]))
    return res


# ---------------------------------------------------------------------------------------------
# pair generator
# ---------------------------------------------------------------------------------------------

def rewrite(e, rng, depth=0):
    """A semantics-preserving rewrite of an integer tree (commutation, regrouping, +t-t, --e, manual distribution)."""
    import pymbolic.primitives as pmbl
    from loki.expression import symbols as sym
    if isinstance(e, (int, float)) or not isinstance(e, (pmbl.Sum, pmbl.Product)):
        q = rng.random()
        if q < 0.1:
            return se.neg(se.neg(e))
        if q < 0.2:
            return sym.Sum((e, sym.IntLiteral(0)))
        if q < 0.3:
            return sym.Product((sym.IntLiteral(1), e))
        return e
    if isinstance(e, pmbl.Sum):
        kids = [rewrite(c, rng, depth + 1) for c in e.children]
        rng.shuffle(kids)
        q = rng.random()
        if q < 0.25:
            t = se.TreeGen(rng, int_div='none', reals=False, power=False, paren=0, max_depth=1).gen_int()
            kids.insert(rng.randrange(len(kids) + 1), t)
            kids.insert(rng.randrange(len(kids) + 1), se.neg(t))
        elif q < 0.45 and len(kids) >= 3:
            kids = [sym.Sum(tuple(kids[:2]))] + kids[2:]
        return sym.Sum(tuple(kids))
    # product
    kids = list(e.children)
    if len(kids) == 2 and kids[0] == -1:
        inner = rewrite(kids[1], rng, depth + 1)
        if isinstance(inner, pmbl.Sum) and rng.random() < 0.5:
            return sym.Sum(tuple(se.neg(c) for c in inner.children))
        return se.neg(inner)
    kids = [rewrite(c, rng, depth + 1) for c in kids]
    rng.shuffle(kids)
    sums = [k for k in kids if isinstance(k, pmbl.Sum)]
    if sums and rng.random() < 0.4:
        s = sums[0]
        rest = [k for k in kids if k is not s]
        if rest:
            return sym.Sum(tuple(sym.Product(tuple(rest + [c])) for c in s.children))
    q = rng.random()
    if q < 0.15 and kids and isinstance(kids[0], sym.IntLiteral) and kids[0].value == 2 and len(kids) >= 2:
        rest = sym.Product(tuple(kids[1:])) if len(kids) > 2 else kids[1]
        return sym.Sum((rest, rest))
    return sym.Product(tuple(kids))


def gen_pair(rng, idx):
    from loki.expression import symbols as sym
    feats = set()
    q = rng.random()
    if idx % 20 == 7:
        kind = 'int-division'
    elif q < 0.38:
        kind = 'offset'
    elif q < 0.48:
        kind = 'negated'
    elif q < 0.76:
        kind = 'unrelated'
    elif q < 0.88:
        kind = 'nonlinear'
    else:
        kind = 'possibly-zero'
    g = se.TreeGen(rng, int_div='none', reals=False, power=rng.random() < 0.4, paren=0.05, zero_lit=0.02,
                   max_depth=rng.choice([1, 2, 2, 3, 3]), exotic_pow=False)
    decidable = False
    if kind == 'offset':
        a = g.gen_int()
        k = rng.choice([0, 0, 1, -1, 2, -2, 5, -5])
        b = rewrite(a, rng)
        feats.add(f'offset:{"zero" if k == 0 else ("pos" if k > 0 else "neg")}')
        if k != 0 or rng.random() < 0.3:
            b = sym.Sum((b, se.ilit(k))) if rng.random() < 0.7 else sym.Sum((se.ilit(k), b))
        if rng.random() < 0.5:
            a, b = b, a
        decidable = True
    elif kind == 'negated':
        a = g.gen_int()
        k = rng.choice([0, 0, 1, -1, 3])
        b = se.neg(rewrite(a, rng))
        if k:
            b = sym.Sum((b, se.ilit(k)))
        if rng.random() < 0.5:
            a, b = b, a
    elif kind == 'unrelated':
        a, b = g.gen_int(), g.gen_int()
        if rng.random() < 0.3:
            # linear with different coefficients: c1*v + k1 vs c2*v + k2
            v = se.ivar(rng.choice(se.INT_VARS))
            a = sym.Sum((sym.Product((sym.IntLiteral(rng.choice([1, 2, 3])), v)), se.ilit(rng.choice([-2, 0, 1, 4]))))
            b = sym.Sum((sym.Product((sym.IntLiteral(rng.choice([1, 2, 3])), v)), se.ilit(rng.choice([-2, 0, 1, 4]))))
            feats.add('linear-same-variable')
    elif kind == 'nonlinear':
        e = g.gen_int(2)
        k = rng.choice([0, 1, 1, 2, -1])
        a = sym.Sum((sym.Product((e, e)), se.ilit(k))) if rng.random() < 0.6 else sym.Sum((sym.Power(e, sym.IntLiteral(2)), se.ilit(k)))
        b = sym.IntLiteral(0) if rng.random() < 0.6 else se.ilit(rng.choice([-1, 1, -3]))
        if rng.random() < 0.5:
            a, b = b, a
    elif kind == 'possibly-zero':
        e = g.gen_int(rng.choice([0, 1, 2]))
        q2 = rng.random()
        if q2 < 0.3:
            a = e
        elif q2 < 0.6:
            a = se.neg(e)
        elif q2 < 0.8:
            a = sym.Product((e, g.gen_int(1)))
        else:
            a = sym.Product((sym.IntLiteral(rng.choice([2, 3])), e))
        b = sym.IntLiteral(0)
        if rng.random() < 0.5:
            a, b = b, a
    else:
        gd = se.TreeGen(rng, int_div='free', reals=False, power=False, paren=0.05, max_depth=rng.choice([2, 3]))
        a = gd.gen_int()
        q2 = rng.random()
        if q2 < 0.4:
            b = sym.Sum((rewrite(a, rng), se.ilit(rng.choice([0, 1, -1]))))
        elif q2 < 0.7:
            v = se.ivar(rng.choice(se.INT_VARS))
            d = sym.IntLiteral(rng.choice([2, 3, 4]))
            a = sym.Sum((sym.Quotient(v, d), sym.Quotient(v, d)))
            b = v if rng.random() < 0.5 else sym.Product((sym.IntLiteral(2), sym.Quotient(v, d)))
        elif q2 < 0.85:
            u, v = se.ivar(rng.choice(se.INT_VARS)), se.ivar(rng.choice(se.INT_VARS))
            d = sym.IntLiteral(rng.choice([2, 3, 4]))
            a = sym.Quotient(sym.Sum((u, v)), d)
            b = sym.Sum((sym.Quotient(u, d), sym.Quotient(v, d), se.ilit(rng.choice([0, 1, -1]))))
        else:
            b = gd.gen_int()
        g.features |= gd.features
    feats |= g.features
    feats.add('pair:' + kind)
    return a, b, kind, decidable, feats


def gen_envs(rng, a, b):
    """64 valuations at which both trees are defined: all-equal and boundary values first, then random."""
    names = se.INT_VARS
    cands = [{n: v for n in names} for v in (-2, -1, 0, 1, 2)]
    for _ in range(40):
        cands.append({n: rng.randint(-2, 2) for n in names})
    for _ in range(400):
        cands.append({n: rng.randint(-30, 30) for n in names})
    envs = []
    for env in cands:
        try:
            va, _ = se.evaluate(a, env)
            vb, _ = se.evaluate(b, env)
        except se.Undefined:
            continue
        envs.append((env, va, vb))
        if len(envs) >= NENV:
            break
    return envs


def classify(a, b, opname, answer):
    """Mechanism key for a refuted definite answer."""
    from loki.expression import symbolic as S
    from loki.expression import symbols as sym
    simp = symmon.original_simplify()
    diff_in = a - b
    try:
        d = simp(diff_in)
    except CaseTimeout:
        raise
    except Exception as exc:  # pylint: disable=broad-except
        return f'symop:simplify-raised:{type(exc).__name__}', None
    envs = [{n: v for n in se.INT_VARS} for v in (-2, -1, 1, 2, 3)]
    import random
    r = random.Random(12345)
    envs += [{n: r.randint(-30, 30) for n in se.INT_VARS} for _ in range(60)]
    rep = symmon.compare(diff_in, d, envs)
    if rep is not None:
        key, _ = symmon.attribute(diff_in, S.Simplification.ALL, envs)
        return 'symop:unsound-' + key, {'difference': se.render(diff_in), 'simplified': se.render(d), 'why': rep['why']}
    detail = {'simplified_difference': str(d)}
    if not S.is_constant(d):
        if opname in ('eq', 'ne'):
            return 'symop:eq-ne-structural-answer-on-nonconstant-difference', detail
        return f'symop:order-answer-on-nonconstant-difference:{opname}', detail
    if S.is_minus_prefix(d):
        return f'symop:minus-prefix-constant:{opname}', detail
    if isinstance(d, sym.IntLiteral):
        return f'symop:constant-compare:{opname}', detail
    return f'symop:other-constant:{type(d).__name__}:{opname}', detail


def run_case(idx, rng, tier, ctx):
    if idx == 0:
        return validation_case(idx, rng, tier, ctx)
    from loki.expression import symbolic as S
    for _ in range(30):
        a, b, kind, decidable, feats = gen_pair(rng, idx)
        envs = gen_envs(rng, a, b)
        if len(envs) >= NENV:
            break
    else:
        return {'sig': f'nogen-{idx}', 'nontrivial': False, 'violations': [], 'inconclusive':
                'generator could not find 64 defined valuations', 'counters': {}, 'features': []}
    ta, tb = se.render(a), se.render(b)
    res = {'sig': ta + ' ? ' + tb, 'nontrivial': False, 'violations': [], 'inconclusive': None,
           'features': sorted(feats), 'counters': {}}
    cnt = {'symbolic_op_calls': 0, 'definite_answers_checked': 0, 'outcome_true': 0, 'outcome_false': 0,
           'outcome_raised': 0, 'outcome_nonbool': 0, 'valuation_evaluations': 0, 'definite_not_refuted': 0,
           'eqne_skipped_known_slice': 0}
    eqne_slice = idx % 8 == 0
    if eqne_slice:
        res['features'].append('slice:eq-ne-on-undecidable')
    outcomes = {}
    seen = set()
    for name, fn in OPS:
        if name in ('eq', 'ne') and not decidable and not eqne_slice:
            cnt['eqne_skipped_known_slice'] += 1
            continue
        symmon.MON.begin(None)
        try:
            ans = S.symbolic_op(a, fn, b)
        except CaseTimeout:
            raise
        except Exception as exc:  # pylint: disable=broad-except
            cnt['outcome_raised'] += 1
            outcomes[name] = 'raised ' + type(exc).__name__
            res['features'].append('raised:' + type(exc).__name__)
            continue
        finally:
            symmon.MON.end()
            cnt['symbolic_op_calls'] += 1
        if not isinstance(ans, bool):
            cnt['outcome_nonbool'] += 1
            outcomes[name] = 'non-bool ' + type(ans).__name__
            continue
        cnt['outcome_true' if ans else 'outcome_false'] += 1
        cnt['definite_answers_checked'] += 1
        outcomes[name] = ans
        refuted = None
        for env, va, vb in envs:
            cnt['valuation_evaluations'] += 1
            if fn(va, vb) != ans:
                refuted = (env, va, vb)
                break
        if refuted is None:
            cnt['definite_not_refuted'] += 1
            continue
        key, detail = classify(a, b, name, ans)
        if key in seen:
            continue
        seen.add(key)
        env, va, vb = refuted
        used = {k: v for k, v in env.items() if k in ta + tb}
        res['violations'].append({
            'key': key,
            'msg': f'symbolic_op({ta}, {name}, {tb}) = {ans} but at {used} the sides are {va} and {vb}'[:500],
            'witness': {'a': ta, 'b': tb, 'a_loki': str(a), 'b_loki': str(b), 'op': name, 'answer': ans,
                        'valuation': used, 'a_value': va, 'b_value': vb, 'pair_kind': kind, 'detail': detail}})
    res['counters'] = cnt
    res['nontrivial'] = cnt['definite_answers_checked'] > 0
    res['sample'] = {'a': ta, 'b': tb, 'kind': kind, 'outcomes': outcomes, 'valuations': len(envs)}
    return res


def finalize(agg, tier):
    c = agg['counters']
    if c.get('evaluator_mismatches', 0) > 0:
        agg.setdefault('extra_inconclusive', []).append(
            f"evaluator disagreed with gfortran on {c['evaluator_mismatches']} values: oracle not trusted")
    agg['extra_coverage'] = {'valuations_per_definite_answer': NENV, 'operators': [n for n, _ in OPS]}
