"""C22 -- Scheduler.process visits each selected item exactly once, in dependency order.

Event-log checker: a probe transformation (schedlab.ProbeTransformation) records every
transform_* / plan_* invocation; the log is checked offline against the real scheduler graph
(any valid topological order is accepted), the generator's ground truth (files, module
procedures, internal procedures, dependency mentions) and the reference item configuration.
"""
import shutil
from vlib import schedlab as L
from vlib.core import sighash

PID = 'C22'
LEVEL = 'exploration'
TECHNIQUE = 'event-log checker over a probe transformation (offline oracle: selection, once-only, order, role/mode/targets)'
LEVEL_TEXT = ('Random projects x configurations x transformation manifests (item filters, reverse traversal, file-graph '
              'traversal, processing of ignored items, recursion flags, strict on/off, mode filter, pipelines, SEQUENCE '
              'and PLAN): every recorded application is checked for selection (exactly the selected items, once), '
              'dependency order on the real graph, role/mode from the config and targets from the ground truth.')
LEVEL_NOTE = ('The traversal of the real graph is deterministic, so one topological order per manifest is observed; any '
              'valid order is accepted. Correctness of the graph itself is C21. Cyclic file graphs, InterfaceItem '
              'dispatch, and mode filtering of non-procedure items are left open by the docs and not judged.')
RULE = ('schedlab project (6-24 routines) + config; one real Scheduler per case, 8 (quick) / 16 (thorough) random '
        'manifests processed with the probe. Non-trivial = at least 4 manifests checked, >= 20 applications recorded '
        'and an order constraint was evaluated; distinct = hash of (sources, config, manifests).')
CASES = {'quick': 200, 'thorough': 3000}
MIN_NONTRIVIAL = {'quick': 100, 'thorough': 1500}
ANCHORS = ['loki/batch/scheduler.py', 'loki/batch/sfilter.py', 'loki/batch/sgraph.py', 'loki/batch/transformation.py']
REQUIRED_REACH = ['process_transformation', 'as_filegraph', 'apply_subroutine', 'apply_file', 'get_sub_sgraph']
REQUIRED_COUNTERS = {'manifests_checked': 300, 'applications_recorded': 3000, 'order_constraints': 1000,
                     'targets_checked': 1000, 'filegraph_manifests': 30, 'plan_manifests': 30}
ASSUMPTIONS = ['the real scheduler graph is taken as given (C21 checks it); selection, order and arguments are judged '
               'against it and against the generator ground truth',
               'documented rules: Transformation manifest docstrings, SFilter docstring, docs/source/transform.rst']
BUDGET_S = {'quick': 400, 'thorough': 3000}
CASE_TIMEOUT_S = 240

PROC_LIKE = ('ProcedureItem', 'ProcedureBindingItem', 'InterfaceItem')
FILTERS = [('ProcedureItem',), ('ProcedureItem',), ('ProcedureItem', 'ModuleItem'), ('ModuleItem',),
           ('ProcedureItem', 'TypeDefItem'), ('TypeDefItem',), ('Item',),
           ('ProcedureItem', 'ProcedureBindingItem', 'InterfaceItem'), ('ProcedureBindingItem',),
           ('ProcedureItem', 'ModuleItem', 'TypeDefItem')]


def gen_manifest(rng, can_sequence, enable_imports):
    m = {'item_filter': rng.choice(FILTERS), 'reverse_traversal': rng.random() < 0.4,
         'traverse_file_graph': rng.random() < 0.3, 'process_ignored_items': rng.random() < 0.4,
         'recurse_to_modules': rng.random() < 0.3, 'recurse_to_procedures': rng.random() < 0.3,
         'recurse_to_internal_procedures': rng.random() < 0.3}
    m['plan'] = (not can_sequence) or rng.random() < 0.35
    m['mode_filter'] = None
    m['pipeline'] = rng.random() < 0.15
    if not m['traverse_file_graph'] and rng.random() < 0.2:
        m['mode_filter'] = rng.choice(['idem', 'scc', 'plain', 'other'])
    if not m['plan'] and not enable_imports:
        # without enable_imports only files with procedures of the graph are fully parsed (documented limitation):
        # transformations that touch other scopes need complete sources
        m['item_filter'] = ('ProcedureItem',)
    return m


def run_manifest(sched, man):
    """Process the probe(s); returns (log, error)"""
    import loki.batch as B   # pylint: disable=import-outside-toplevel
    filt = tuple(getattr(B, name) for name in man['item_filter'])
    kw = {k: man[k] for k in ('reverse_traversal', 'traverse_file_graph', 'process_ignored_items',
                              'recurse_to_modules', 'recurse_to_procedures', 'recurse_to_internal_procedures')}
    kw['item_filter'] = filt if len(filt) > 1 else filt[0]
    log = []
    strategy = B.ProcessingStrategy.PLAN if man['plan'] else B.ProcessingStrategy.SEQUENCE
    err = None
    try:
        if man['pipeline'] or man['mode_filter']:
            pipe = B.Pipeline(classes=())
            pipe += L.ProbeTransformation(log=log, tag=0, **kw)
            if man['pipeline']:
                pipe += L.ProbeTransformation(log=log, tag=1, **kw)
            if man['mode_filter']:
                sched.process_pipeline(pipe, proc_strategy=strategy, mode=man['mode_filter'])
            else:
                sched.process(pipe, proc_strategy=strategy)
        else:
            sched.process(L.ProbeTransformation(log=log, tag=0, **kw), proc_strategy=strategy)
    except Exception as e:  # pylint: disable=broad-except
        err = e
    return log, err


def expected_targets(truth, conf, gdisable, name):
    """(must contain, must not contain) local names for Item.targets, from the ground truth;
    values: the qualified dependency the local name stands for"""
    must, mustnot = {}, {}
    own = list(conf.get('disable', []) or []) + list(conf.get('block', []) or [])
    for d in truth['items'].get(name, {}).get('deps', []):
        if not d.get('constrains_targets'):
            continue
        if L.match_keys(d['target'], own, patterns=True, parents=True):
            mustnot[d['local'].lower()] = d['target']
        elif not L.match_keys(d['target'], gdisable, patterns=True, parents=True):
            must[d['local'].lower()] = d['target']
    for k in set(must) & set(mustnot):
        del must[k]
        del mustnot[k]
    if truth['items'].get(name, {}).get('kind') not in ('ProcedureItem', 'ModuleItem'):
        # bindings / interfaces name their dependencies by bare procedure or binding names: whether an entry such
        # as 'kb_r3' also addresses the binding '<type>%kb_r3' is left open
        mod = name.split('#')[0]

        def bare(k):
            return f"{mod}#{k.split('%')[-1]}"
        for k in [k for k in must if L.match_keys(bare(k), own, patterns=True)]:
            del must[k]
        for k in [k for k in mustnot if not L.match_keys(bare(k), own, patterns=True)]:
            del mustnot[k]
    own_module_excluded = '#' in name and name.split('#')[0] and \
        bool(L.match_keys(name.split('#')[0], own, patterns=True))
    return must, mustnot, own_module_excluded


def check_manifest(man, log, err, summary, truth, exp, config, cnt, viol):
    """The offline oracle for one manifest"""
    def bump(k, n=1):
        cnt[k] = cnt.get(k, 0) + n
    nodes, edges, ignored = summary['nodes'], summary['edges'], summary['ignored']
    strict = config['default'].get('strict', True)
    gdis = list(config['default'].get('disable', []) or [])
    pre = 'plan_' if man['plan'] else 'transform_'
    filt = man['item_filter']
    tagsuffix = ':file-graph' if man['traverse_file_graph'] else ''

    def cls_of(n):
        return summary['origin'].get(n) if nodes[n] == 'ExternalItem' else nodes[n]

    def in_filter(n):
        return 'Item' in filt or cls_of(n) in filt
    bump('applications_recorded', len(log))
    wrong = [r for r in log if not r['method'].startswith(pre)]
    if wrong:
        viol('process:wrong-strategy-method', f"{wrong[0]['method']} called with plan_mode={man['plan']}")
    ntags = 2 if man['pipeline'] else 1
    # pipeline: all applications of the first transformation precede those of the second
    tags = [r['tag'] for r in log]
    if tags != sorted(tags):
        viol('process:pipeline-interleaved', 'applications of pipeline stages are interleaved')
    if isinstance(err, Exception) and type(err).__name__ == 'NetworkXUnfeasible':
        bump('open_cyclic_graph')
        return
    modeflt = man['mode_filter']
    for tag in range(ntags):
        recs = [r for r in log if r['tag'] == tag]
        if man['traverse_file_graph']:
            check_filegraph(man, recs, err, summary, truth, exp, config, cnt, viol, in_filter)
            if err is not None:
                break
            continue
        # -------- item traversal
        selected, optional = set(), set()
        for n in nodes:
            if not in_filter(n):
                continue
            if ignored[n] and not man['process_ignored_items']:
                continue
            if modeflt is not None:
                if nodes[n] in ('ExternalItem', 'TypeDefItem', 'InterfaceItem'):
                    optional.add(n)
                    continue
                if nodes[n] in ('ModuleItem', 'ProcedureBindingItem'):
                    # mode of items without their own config entry: compare with the reference config
                    pass
                if exp.config(n).get('mode') != modeflt:
                    continue
            selected.add(n)
        ext = {n for n in selected | optional if nodes[n] == 'ExternalItem'}
        expect_error = bool(ext & selected) and strict
        if strict and ext & optional:
            expect_error = None     # external + mode filter: open
        visited = {}
        for k, r in enumerate(recs):
            visited.setdefault(r['item'], []).append((k, r))
        if err is not None:
            if type(err).__name__ == 'RuntimeError' and 'external' in str(err).lower() and expect_error in (True, None):
                bump('expected_external_errors')
            else:
                where = 'file-graph' if man['traverse_file_graph'] else 'items'
                viol(f'process:exception:{type(err).__name__}:{where}', f'process raised {type(err).__name__}: {err}'[:400])
                return
        elif expect_error:
            viol('process:external-item-not-reported-under-strict',
                 f'strict=True, external items {sorted(ext & selected)[:3]} match the filter, no error')
        for n in visited:
            if n not in nodes:
                viol('process:visited-item-not-in-graph', f'{n} was processed but is not in the scheduler graph')
                return
            if nodes[n] == 'ExternalItem':
                viol('process:external-item-processed', f'external item {n} was passed to the transformation')
        must_visit = {n for n in selected if nodes[n] != 'ExternalItem'}
        may_visit = must_visit | {n for n in optional if nodes[n] != 'ExternalItem'}
        if err is None:
            for n in sorted(must_visit - set(visited)):
                if nodes[n] == 'InterfaceItem':
                    bump('open_interface_dispatch')
                    continue
                viol(f'process:selected-item-not-visited:{nodes[n]}', f'{n} ({nodes[n]}, ignored={ignored[n]}) matches '
                     f'the manifest {man} but was never processed')
        for n in sorted(set(visited) - may_visit):
            why = 'ignored' if ignored.get(n) and not man['process_ignored_items'] else \
                ('filtered-out' if not in_filter(n) else 'other-mode')
            viol(f'process:unselected-item-visited:{why}:{nodes[n]}', f'{n} ({nodes[n]}) was processed although '
                 f'it is {why} under {man}')
        # expected applications per visited item (primary + recursion)
        pos = {}
        for n, lst in visited.items():
            if n not in nodes or nodes[n] == 'ExternalItem':
                continue
            kind = nodes[n]
            want = []
            if kind == 'ProcedureItem':
                routine = n.split('#')[-1]
                want.append((pre + 'subroutine', routine))
                if man['recurse_to_internal_procedures']:
                    want += [(pre + 'subroutine', i) for i in truth['internals'].get(n, [])]
            elif kind == 'InterfaceItem':
                bump('open_interface_dispatch')
                continue
            else:
                mod = n.split('#')[0]
                want.append((pre + 'module', mod))
                if man['recurse_to_procedures']:
                    for pn in truth['module_procs'].get(mod, []):
                        want.append((pre + 'subroutine', pn))
                        if man['recurse_to_internal_procedures']:
                            want += [(pre + 'subroutine', i) for i in truth['internals'].get(f'{mod}#{pn}', [])]
            got = sorted((r['method'], r['ir']) for _, r in lst)
            if got != sorted(want):
                extra = [g for g in got if g not in want]
                twice = len(got) != len(set(got))
                what = 'applied-twice' if twice else ('unexpected-application' if extra else 'missing-application')
                viol(f'process:{what}:{kind}', f'{n}: applications {got} != expected {sorted(want)} under {man}')
            pos[n] = lst[0][0]
            r0 = lst[0][1]
            # role / mode / targets of the primary application
            conf = exp.config(n)
            bump('role_mode_checked')
            if kind in ('ProcedureItem', 'ModuleItem'):
                if r0['role'] != conf.get('role'):
                    viol(f'process:wrong-role:{kind}', f'{n}: role {r0["role"]} passed, config says {conf.get("role")}')
                if r0['mode'] != conf.get('mode'):
                    viol(f'process:wrong-mode:{kind}', f'{n}: mode {r0["mode"]} passed, config says {conf.get("mode")}')
            if r0['targets'] is not None and n in truth['items']:
                must, mustnot, own_excl = expected_targets(truth, conf, gdis, n)
                got_t = set(r0['targets'])
                bump('targets_checked')
                lack = sorted(set(must) - got_t)
                if lack:
                    how = ':own-module-in-exclusion-list' if own_excl else ''
                    if not how and all(must[k].split('#')[-1] != k and
                                       truth['items'].get(must[k], {}).get('kind') == 'TypeDefItem' for k in lack):
                        how = ':renamed-type-import'
                    viol(f'process:targets-miss-dependency:{kind}{how}', f'{n}: targets {sorted(got_t)} lack the '
                         f'non-blocked dependencies {lack} (block={conf.get("block")}, disable={conf.get("disable")})')
                bad = sorted(set(mustnot) & got_t)
                if bad:
                    alias = all(b.split('%')[-1] != mustnot[b].split('#')[-1].split('%')[-1] for b in bad)
                    how = ':renamed-import' if alias else ''
                    viol(f'process:targets-contain-blocked:{kind}{how}', f'{n}: targets {sorted(got_t)} contain the '
                         f'blocked/disabled {bad} (block={conf.get("block")}, disable={conf.get("disable")})')
            if isinstance(r0['successors'], list):
                desc = descendants(edges, n)
                if not set(r0['successors']) <= desc:
                    viol('process:sub-sgraph-successors-not-descendants', f'{n}: {sorted(set(r0["successors"]) - desc)}')
        # order
        for a, b in edges:
            if a in pos and b in pos:
                bump('order_constraints')
                ok = pos[a] > pos[b] if man['reverse_traversal'] else pos[a] < pos[b]
                if not ok:
                    viol('process:order:' + ('reverse' if man['reverse_traversal'] else 'forward'),
                         f'{a} -> {b}: positions {pos[a]}, {pos[b]} under reverse_traversal={man["reverse_traversal"]}')
                    break
        # depths are consistent with the edges
        dep = {n: lst[0][1]['depth'] for n, lst in visited.items() if lst[0][1]['depth'] is not None}
        for a, b in edges:
            if a in dep and b in dep and not dep[a] < dep[b]:
                viol('process:depths-inconsistent', f'depth[{a}]={dep[a]} !< depth[{b}]={dep[b]}')
                break
        if err is not None:
            break
    bump('manifests_checked')
    bump('plan_manifests' if man['plan'] else 'sequence_manifests')
    if man['traverse_file_graph']:
        bump('filegraph_manifests')
    if man['mode_filter']:
        bump('mode_filter_manifests')
    _ = tagsuffix


def descendants(edges, n):
    succ = {}
    for a, b in edges:
        succ.setdefault(a, set()).add(b)
    seen, todo = set(), [n]
    while todo:
        x = todo.pop()
        for y in succ.get(x, ()):
            if y not in seen:
                seen.add(y)
                todo.append(y)
    return seen


def check_filegraph(man, recs, err, summary, truth, exp, config, cnt, viol, in_filter):
    def bump(k, n=1):
        cnt[k] = cnt.get(k, 0) + n
    nodes, edges, ignored, files = summary['nodes'], summary['edges'], summary['ignored'], summary['files']
    pre = 'plan_' if man['plan'] else 'transform_'
    sel = {n for n in nodes if in_filter(n) and nodes[n] != 'ExternalItem'
           and (man['process_ignored_items'] or not ignored[n])}
    want_files = {files[n].lower() for n in sel if files.get(n)}
    fedges = {(files[a].lower(), files[b].lower()) for a, b in edges
              if a in sel and b in sel and files[a].lower() != files[b].lower()}
    if L._cycle_edges(want_files, fedges):   # pylint: disable=protected-access
        bump('open_cyclic_file_graph')
        return
    if err is not None:
        viol(f'process:exception:{type(err).__name__}:file-graph', f'process raised {type(err).__name__}: {err}'[:400])
        return
    frecs = [(k, r) for k, r in enumerate(recs) if r['method'] == pre + 'file']
    got = [r['ir'] for _, r in frecs]
    root = summary['root'].lower()
    rel = [g[len(root) + 1:] if g.startswith(root) else g for g in got]
    if len(rel) != len(set(rel)):
        viol('process:file-applied-twice', f'files {sorted(f for f in rel if rel.count(f) > 1)} processed more than once')
    if set(rel) - want_files:
        viol('process:unselected-file-visited', f'files {sorted(set(rel) - want_files)} contain no selected item ({man})')
    if want_files - set(rel):
        viol('process:selected-file-not-visited', f'files {sorted(want_files - set(rel))} contain selected items but '
             f'were not processed ({man})')
    pos = {f: k for f, (k, _) in zip(rel, frecs)}
    for a, b in sorted(fedges):
        if a in pos and b in pos:
            bump('order_constraints')
            ok = pos[a] > pos[b] if man['reverse_traversal'] else pos[a] < pos[b]
            if not ok:
                viol('process:file-order:' + ('reverse' if man['reverse_traversal'] else 'forward'),
                     f'{a} -> {b}: positions {pos[a]}, {pos[b]}')
                break
    # recursion into modules / procedures of the visited files
    byitem = {}
    for k, r in enumerate(recs):
        if r['method'] != pre + 'file':
            byitem.setdefault((r['method'], r['item']), []).append(r)
    if byitem and not (man['recurse_to_modules'] or man['recurse_to_procedures']):
        viol('process:file-graph-recursion-without-flag', f'{sorted(byitem)[:3]} applied although no recursion flag is set')
    for (method, n), lst in sorted(byitem.items(), key=str):
        if n and n.startswith(root):
            # recursion without definition items: the file item itself is passed on
            if n[len(root) + 1:] not in set(rel):
                viol('process:file-graph-recursion-outside-visited-files', f'{method} with file item {n}')
            bump('open_file_recursion_without_items')
            continue
        fl = None
        if n in nodes:
            fl = (files.get(n) or '').lower()
        elif n in truth['items']:
            fl = (truth['items'][n]['file'] or '').lower()
        if fl is None or fl not in set(rel):
            viol('process:file-graph-recursion-outside-visited-files', f'{method} for {n} (file {fl})')
            continue
        if method == pre + 'module':
            if not man['recurse_to_modules']:
                viol('process:file-graph-module-recursion-without-flag', f'{method} for {n}')
            if len(lst) > 1:
                viol('process:module-applied-twice:file-graph', f'{n} {len(lst)}x')
        else:
            if not man['recurse_to_procedures']:
                viol('process:file-graph-procedure-recursion-without-flag', f'{method} for {n}')
            if n not in nodes:
                viol('process:file-graph-procedure-not-in-graph', f'{method} applied to {n} which is not in the graph')
                continue
            if ignored[n] and not man['process_ignored_items']:
                viol('process:unselected-item-visited:ignored:ProcedureItem:file-graph', f'{n} is ignored')
            names = [r['ir'] for r in lst]
            routine = n.split('#')[-1]
            if names.count(routine) > 1:
                member = any(d['target'] == n for it in truth['items'].values() if it['kind'] == 'InterfaceItem'
                             for d in it['deps'])
                viol('process:applied-twice:ProcedureItem:file-graph' + (':generic-interface-member' if member else ''),
                     f'{n}: applications {names} (recurse_to_procedures in file-graph mode)')
            elif names.count(routine) != 1 or any(x != routine and x not in truth['internals'].get(n, []) for x in names):
                viol('process:procedure-applications:file-graph', f'{n}: applications {names}')
            conf = exp.config(n)
            r0 = lst[0]
            if r0['role'] != conf.get('role'):
                viol('process:wrong-role:ProcedureItem:file-graph', f'{n}: role {r0["role"]} != {conf.get("role")}')
    if man['recurse_to_procedures']:
        # every selected, non-ignored procedure of the graph in a visited file whose module is not ignored
        for n in sorted(sel):
            if nodes[n] != 'ProcedureItem' or cls_name(summary, n) not in man['item_filter'] + ('Item',) * 0:
                continue
            mod = n.split('#')[0]
            if mod and mod in nodes and ignored[mod] and not man['process_ignored_items']:
                continue
            if (pre + 'subroutine', n) not in byitem and (files[n] or '').lower() in set(rel):
                viol('process:selected-item-not-visited:ProcedureItem:file-graph',
                     f'{n} is in processed file {files[n]} but was not applied (recurse_to_procedures)')


def cls_name(summary, n):
    return summary['nodes'][n]


def run_case(idx, rng, tier, ctx):
    import loki  # pylint: disable=import-outside-toplevel,unused-import
    n = rng.choice([6, 8, 10, 12, 14, 16, 20, 24])
    pf = {'n_routines': n, 'externals': rng.random() < 0.15, 'p_free': rng.choice([0.1, 0.3, 0.5])}
    project = L.gen_project(rng, pf)
    config, seeds = L.gen_config(rng, project, {})
    truth = project.truth()
    root = ctx['scratch'] / f'c{idx}'
    shutil.rmtree(root, ignore_errors=True)
    spell = rng.randrange(1 << 30)
    sources = project.write(root, L.Speller(spell, rng.choice(['random', 'lower'])))
    rconfig, rseeds = L.respell_config(config, seeds, L.Speller(spell + 1, 'random'))
    exp = L.reference_closure(truth, config, seeds)
    nman = 8 if tier == 'quick' else 16
    res = {'sig': None, 'nontrivial': False, 'violations': [], 'inconclusive': None,
           'features': sorted(project.features), 'counters': {}}
    cnt = res['counters']
    full = rng.random() < 0.8
    sched = None
    if not exp.error:
        for fp in ([True, False] if full else [False]):
            try:
                sched = L.build_scheduler(root, rconfig, rseeds, fp)
                full = fp
                break
            except Exception:  # pylint: disable=broad-except
                cnt['scheduler_construction_failed'] = cnt.get('scheduler_construction_failed', 0) + 1   # C21's business
    mans = [gen_manifest(rng, full, bool(config['default'].get('enable_imports'))) for _ in range(nman)]
    res['sig'] = sighash([sources, rconfig, rseeds, mans])
    if sched is None:
        shutil.rmtree(root, ignore_errors=True)
        res['sample'] = {'note': 'no scheduler'}
        return res
    summary = L.graph_summary(sched, root)
    summary['root'] = str(root)
    checked = 0
    for man in mans:
        log, err = run_manifest(sched, man)
        info = {'manifest': man, 'config': rconfig, 'seeds': rseeds, 'sources': sources, 'full_parse': full,
                'log_head': log[:12], 'nodes': summary['nodes'], 'ignored': [k for k, v in summary['ignored'].items() if v]}

        def viol(key, msg, info=info):
            if not any(v['key'] == key for v in res['violations']):
                res['violations'].append({'key': key, 'msg': msg, 'witness': info})
        before = cnt.get('manifests_checked', 0)
        check_manifest(man, log, err, summary, truth, exp, config, cnt, viol)
        checked += cnt.get('manifests_checked', 0) - before
    res['features'] += sorted({f'filter_{"+".join(m["item_filter"])}' for m in mans}
                              | {k for m in mans for k in ('reverse_traversal', 'traverse_file_graph',
                                                           'process_ignored_items', 'plan', 'pipeline') if m[k]})
    res['nontrivial'] = checked >= 4 and cnt.get('applications_recorded', 0) >= 20 and cnt.get('order_constraints', 0) > 0
    res['sample'] = {'routines': n, 'graph_nodes': len(summary['nodes']), 'graph_edges': len(summary['edges']),
                     'manifests': [{k: v for k, v in m.items() if v} for m in mans[:2]],
                     'applications': cnt.get('applications_recorded', 0), 'full_parse': full}
    shutil.rmtree(root, ignore_errors=True)
    return res
