#!/bin/bash
# usage: tools/calibrate.sh <tier> <seed> <outfile> [ids...]   -- runs checks sequentially, logs exit code and wall time
tier=$1; seed=$2; out=$3; shift 3
ids="$@"
[ -z "$ids" ] && ids=$(ls vlib/checks/c*.py | sed 's/.*c\([0-9]*\).py/C\1/')
cd "$(dirname "$0")/.."
for id in $ids; do
  t0=$(date +%s)
  VERIF_SEED=$seed ./check $id --tier $tier > /tmp/calib_$id.log 2>&1
  rc=$?
  t1=$(date +%s)
  echo "$id rc=$rc wall=$((t1-t0))s $(grep -c '^VIOLATION' /tmp/calib_$id.log) viol $(grep "tier=$tier" /tmp/calib_$id.log | tail -1 | cut -c1-200)" >> $out
  grep "^INCONCLUSIVE" /tmp/calib_$id.log | cut -c1-400 >> $out
done
echo DONE >> $out
