"""
Caller/callee generator for C28 (inlining preserves behaviour).

``InlineGen(rng, flags).generate()`` returns an ``InlCase``: a list of source files (kinds module, constants
module, helper module, kernel module) that Loki processes, an untouched driver and 4 input sets.  The kernel
``kmod::kern`` is a ProgGen kernel whose body is interleaved with calls to generated callees:

  hsub / hsub2      module subroutines (same module as the kernel or a separate file ``hmod``), called with
                    ``!$loki inline`` when flags['pragma']
  isub / isub2 / ifun   internal procedures of kern (host association); isub2 only with flags['twin_locals']: its local
                    'zwk' (and hsub / hsub2's) differs in type or shape from the one of the first callee
  hfun / hfun2 / hele   module functions (multi-statement, elemental), used inside larger expressions
  sf1 / sf2         statement functions declared in kern
  cmod parameters   constants imported from a module and local PARAMETERs

Everything is well-defined by construction: callee dummies are fully defined by the caller, array dummies are
only indexed 1..nn (or the declared bounds), integers are bounded, reals damped.  Features with a known defect
mechanism ("hazards") are switched on by exactly one flag each so that a case carries at most one hazard.
"""
import re
from dataclasses import dataclass, field
from vlib.fgenlab import ProgGen, ExprGen, Env, Var, DEFAULT_FLAGS

HAZARDS = ('callee_return', 'dummy_name_capture', 'expr_actual_modified', 'absent_optional_ref',
           'fun_in_while', 'fun_in_elseif', 'kind_selected', 'autoarr_two_sizes', 'fun_return', 'neg_const',
           'assumed_shape_lb',
           'fun_array_arg', 'fun_in_inline_if', 'const_chain', 'assoc_param', 'fun_keyword_arg', 'nested_same_fun',
           'respell_array_dummy')

INL_FLAGS = dict(
    # which callee kinds exist
    subs=True, funs=True, elemental=True, internals=False, stmtfuncs=False, constants=False,
    pragma=True, split_files=False, import_in_routine=False,
    # call-site features (all believed to be supported by Loki)
    keyword=True, optional=True, alias_in=True, sections=True, lbound_actual=True, expr_actual=True,
    nested_calls=True, local_clash=True, initialisers=True, automatic_arrays=True, assumed_shape=True,
    call_density=0.3, optional_absent=False, simple_conditions=False,
    # twin_locals: a second internal subroutine (isub2) and the marked callees hsub / hsub2 declare a local 'zwk' that
    # differs in type or shape between the callees and does not exist in the caller; respell: declarations and uses
    # of callee locals / dummies are spelled in different letter case
    twin_locals=False, respell=False,
    # hazards (one at most)
    **{h: False for h in HAZARDS},
)


@dataclass
class InlCase:
    files: list            # [(filename, text)] in dependency order; all are given to Loki
    driver: str
    stdins: list
    features: set
    meta: dict = field(default_factory=dict)

    @property
    def units(self):
        return '\n'.join(t for _, t in self.files)


class _Shim:
    def __init__(self, rng):
        self.rng = rng


class InlineGen(ProgGen):

    def __init__(self, rng, flags=None):
        f = dict(INL_FLAGS)
        f.update(dict(io_in_kernel=False, mixed_case=False, named_cycle_exit=False, double_not=False,
                      associate_expr_complex=False, internal=False, functions=False, calls=True,
                      max_stmts=9, max_depth=3, expr_depth=2, overlap=False, kinds_module=True))
        if flags:
            f.update(flags)
        super().__init__(rng, f)
        self.sigs = {}          # name -> signature dict
        self.spec_extra = []    # extra specification lines of kern (after declarations)
        self.kern_uses = []     # use lines inside kern
        self.mod_uses = []      # use lines at module level of kmod
        self.hmod_procs = []    # procedures that live in the helper module / same module
        self.cmod_lines = []
        self.const_leaves = []  # (name, typ, bound)
        self.ncalls = 0
        self.called = set()

    # ------------------------------------------------------------------ callee bodies
    def _cenv(self, vars_, loop=None):
        env = Env(_Shim(self.rng))
        env.gen = self
        for v in vars_:
            env.add(v)
        if loop:
            env.loopvars.append(loop)
        return env

    def _mk_sub(self, name, internal=False, leaf=False, twin=None):
        """generate a subroutine callee; returns text and records its signature"""
        rng, f, rk = self.rng, self.flags, self.rk
        ex = self.ex
        sig = {'name': name, 'kind': 'isub' if internal else 'sub', 'dummies': []}
        clash = f['local_clash'] and rng.random() < 0.6
        if f['dummy_name_capture']:
            dn = dict(nn='n', xin='a1', xio='s2', sout='s3', kin='i2', yio='yio', kopt='kopt', xin2='xin2', ropt='ropt')
        else:
            dn = {k: k for k in ('nn', 'xin', 'xio', 'sout', 'kin', 'yio', 'kopt', 'xin2', 'ropt')}
        if internal:
            dn = {k: k for k in dn}
        nn = dn['nn']
        ashape = f['assumed_shape'] and not internal and rng.random() < 0.3
        lb0 = (not ashape) and rng.random() < 0.3
        if f['assumed_shape_lb']:
            ashape, lb0 = True, False
        dims_in = ('1', nn, nn) if not lb0 else ('0', f'{nn} - 1', nn)
        dummies = [Var(nn, 'int', intent='in', bound=8),
                   Var(dn['xin'], 'real', 1, (dims_in,), 'in')]
        decl = {nn: f'integer, intent(in) :: {nn}',
                dn['xin']: f"real(kind={rk}), intent(in) :: {dn['xin']}(" +
                           (':' if ashape else (nn if not lb0 else f'0:{nn} - 1')) + ')'}
        has_xin2 = rng.random() < 0.35
        if has_xin2:
            dummies.append(Var(dn['xin2'], 'real', 1, (('1', nn, nn),), 'in'))
            decl[dn['xin2']] = f"real(kind={rk}), intent(in) :: {dn['xin2']}({nn})"
        has_yio = rng.random() < 0.5
        if has_yio:
            dummies.append(Var(dn['yio'], 'real', 1, (('1', nn, nn),), 'inout'))
            decl[dn['yio']] = f"real(kind={rk}), intent(inout) :: {dn['yio']}({':' if ashape else nn})"
        dummies.append(Var(dn['xio'], 'real', intent='inout'))
        decl[dn['xio']] = f"real(kind={rk}), intent(inout) :: {dn['xio']}"
        dummies.append(Var(dn['sout'], 'real', intent='out'))
        decl[dn['sout']] = f"real(kind={rk}), intent(out) :: {dn['sout']}"
        dummies.append(Var(dn['kin'], 'int', intent='in', bound=40))
        decl[dn['kin']] = f"integer, intent(in) :: {dn['kin']}"
        opt = []
        if f['optional'] and rng.random() < 0.5:
            opt.append(Var(dn['kopt'], 'int', intent='in', bound=40))
            decl[dn['kopt']] = f"integer, intent(in), optional :: {dn['kopt']}"
            if rng.random() < 0.4:
                opt.append(Var(dn['ropt'], 'real', intent='inout'))
                decl[dn['ropt']] = f"real(kind={rk}), intent(inout), optional :: {dn['ropt']}"
        order = [v.name for v in dummies]
        if rng.random() < 0.5:
            # shuffle non-optional dummies a little (nn stays first so explicit shapes read naturally)
            rest = order[1:]
            rng.shuffle(rest)
            order = [order[0]] + rest
        order += [v.name for v in opt]
        sig['dummies'] = [(nm, next(v for v in dummies + opt if v.name == nm)) for nm in order]
        sig['optional'] = [v.name for v in opt]
        sig['names'] = dn
        sig['has'] = {'xin2': has_xin2, 'yio': has_yio}
        # locals: names clash with the caller's on purpose
        li = 'i' if clash else 'ii'
        lx = 'x1' if clash else 'zloc'
        lj = 'j1' if clash else 'jloc'
        locs = [f'integer :: {li}, {lj}', f'real(kind={rk}) :: {lx}']
        lvars = [Var(lx, 'real'), Var(lj, 'int', bound=40)]
        has_tmp = f['automatic_arrays'] and rng.random() < 0.4
        tmpn = 'w1' if clash and rng.random() < 0.5 else 'tmp'
        if f['autoarr_two_sizes']:
            has_tmp = True
        if has_tmp:
            locs.append(f'real(kind={rk}) :: {tmpn}({nn})')
        has_init = f['initialisers'] and rng.random() < 0.4
        if has_init:
            locs.append(f'real(kind={rk}) :: cinit = {ex.rlit()}')
            locs.append(f'integer, parameter :: kpar = {rng.choice([2, 3, 5])}')
            lvars += [Var('cinit', 'real', intent='in'), Var('kpar', 'int', intent='in', bound=5)]
        sc_in = [v for v in dummies if v.rank == 0]
        host = []
        if internal:
            host = [Var('s1', 'real', intent='in'), Var('i1', 'int', intent='in', bound=40),
                    Var('n', 'int', intent='in', bound=8)]
        # --- body
        B = []
        env0 = self._cenv([v for v in sc_in if v.intent == 'in'] + host + [v for v in lvars if v.intent == 'in'])
        B.append(f"    {lx} = {ex.damp(ex.real_expr(env0, 1))}")
        B.append(f"    {lj} = mod({ex.int_expr(env0, 1)[0]}, 17)")
        B.append(f"    {dn['sout']} = {ex.damp(ex.real_expr(env0, 2))}")
        env1 = self._cenv([v for v in sc_in if v.intent in ('in', 'inout')] + host + lvars)
        if f['callee_return']:
            self.features.add('callee_return')
            B.append(f"    if ({dn['kin']} > {rng.choice([0, 1, 2])}) then")
            B.append(f"      {dn['xio']} = {ex.damp(ex.real_expr(env1, 1))}")
            B.append('      return')
            B.append('    end if')
        if has_tmp:
            B.append(f'    do {li} = 1, {nn}')
            envl = self._cenv([v for v in dummies if v.intent != 'out'] + host + lvars, loop=(li, nn))
            B.append(f'      {tmpn}({li}) = {ex.damp(ex.real_expr(envl, 2))}')
            B.append('    end do')
        hdr = rng.choice([f'do {li} = 1, {nn}', f'do {li} = {nn}, 1, -1', f'do {li} = 1, {nn}, 2'])
        B.append(f'    {hdr}')
        envl = self._cenv([v for v in dummies if v.intent != 'out'] + host + lvars, loop=(li, nn))
        acc = f"{dn['sout']} + {ex.real_expr(envl, 2)}"
        if has_tmp:
            acc += f' + {tmpn}({nn} + 1 - {li})*{ex.rlit()}'
        B.append(f"      {dn['sout']} = {ex.damp(acc)}")
        if has_yio:
            B.append(f"      {dn['yio']}({li}) = {ex.damp(ex.real_expr(envl, 2))}")
        if rng.random() < 0.4:
            B.append(f"      if ({self.cond(envl, 1)}) {lx} = {ex.damp(ex.real_expr(envl, 1))}")
        B.append('    end do')
        if f['expr_actual_modified']:
            # the intent(in) dummy is read after the intent(out) dummy has been defined (hazard slice)
            B.append(f"    {dn['sout']} = {dn['sout']} + real(mod({dn['kin']}, 7), {rk})*0.25_{rk}")
        for o in opt:
            if o.typ == 'int':
                if rng.random() < 0.5:
                    B.append(f"    if (present({o.name})) then")
                    B.append(f"      {dn['sout']} = {dn['sout']} + real(mod({o.name}, 7), {rk})*{ex.rlit()}")
                    B.append('    else')
                    B.append(f"      {dn['sout']} = {dn['sout']} - {ex.rlit()}")
                    B.append('    end if')
                else:
                    B.append(f"    if (present({o.name})) {lx} = {lx} + real(mod({o.name}, 5), {rk})")
            else:
                B.append(f"    if (present({o.name})) then")
                B.append(f"      {o.name} = sin({o.name} + {lx})")
                B.append('    end if')
        if twin:
            tdecl, tbody = self._twin_local(twin, dn['xio'], dn['sout'], dn['kin'])
            locs.append(tdecl)
            B += ['    ' + l for l in tbody]
        if not leaf and f['nested_calls'] and 'hfun' in self.sigs and rng.random() < 0.5:
            self.features.add('nested_fun_in_sub')
            ko = ', 3' if self.sigs['hfun'].get('optional') and not (f['optional_absent'] and rng.random() < 0.5) else ''
            B.append(f"    {lx} = {ex.damp('hfun(' + lx + ', ' + lj + ko + ') + ' + ex.rlit())}")
        if not leaf and not internal and f['nested_calls'] and 'hsub2' in self.sigs and rng.random() < 0.5:
            self.features.add('nested_sub_in_sub')
            s2 = self.sigs['hsub2']
            # hsub2 has the fixed simple signature (nn, xin, xio, sout, kin)
            if f['pragma']:
                B.append('    !$loki inline')
            B.append(f"    call hsub2({nn}, {dn['xin']}, {lx}, {dn['xio']}, {lj})")
            B.append(f"    {dn['xio']} = {ex.damp(dn['xio'] + ' + ' + lx)}")
        else:
            B.append(f"    {dn['xio']} = {ex.damp(ex.real_expr(env1, 2) + ' + ' + dn['sout'])}")
        head = f"  subroutine {name}({', '.join(order)})"
        txt = [head] + ['    ' + decl[nm] for nm in order] + ['    ' + l for l in locs] + B + [f'  end subroutine {name}']
        sig['lb0'] = lb0
        sig['ashape'] = ashape
        sig['has_tmp'] = has_tmp
        self.sigs[name] = sig
        return '\n'.join(txt) + '\n'

    TWIN_PAIRS = (('int', 'real'), ('real', 'arr3'), ('arr2', 'arr4'), ('arr3', 'int'), ('int', 'arr2'))

    def _twin_local(self, kind, xio, sout, kin):
        """(declaration, statements) of the local 'zwk' in one of its forms: integer scalar, real scalar, real array of
        constant extent; the statements define it from the inout/in dummies and add it to the (already defined) out dummy"""
        rk = self.rk
        self.features.add('twin_local_' + kind)
        if kind == 'int':
            return 'integer :: zwk', [f'zwk = mod({kin} + 7, 11)', f'{sout} = {sout} + real(zwk, {rk})*0.125_{rk}']
        if kind == 'real':
            return (f'real(kind={rk}) :: zwk',
                    [f'zwk = sin({xio})*0.5_{rk} + 0.3125_{rk}', f'{sout} = {sout} + zwk*0.25_{rk}'])
        k = int(kind[3:])
        return (f'real(kind={rk}) :: zwk({k})',
                [f'zwk(1) = sin({xio})*0.5_{rk} + 0.3125_{rk}',
                 f'zwk({k}) = zwk(1)*0.5_{rk} + real(mod({kin}, 5), {rk})*0.0625_{rk}',
                 f'{sout} = {sout} + zwk({k})*0.25_{rk} + zwk(1)'])

    def _mk_simple_sub(self, name, twin=None):
        """leaf subroutine with fixed signature (m2, xv, xu, so, kv), called from hsub and from kern; its dummy names
        differ from every name used in hsub (an actual argument that mentions the name of a callee dummy is a hazard)"""
        rk, ex = self.rk, self.ex
        sig = {'name': name, 'kind': 'sub', 'optional': [], 'has': {'xin2': False, 'yio': False}, 'lb0': False,
               'ashape': False, 'names': {'nn': 'm2', 'xin': 'xv', 'xio': 'xu', 'sout': 'so', 'kin': 'kv'}}
        ds = [Var('m2', 'int', intent='in', bound=8), Var('xv', 'real', 1, (('1', 'm2', 'm2'),), 'in'),
              Var('xu', 'real', intent='inout'), Var('so', 'real', intent='out'),
              Var('kv', 'int', intent='in', bound=40)]
        sig['dummies'] = [(v.name, v) for v in ds]
        envl = self._cenv([v for v in ds if v.intent != 'out'], loop=('i', 'm2'))
        txt = f"""  subroutine {name}(m2, xv, xu, so, kv)
    integer, intent(in) :: m2, kv
    real(kind={rk}), intent(in) :: xv(m2)
    real(kind={rk}), intent(inout) :: xu
    real(kind={rk}), intent(out) :: so
    integer :: i
    real(kind={rk}) :: x1
    x1 = real(mod(kv, 3), {rk})*{ex.rlit()}
    so = x1
    do i = 1, m2
      so = {ex.damp('so + ' + ex.real_expr(envl, 2))}
    end do
    xu = {ex.damp('xu*' + ex.rlit() + ' + so - x1')}
  end subroutine {name}
"""
        if twin:
            tdecl, tbody = self._twin_local(twin, 'xu', 'so', 'kv')
            txt = txt.replace(f'    real(kind={rk}) :: x1\n', f'    real(kind={rk}) :: x1\n    {tdecl}\n', 1)
            txt = txt.replace('    xu = ', ''.join(f'    {l}\n' for l in tbody) + '    xu = ', 1)
        self.sigs[name] = sig
        return txt

    def _mk_fun(self, name, elemental=False, internal=False, uses=None):
        rng, f, rk, ex = self.rng, self.flags, self.rk, self.ex
        clash = f['local_clash'] and rng.random() < 0.6
        style = rng.choice(['result', 'result', 'noresult']) if not elemental else 'result'
        rname = 'r' if style == 'result' else name
        if style == 'result' and clash and rng.random() < 0.3:
            rname = 's3'         # result name equal to a caller variable
        lx = 'x2' if clash else 'floc'
        x, k = ('xa', 'ka') if name != 'hfun2' else ('xb', 'kb')
        if f['dummy_name_capture']:
            x, k = 's1', 'i1'
        ds = [Var(x, 'real', intent='in'), Var(k, 'int', intent='in', bound=40)]
        host = [Var('s1', 'real', intent='in'), Var('i1', 'int', intent='in', bound=40)] if internal else []
        has_opt = f['optional'] and name == 'hfun' and rng.random() < 0.35
        env = self._cenv(ds + host)
        B = []
        multi = rng.random() < 0.75
        if multi:
            B.append(f'    {lx} = {ex.damp(ex.real_expr(env, 2))}')
            env.add(Var(lx, 'real', intent='in'))
        if f['fun_return']:
            self.features.add('fun_return')
            B.append(f'    {rname} = {ex.damp(ex.real_expr(env, 1))}')
            B.append(f'    if ({k} > 1) return')
        B.append(f'    {rname} = {ex.damp(ex.real_expr(env, 2))} + real(mod({k}, 5), {rk})')
        if multi and rng.random() < 0.6:
            B.append(f'    if ({self.cond(env, 1)}) {rname} = {rname} - {ex.rlit()}')
        if multi and rng.random() < 0.4:
            B.append(f'    if ({k} > 2) then')
            B.append(f'      {rname} = {ex.damp(rname + "*" + ex.rlit())}')
            B.append('    else')
            B.append(f'      {rname} = {rname} + {lx if multi else ex.rlit()}')
            B.append('    end if')
        if has_opt:
            B.append(f'    if (present(kopt)) {rname} = {rname} + real(mod(kopt, 3), {rk})')
        if uses and f['nested_calls'] and rng.random() < 0.6:
            self.features.add('nested_fun_in_fun')
            B.append(f'    {rname} = {ex.damp(uses + "(" + rname + ", " + k + " + 1)")}')
        args = [x, k] + (['kopt'] if has_opt else [])
        pre = 'elemental ' if elemental else ''
        head = f"  {pre}function {name}({', '.join(args)})" + (f' result({rname})' if style == 'result' else '')
        D = [f'    real(kind={rk}), intent(in) :: {x}', f'    integer, intent(in) :: {k}']
        if has_opt:
            D.append('    integer, intent(in), optional :: kopt')
        D.append(f'    real(kind={rk}) :: {rname}')
        if multi:
            D.append(f'    real(kind={rk}) :: {lx}')
        self.sigs[name] = {'name': name, 'kind': 'ifun' if internal else ('ele' if elemental else 'fun'),
                           'optional': ['kopt'] if has_opt else [], 'args': args}
        return '\n'.join([head] + D + B + [f'  end function {name}']) + '\n'

    def _gen_helpers(self):
        rng, f = self.rng, self.flags
        procs = []
        if f['funs']:
            procs.append(self._mk_fun('hfun2'))
            procs.append(self._mk_fun('hfun', uses='hfun2' if rng.random() < 0.5 else None))
            self.helper_sigs += [('hfun', 'fun'), ('hfun2', 'fun')]
        if f['elemental']:
            procs.append(self._mk_fun('hele', elemental=True))
            self.helper_sigs.append(('hele', 'fun'))
        if f['subs']:
            tw = rng.choice(self.TWIN_PAIRS) if f['twin_locals'] else (None, None)
            procs.append(self._mk_simple_sub('hsub2', twin=tw[0]))
            procs.append(self._mk_sub('hsub', twin=tw[1]))
            self.helper_sigs += [('hsub', 'sub'), ('hsub2', 'sub')]
        self.hmod_procs = procs

    def _gen_internals(self):
        f = self.flags
        if not f['internals']:
            return
        self.features.add('internal_procedure')
        tw = self.rng.choice(self.TWIN_PAIRS) if f['twin_locals'] else (None, None)
        self.internals.append(self._mk_sub('isub', internal=True, twin=tw[0]))
        self.helper_sigs.append(('isub', 'isub'))
        if self.rng.random() < 0.7:
            self.internals.append(self._mk_fun('ifun', internal=True))
            self.helper_sigs.append(('ifun', 'fun'))
        if f['twin_locals']:
            # a second internal subroutine whose same-named locals (zwk; ii / zloc / jloc / tmp when neither clashes with
            # the caller) meet those hoisted from the first one
            self.features.add('two_internal_subroutines')
            self.internals.append(self._mk_sub('isub2', internal=True, twin=tw[1]))
            self.helper_sigs.append(('isub2', 'isub'))

    def _gen_stmtfuncs(self):
        rng, rk, ex = self.rng, self.rk, self.ex
        self.features.add('statement_function')
        host = [Var('s1', 'real', intent='in'), Var('i1', 'int', intent='in', bound=40)]
        env = self._cenv([Var('xx', 'real', intent='in'), Var('yy', 'real', intent='in')] + host)
        self.spec_extra.append(f'    real(kind={rk}) :: sf1, sf2, xx, yy')
        self.spec_extra.append(f'    sf1(xx, yy) = {ex.damp(ex.real_expr(env, 2))}')
        env2 = self._cenv([Var('xx', 'real', intent='in')] + host)
        e2 = ex.real_expr(env2, 1)
        if rng.random() < 0.6:
            self.features.add('nested_statement_function')
            e2 = f'sf1({e2}, xx - {ex.rlit()}) + {ex.rlit()}'
        self.spec_extra.append(f'    sf2(xx) = {ex.damp(e2)}')
        self.sigs['sf1'] = {'name': 'sf1', 'kind': 'sf', 'nargs': 2}
        self.sigs['sf2'] = {'name': 'sf2', 'kind': 'sf', 'nargs': 1}
        self.helper_sigs += [('sf1', 'fun'), ('sf2', 'fun')]

    def _gen_constants(self):
        rng, f, rk = self.rng, self.flags, self.rk
        self.features.add('constants')
        neg = f['neg_const']
        self.cmod_lines = [
            'module cmod', '  use kinds_mod, only: jprb', '  implicit none',
            f'  integer, parameter :: nc1 = {rng.choice([2, 3, 4])}',
            f'  integer, parameter :: nc2 = ' + (f'nc1 + {rng.choice([1, 2])}' if f['const_chain'] else str(rng.choice([4, 5, 6]))),
            f"  integer, parameter :: nc3 = {'-' if neg else ''}{rng.choice([2, 3])}",
            f'  real(kind=jprb), parameter :: cp1 = {self.ex.rlit()}',
            f'  real(kind=jprb), parameter :: cp2 = {self.ex.rlit()} + {self.ex.rlit()}',
            f"  real(kind=jprb), parameter :: cp3 = {'-' if neg else ''}{self.ex.rlit()}",
            '  real(kind=jprb), parameter :: cp4 = ' + ('cp1*2.0_jprb - 0.25_jprb' if f['const_chain'] else '2.0_jprb*1.5_jprb - 0.25_jprb'),
            'end module cmod', '']
        names = ['nc1', 'nc2', 'nc3', 'cp1', 'cp2', 'cp3', 'cp4']
        use = '    use cmod, only: ' + ', '.join(names)
        if f['import_in_routine']:
            self.kern_uses.append(use)
        else:
            self.mod_uses.append(use[2:])
        # local parameters
        self.spec_extra.append(f'    integer, parameter :: lpar1 = {rng.choice([2, 3])}')
        self.spec_extra.append(f'    real(kind={rk}), parameter :: lpar2 = {self.ex.rlit()}')
        for nm in ('nc1', 'nc2', 'nc3', 'lpar1'):
            self.env.add(Var(nm, 'int', intent='in', bound=8, kind='param'))
        for nm in ('cp1', 'cp2', 'cp3', 'cp4', 'lpar2'):
            self.env.add(Var(nm, 'real', intent='in', kind='param'))
        # a local array dimensioned by a parameter
        self.env.add(Var('pw', 'real', 1, (('1', 'nc2', 3),), kind='paramdim'))

    # ------------------------------------------------------------------ call sites
    def _excl_env(self, excluded):
        """copy of the current environment without the variables in ``excluded`` (names)"""
        env = Env(self)
        env.vars = [v for v in self.env.vars if v.name not in excluded and (v.derived_of or '') not in excluded]
        env.loopvars = list(self.env.loopvars)
        env.readonly = set(self.env.readonly)
        env.assoc = [{nm: t for nm, t in fr.items()
                      if not any(x in excluded for x in _idents(t[1]))} for fr in self.env.assoc]
        return env

    def _array_actual(self, size_mode, exclude=(), writable=False, lb1_only=False):
        """returns (text, basename, nn_text) for a rank-1 real actual argument of the given size mode;
        lb1_only: only arrays declared with lower bound 1 (assumed-shape dummies, see hazard assumed_shape_lb)"""
        env, rng, f = self.env, self.rng, self.flags
        cands = []
        if f['assumed_shape_lb'] and size_mode == 'n' and not writable:
            lbv = [v for v in env.arrays('real', rank=1) if v.dims[0][2] == 'n' and v.dims[0][0] != '1'
                   and v.name not in exclude]
            if lbv:
                self.features.add('assumed_shape_lb')
                return (lbv[0].ref, lbv[0].name, 'n')
        for v in env.arrays('real'):
            if v.name in exclude or (v.derived_of and v.derived_of in exclude) or v.kind == 'paramdim':
                continue
            if writable and (v.intent == 'in' or v.name in env.readonly):
                continue
            if v.rank == 1 and v.dims[0][2] == 'n':
                lo = int(v.dims[0][0])
                if lo != 1 and (not f['lbound_actual'] or lb1_only):
                    continue
                if size_mode == 'n':
                    opts = [v.ref]
                    if f['sections']:
                        opts += [f'{v.ref}(:)', f'{v.ref}({lo}:{_off("n", lo - 1)})']
                    cands += [(o, v.name, 'n') for o in opts]
                elif size_mode == 'min' and f['sections']:
                    k = 'min(n, 3)'
                    cands.append((f'{v.ref}({lo}:{_off(k, lo - 1)})', v.name, k))
                    cands.append((f'{v.ref}({_off("n - " + k, lo)}:{_off("n", lo - 1)})', v.name, k))
            elif v.rank == 2 and f['sections']:
                jm = [lv for lv, sz in env.loopvars if sz == 'm']
                im = [lv for lv, sz in env.loopvars if sz == 'n']
                if size_mode == 'n':
                    j = rng.choice(jm + ['1', 'm'])
                    cands.append((f'{v.ref}(:, {j})', v.name, 'n'))
                    cands.append((f'{v.ref}(1:n, {j})', v.name, 'n'))
                elif size_mode == 'm':
                    i = rng.choice(im + ['1', 'n'])
                    cands.append((f'{v.ref}({i}, :)', v.name, 'm'))
                    cands.append((f'{v.ref}({i}, 1:m)', v.name, 'm'))
                elif size_mode == 'min':
                    j = rng.choice(jm + ['1', 'm'])
                    cands.append((f'{v.ref}(1:min(n, 3), {j})', v.name, 'min(n, 3)'))
            elif v.rank == 1 and isinstance(v.dims[0][2], int) and size_mode == 'const':
                sz = v.dims[0][2]
                cands.append((v.ref, v.derived_of or v.name, str(sz)))
                if f['sections'] and sz >= 4:
                    cands.append((f'{v.ref}(2:{sz - 1})', v.derived_of or v.name, str(sz - 2)))
        return rng.choice(cands) if cands else None

    def stmt_call(self, ind):
        rng = self.rng
        if not self.helper_sigs:
            return self.stmt_assign(ind)
        name, kind = rng.choice(self.helper_sigs)
        return self._call_named(ind, name, kind)

    def _call_named(self, ind, name, kind):
        if kind in ('sub', 'isub'):
            out = self._call_sub(ind, name)
        else:
            out = self._call_fun(ind, name)
        if out is None:
            return self.stmt_assign(ind)
        self.ncalls += 1
        self.called.add(name)
        return out

    def _call_sub(self, ind, name):
        env, rng, f, ex, rk = self.env, self.rng, self.flags, self.ex, self.rk
        sig = self.sigs[name]
        dn = sig['names']
        modes = ['n', 'n', 'min', 'm', 'const']
        if sig['has']['yio'] or sig['has']['xin2']:
            modes = ['n', 'n', 'min']
        if sig.get('has_tmp'):
            # the hoisted automatic array gets the extent of one call only (known defect): all calls use extent n
            modes = ['n']
        if f['autoarr_two_sizes']:
            modes = ['min'] if name not in self.called else ['n']
        if f['assumed_shape_lb']:
            modes = ['n']
        size_mode = rng.choice(modes)
        used = set()
        amap = {}
        yio = None
        if sig['has']['yio']:
            yio = self._array_actual(size_mode, writable=True, lb1_only=sig['ashape'])
            if yio is None:
                return None
            used.add(yio[1])
            amap[dn['yio']] = yio[0]
        xin = self._array_actual(size_mode, exclude=used, lb1_only=sig['ashape'] and not f['assumed_shape_lb'])
        if xin is None or (yio and xin[2] != yio[2]):
            return None
        amap[dn['xin']] = xin[0]
        nn_text = xin[2]
        if sig['has']['xin2']:
            if f['alias_in'] and rng.random() < 0.5:
                self.features.add('alias_in_arrays')
                amap[dn['xin2']] = xin[0]
            else:
                x2 = self._array_actual(size_mode, exclude=used)
                if x2 is None or x2[2] != nn_text:
                    return None
                amap[dn['xin2']] = x2[0]
                used.add(x2[1])
        in_arrays = {xin[1]}
        # scalar inout / out: distinct writable real scalars, or an element of a writable array not otherwise passed
        sc = [v for v in env.scalars('real', writable=True)]
        if len(sc) < 2:
            return None
        s_io, s_out = rng.sample(sc, 2)
        xio_t = s_io.ref
        wr_arr = [v for v in env.arrays('real', writable=True)
                  if v.name not in used and v.name not in in_arrays and (v.derived_of or '') not in used
                  and v.kind != 'paramdim']
        if wr_arr and rng.random() < 0.3:
            av = rng.choice(wr_arr)
            xio_t = env.elem(av)
            used.add(av.name)
            self.features.add('array_element_actual')
        amap[dn['xio']] = xio_t
        amap[dn['sout']] = s_out.ref
        modified = used | {s_io.name, s_out.name, s_io.derived_of or '', s_out.derived_of or ''}
        ropt_v = None
        if dn.get('ropt') in sig['optional'] and not f['absent_optional_ref'] and \
                (not f['optional_absent'] or rng.random() < 0.6):
            rest = [v for v in sc if v is not s_io and v is not s_out]
            if rest:
                ropt_v = rng.choice(rest)
                modified |= {ropt_v.name, ropt_v.derived_of or ''}
        # intent(in) scalar: expression over variables the call does not modify
        xenv = self._excl_env(modified - {''}) if not f['expr_actual_modified'] else env
        if f['expr_actual'] and rng.random() < 0.6:
            e, b = ex.int_expr(xenv, 1)
            self.features.add('expr_actual')
        else:
            e, b = rng.choice(xenv.int_leaves() or [('3', 3)])
        if f['expr_actual_modified']:
            # hazard: the intent(in) actual reads the scalar that the callee defines through its intent(out) dummy
            # before it uses the intent(in) dummy
            self.features.add('expr_actual_modified')
            e, b = f'nint({s_out.ref}*4.0_{rk}) + 1', 300
        if f['dummy_name_capture']:
            # hazard: the actual mentions a caller variable whose name is also the name of a callee dummy
            self.features.add('dummy_name_capture')
            e, b = 'i2 + 1', 41
        if b > 40:
            e = f'mod({e}, 23)'
        amap[dn['kin']] = e
        amap[dn['nn']] = nn_text
        if nn_text != 'n':
            self.features.add('expr_actual_size')
        if dn.get('kopt') in sig['optional']:
            if f['absent_optional_ref'] or (f['optional_absent'] and rng.random() < 0.5):
                self.features.add('optional_absent')
            else:
                self.features.add('optional_present')
                amap[dn['kopt']] = rng.choice([str(rng.randint(1, 9)), rng.choice(xenv.int_leaves() or [('2', 2)])[0]])
                if not amap[dn['kopt']].isdigit():
                    amap[dn['kopt']] = f"mod({amap[dn['kopt']]}, 23)"
        if ropt_v is not None:
            amap[dn['ropt']] = ropt_v.ref
            self.features.add('optional_present_inout')
        # positional prefix, keyword rest
        order = [nm for nm, _ in sig['dummies'] if nm in amap]
        full = [nm for nm, _ in sig['dummies']]
        npos = len(order)
        if f['keyword'] and rng.random() < 0.4:
            npos = rng.randint(0, len(order) - 1)
            self.features.add('keyword_args')
        # positional arguments must be a prefix of the dummy list without gaps
        pos = []
        for nm in full:
            if len(pos) >= npos or nm not in amap:
                break
            pos.append(nm)
        kws = [nm for nm in order if nm not in pos]
        if len(kws) > 1 and rng.random() < 0.5:
            rng.shuffle(kws)
        args = [amap[nm] for nm in pos] + [f'{nm}={amap[nm]}' for nm in kws]
        out = []
        if f['pragma'] and sig['kind'] == 'sub':
            out.append(f'{ind}!$loki inline')
        out.append(f"{ind}call {name}({', '.join(args)})")
        self.features.add('call_' + sig['kind'])
        self.features.add('size_' + size_mode)
        if sig['lb0']:
            self.features.add('dummy_lbound0')
        if sig['ashape']:
            self.features.add('dummy_assumed_shape')
        if ':' in amap[dn['xin']]:
            self.features.add('section_actual')
        return out

    def _fun_ref(self, name, depth=1):
        """text of a reference to function ``name`` with well-defined actual arguments"""
        env, rng, f, ex = self.env, self.rng, self.flags, self.ex
        sig = self.sigs[name]
        if sig['kind'] == 'sf':
            args = [ex.real_expr(env, 1) for _ in range(sig['nargs'])]
            return f"{name}({', '.join(args)})"
        x = ex.real_expr(env, 1)
        if f['dummy_name_capture'] and sig['kind'] == 'fun':
            self.features.add('dummy_name_capture')
            return f"{name}(s1 + {ex.rlit()}, i1)"
        if depth > 0 and f['nested_calls'] and rng.random() < (0.3 if not (f['fun_keyword_arg'] or f['nested_same_fun']) else 0.9):
            cands = [n for n, k in self.helper_sigs if k == 'fun' and (n != name) != f['nested_same_fun']]
            if cands:
                x = self._fun_ref(rng.choice(cands), depth - 1)
                self.features.add('nested_same_fun' if f['nested_same_fun'] else 'nested_fun_call')
        k, b = ex.int_expr(env, 1)
        if b > 40:
            k = f'mod({k}, 23)'
        if re.match(r'^[0-9.]+_?\w*$', x):
            x = f'({x})'     # 'f(<real literal>, a%b%c)' is misread by the frontend (complex-constant look-alike)
        args = [x, k]
        if sig.get('optional') and (not f['optional_absent'] or rng.random() < 0.5):
            # keyword form only in the hazard slice (a keyword argument inside an actual argument breaks the argument map)
            args.append(f"{'kopt=' if f['fun_keyword_arg'] else ''}{rng.randint(1, 7)}")
            self.features.add('fun_optional_present')
        elif f['fun_keyword_arg'] and sig['kind'] in ('fun', 'ele'):
            args = [x, f"{sig['args'][1]}={k}"]
            self.features.add('fun_keyword')
        return f"{name}({', '.join(args)})"

    def _call_fun(self, ind, name):
        env, rng, f, ex, rk = self.env, self.rng, self.flags, self.ex, self.rk
        self.features.add('call_' + self.sigs[name]['kind'])
        ref = self._fun_ref(name)
        c = rng.random()
        tgt, _ = self._assign_target('real')
        if f['fun_in_while']:
            cnt = [v for v in env.scalars('int', writable=True) if v.name.startswith('j') and v.name not in env.readonly]
            sc = [v for v in env.scalars('real', writable=True)]
            if cnt and sc:
                self.features.add('fun_in_while')
                v, s = cnt[0], sc[0]
                return [f'{ind}{v.name} = 3',
                        f"{ind}do while ({name}({s.ref}, {v.name}{', 3' if self.sigs[name].get('optional') else ''}) > 0.5_{rk} .and. {v.name} > 0)",
                        f'{ind}  {s.ref} = {s.ref}*0.5_{rk}', f'{ind}  {v.name} = {v.name} - 1', f'{ind}end do']
        if f['fun_in_elseif']:
            self.features.add('fun_in_elseif')
            a2 = self.stmt_assign(ind + '  ')
            a3 = self.stmt_assign(ind + '  ')
            return [f'{ind}if ({self.cond(env, 1)}) then'] + a2 + \
                   [f'{ind}else if ({ref} > {ex.rlit()}) then'] + a3 + [f'{ind}end if']
        if f['fun_array_arg'] and self.sigs[name]['kind'] == 'ele':
            arrs = [v for v in env.arrays('real', rank=1) if v.dims[0][2] == 'n' and v.dims[0][0] == '1']
            wr = [v for v in arrs if v.intent != 'in' and v.name not in env.readonly]
            if wr:
                self.features.add('fun_array_arg')
                return [f'{ind}{rng.choice(wr).ref} = {name}({rng.choice(arrs).ref}, 2)']
        if f['fun_in_inline_if']:
            self.features.add('fun_in_inline_if')
            return [f'{ind}if ({self.cond(env, 1)}) {tgt} = {ex.damp(ref)}']
        if c < 0.5:
            self.features.add('fun_in_expr')
            return [f'{ind}{tgt} = {ex.damp(ref + " + " + ex.real_expr(env, 1))}']
        if c < 0.6:
            self.features.add('fun_twice_in_stmt')
            other = rng.choice([n for n, k in self.helper_sigs if k == 'fun'])
            r2 = self._fun_ref(rng.choice([name, other]), 0)
            return [f'{ind}{tgt} = {ex.damp(ref + "*" + ex.rlit() + " - " + r2)}']
        if c < 0.75:
            self.features.add('fun_in_if_condition')
            a2 = self.stmt_assign(ind + '  ')
            if f['simple_conditions']:
                # the function value is taken outside the condition (dead-code removal rewrites conditions with simplify)
                sc = [v for v in env.scalars('real', writable=True)]
                if not sc:
                    return a2
                s0 = rng.choice(sc)
                out = [f'{ind}{s0.ref} = {ex.damp(ref)}', f'{ind}if ({s0.ref} > {ex.rlit()}) then'] + a2
            else:
                out = [f'{ind}if ({ref} > {ex.rlit()}) then'] + a2
            if rng.random() < 0.5:
                out += [f'{ind}else'] + self.stmt_assign(ind + '  ')
            return out + [f'{ind}end if']
        if c < 0.93 and self.sigs.get('hsub2') and not env.assoc:
            # function reference as intent(in) actual argument of a subroutine call
            sc = [v for v in env.scalars('real', writable=True)]
            arr = self._array_actual('n')
            if len(sc) >= 2 and arr:
                self.features.add('fun_as_actual')
                s_io, s_out = rng.sample(sc, 2)
                pre = [f'{ind}!$loki inline'] if f['pragma'] else []
                return pre + [f'{ind}call hsub2(n, {arr[0]}, {s_io.ref}, {s_out.ref}, nint({ex.damp(ref)}))']
        self.features.add('fun_in_subscript_or_bound')
        sc = [v for v in env.scalars('real', writable=True)]
        if not sc or len(env.loopvars) >= 3:
            return [f'{ind}{tgt} = {ex.damp(ref)}']
        used = {lv for lv, _ in env.loopvars}
        lv = [x for x in ('i', 'j', 'k') if x not in used][0]
        s = rng.choice(sc)
        return [f'{ind}do {lv} = 1, 1 + mod(abs(nint({ex.damp(ref)})), 3)',
                f'{ind}  {s.ref} = {ex.damp(s.ref + " + " + ex.rlit())}', f'{ind}end do']

    def block(self, ind, depth, nstmts, loop_label=None):
        out = []
        if getattr(self, '_saved_vars', None) is not None:
            self.env.vars = self._saved_vars     # selectors are chosen, the block body sees all variables again
            self._saved_vars = None
        for _ in range(nstmts):
            if self.helper_sigs and self.rng.random() < self.flags['call_density']:
                self.stmt_count += 1
                out += self.stmt_call(ind)
            else:
                out += super().block(ind, depth, 1, loop_label)
        return out

    # -- conditions: with flags['simple_conditions'] every IF / SELECT condition is a plain comparison of scalar
    #    variables and literals (InlineTransformation(remove_dead_code=True) rewrites all conditions with
    #    loki.expression.simplify, whose defects belong to C08; they are exercised in a dedicated hazard slice only)
    def cond(self, env, depth):
        if not self.flags['simple_conditions']:
            return self.ex.log_expr(env, depth)
        return self._simple_cond(env, depth)

    def _simple_cond(self, env, depth=1):
        rng = self.rng
        iv = [v.ref for v in env.scalars('int')] + [lv for lv, _ in env.loopvars]
        rv = [v.ref for v in env.scalars('real')]
        lv = env.log_leaves()
        k = rng.choice(['i', 'i', 'r', 'r', 'l', 'and'] if depth > 0 else ['i', 'r', 'l'])
        if k == 'and':
            return f"({self._simple_cond(env, 0)}) {rng.choice(['.and.', '.or.'])} ({self._simple_cond(env, 0)})"
        if k == 'l' and lv:
            return rng.choice(lv) if rng.random() < 0.6 else f'.not. {rng.choice(lv)}'
        if k == 'r' and rv:
            return f"{rng.choice(rv)} {rng.choice(['<', '<=', '>', '>='])} {self.ex.rlit()}"
        if iv:
            b = rng.choice(iv) if rng.random() < 0.3 else str(rng.randint(0, 5))
            return f"{rng.choice(iv)} {rng.choice(['==', '/=', '<', '<=', '>', '>='])} {b}"
        return f"{self.ex.rlit()} > {self.ex.rlit()}" if not rv else f'{rv[0]} > {self.ex.rlit()}'

    def stmt_if(self, ind, depth, loop_label=None):
        if not self.flags['simple_conditions']:
            return super().stmt_if(ind, depth, loop_label)
        rng = self.rng
        self.features.add('if')
        out = [f'{ind}if ({self._simple_cond(self.env)}) then']
        out += self.block(ind + '  ', depth - 1, rng.randint(1, 2), loop_label)
        for _ in range(rng.choice([0, 0, 1])):
            self.features.add('else_if')
            out.append(f'{ind}else if ({self._simple_cond(self.env)}) then')
            out += self.block(ind + '  ', depth - 1, rng.randint(1, 2), loop_label)
        if rng.random() < 0.6:
            out.append(f'{ind}else')
            out += self.block(ind + '  ', depth - 1, rng.randint(1, 2), loop_label)
        out.append(f'{ind}end if')
        return out

    def stmt_inline_if(self, ind, loop_label=None):
        if not self.flags['simple_conditions']:
            return super().stmt_inline_if(ind, loop_label)
        self.features.add('inline_if')
        a = self.stmt_assign('')[0]
        return [f'{ind}if ({self._simple_cond(self.env)}) {a}']

    def stmt_select(self, ind, depth, loop_label=None):
        if not self.flags['simple_conditions']:
            return super().stmt_select(ind, depth, loop_label)
        rng = self.rng
        self.features.add('select_case')
        iv = [v.ref for v in self.env.scalars('int')]
        out = [f'{ind}select case ({rng.choice(iv)})']
        opts = [['(0)'], ['(1, 2)'], ['(3:4)'], ['(5:)']]
        rng.shuffle(opts)
        for o in opts[:rng.randint(1, 4)]:
            out.append(f'{ind}case {o[0]}')
            out += self.block(ind + '  ', depth - 1, rng.randint(1, 2), loop_label)
        if rng.random() < 0.6:
            out.append(f'{ind}case default')
            out += self.block(ind + '  ', depth - 1, 1, loop_label)
        out.append(f'{ind}end select')
        return out

    def stmt_associate(self, ind, depth, loop_label=None):
        # PARAMETERs are associate selectors only in the hazard slice 'assoc_param'
        keep = self.env.vars
        if not self.flags['assoc_param']:
            self.env.vars = [v for v in keep if v.kind != 'param']
        elif any(v.kind == 'param' for v in keep):
            self.env.vars = [v for v in keep if v.kind == 'param' or v.rank > 0]
            self.features.add('assoc_param')
        self._saved_vars = keep
        try:
            return super().stmt_associate(ind, depth, loop_label=loop_label)
        finally:
            self.env.vars = keep
            self._saved_vars = None

    # ------------------------------------------------------------------ assembly
    def generate(self):
        rng, f, rk = self.rng, self.flags, self.rk
        self._setup_vars()
        self._gen_helpers()
        self._gen_internals()
        if f['constants']:
            self._gen_constants()
        if f['stmtfuncs']:
            self._gen_stmtfuncs()     # statement functions last in the specification part
        env = self.env
        is_ext = lambda v: v.kind in ('param',)
        args = [v for v in env.vars if v.intent and not v.derived_of and not is_ext(v)]
        argnames = [v.name for v in args] + (['t1'] if self.has_derived else [])
        locs = [v for v in env.vars if not v.intent and not v.derived_of]
        init = []
        for v in env.vars:
            if v.derived_of or v.intent in ('in', 'inout'):
                continue
            if v.typ == 'real':
                init.append(f"    {v.name} = {self.ex.rlit()}")
            elif v.typ == 'int':
                init.append(f'    {v.name} = {self.ex.ilit()}')
            else:
                init.append(f'    {v.name} = .false.')
        body = self.block('    ', f['max_depth'], rng.randint(4, f['max_stmts']))
        tries = 0
        while self.ncalls == 0 and self.helper_sigs and tries < 6:
            body += self.stmt_call('    ')
            tries += 1
        for name, kind in self.helper_sigs:
            # every kind of callee the case is about is called at least once at the top level of the kernel
            if name in f.get('must_call', ()) and name not in self.called:
                for _ in range(4):
                    if name in self.called:
                        break
                    body += self._call_named('    ', name, kind)
        if f['respell']:
            self.features.add('callee_names_respelled')
            ad = bool(f['respell_array_dummy'])
            if ad:
                self.features.add('respell_array_dummy')
            self.hmod_procs = [_respell(p, rng, ad) for p in self.hmod_procs]
            self.internals = [_respell(p, rng, ad) for p in self.internals]
        kinds = ('module kinds_mod\n  implicit none\n  integer, parameter :: jprb = '
                 + ('selected_real_kind(13, 300)' if f['kind_selected'] or not f['constants'] else '8')
                 + '\n  integer, parameter :: jpim = selected_int_kind(9)\nend module kinds_mod\n')
        files = [('kinds_mod.F90', kinds)]
        if self.cmod_lines:
            files.append(('cmod.F90', '\n'.join(self.cmod_lines)))
        split = f['split_files'] and self.hmod_procs
        if split:
            h = ['module hmod', '  use kinds_mod, only: jprb', '  implicit none', 'contains'] + \
                [p.rstrip('\n') for p in self.hmod_procs] + ['end module hmod', '']
            files.append(('hmod.F90', '\n'.join(h)))
        L = ['module kmod', '  use kinds_mod, only: jprb']
        if split and not f['import_in_routine']:
            L.append('  use hmod, only: ' + ', '.join(n for n in self.sigs if self.sigs[n]['kind'] in ('sub', 'fun', 'ele')))
        L += self.mod_uses
        L.append('  implicit none')
        if self.has_derived:
            L.append(f'  type :: ttype\n    real(kind={rk}) :: p\n    real(kind={rk}) :: q(5)\n    integer :: kk\n  end type ttype')
        L.append('contains')
        L.append(f"  subroutine kern({', '.join(argnames)})")
        if split and f['import_in_routine']:
            L.append('    use hmod, only: ' + ', '.join(n for n in self.sigs if self.sigs[n]['kind'] in ('sub', 'fun', 'ele')))
        L += self.kern_uses
        for v in args:
            L.append(self._decl(v))
        if self.has_derived:
            L.append('    type(ttype), intent(inout) :: t1')
        for v in locs:
            L.append(self._decl(v))
        L.append('    integer :: i, j, k')
        L += self.spec_extra
        L += init
        L += body
        if self.internals:
            L.append('  contains')
            L += [p.rstrip('\n') for p in self.internals]
        L.append('  end subroutine kern')
        if not split:
            L += [p.rstrip('\n') for p in self.hmod_procs]
        L.append('end module kmod')
        files.append(('kmod.F90', '\n'.join(L) + '\n'))
        driver = self._driver(args, 'kmod')
        stdins = [f'{n} {m} {sd}\n' for n, m, sd in ((4, 3, 1), (7, 2, 5), (1, 1, 2), (5, 5, 9))]
        return InlCase(files=files, driver=driver, stdins=stdins, features=set(self.features),
                       meta={'sigs': {k: v['kind'] for k, v in self.sigs.items()}, 'ncalls': self.ncalls,
                             'flags': {k: v for k, v in f.items() if k in INL_FLAGS}})

    def _decl(self, v):
        if v.kind == 'paramdim':
            return f'    real(kind={self.rk}) :: {v.name}(nc2)'
        return super()._decl(v)


def _off(text, k):
    if k == 0:
        return text
    return f'{text} + {k}' if k > 0 else f'{text} - {-k}'


_DECL_RE = re.compile(r'^\s*(integer|real|logical)\b[^:]*::\s*(.*)$', re.I)


def _declared_names(text, skip_array_dummies=False):
    """names declared in the specification lines of one procedure text (dummies, locals, result)"""
    names = []
    for line in text.split('\n'):
        m = _DECL_RE.match(line)
        if not m:
            continue
        dummy = 'intent(' in line.lower()
        depth, cur, items = 0, '', []
        for c in m.group(2):
            if c == '(':
                depth += 1
            elif c == ')':
                depth -= 1
            if c == ',' and depth == 0:
                items.append(cur)
                cur = ''
            else:
                cur += c
        items.append(cur)
        for it in items:
            mm = re.match(r'\s*([A-Za-z_]\w*)\s*(\()?', it)
            if mm and not (skip_array_dummies and dummy and mm.group(2)):
                names.append(mm.group(1).lower())
    return names


def _respell(text, rng, array_dummies=False):
    """spell the dummies and locals of one callee differently in declarations and uses: upper case (mostly) in the
    specification lines, a random mix of lower / upper / capitalised spelling everywhere else (comments untouched).
    Array dummies keep their spelling unless ``array_dummies`` (known defect: map_call_to_procedure_body matches the
    uses of an array dummy to its declaration by case-sensitive name comparison)."""
    names = set(_declared_names(text, skip_array_dummies=not array_dummies))
    fname = re.match(r'\s*(?:elemental\s+)?(?:subroutine|function)\s+(\w+)', text, re.I)
    if fname:
        names.discard(fname.group(1).lower())     # the function name as result variable keeps its spelling
    if not names:
        return text
    pat = re.compile(r'(?<![\w%.])(' + '|'.join(sorted(names, key=len, reverse=True)) + r')(?![\w])', re.I)
    out = []
    for line in text.split('\n'):
        code, sep, com = line.partition('!')
        is_decl = bool(_DECL_RE.match(code))

        def sub(mo, is_decl=is_decl):
            w, r = mo.group(0), rng.random()
            if is_decl:
                return w.upper() if r < 0.7 else (w.capitalize() if r < 0.8 else w)
            return w.upper() if r < 0.25 else (w.capitalize() if r < 0.35 else w)
        out.append(pat.sub(sub, code) + sep + com)
    return '\n'.join(out)


def _idents(text):
    import re
    return set(re.findall(r'[A-Za-z_]\w*', text or ''))
