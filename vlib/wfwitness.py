"""
Directed minimal witnesses for the known findings of C40 / C41 (one small program per mechanism).

    PYTHONPATH=/verif:/repo /venv/bin/python -m vlib.wfwitness [substring-of-name ...]

Each witness prints the E8 issues (vlib/wellformed.py), the frontend / gfortran verdict on the regenerated code, or the
difference between one and two applications.
"""
import shutil
import sys
import tempfile
from pathlib import Path

from vlib import wellformed as wf

M_HOST = """
module m
  implicit none
contains
  subroutine k(n, s1, y)
    integer, intent(in) :: n
    real, intent(in) :: s1
    real, intent(out) :: y(n)
    integer :: i
    do i = 1, n
      call isub(y(i))
    end do
  contains
    subroutine isub(z)
      real, intent(out) :: z
      z = s1 + real(n)
    end subroutine isub
  end subroutine k
end module m
"""

M_ASSOC = """
module m
  implicit none
contains
  subroutine k(n, a, b)
    integer, intent(in) :: n
    real, intent(inout) :: a(n), b(n)
    associate (x => a)
      associate (y => b)
        x(1) = y(1)
      end associate
    end associate
  end subroutine k
end module m
"""

M_LOOPVAR = """
module m
  implicit none
contains
  subroutine k(n, a)
    integer, intent(in) :: n
    real, intent(inout) :: a(n)
    integer :: i
    real :: unused_scalar
    do i = 1, n
      a(i) = a(i) + 1.0
    end do
  end subroutine k
end module m
"""

M_OUTLINE = """
module m
  implicit none
contains
  subroutine k(n, a)
    integer, intent(in) :: n
    real, intent(inout) :: a(n)
    real :: w(n)
    integer :: i
    w = 1.0
    !$loki outline
    w(1) = 2.0
    a(1) = w(1)
    !$loki end outline
    do i = 1, n
      a(i) = a(i) + w(i)
    end do
  end subroutine k
end module m
"""

M_DUP = """
module m
  implicit none
contains
  subroutine k(n, a, s)
    integer, intent(in) :: n
    real, intent(in) :: a(n)
    real, intent(inout) :: s
    call hdup(n, n, a, s)
  end subroutine k
  subroutine hdup(n1, n2, xin, sout)
    integer, intent(in) :: n1, n2
    real, intent(in) :: xin(n1)
    real, intent(inout) :: sout
    sout = sout + xin(1)*real(N2)
  end subroutine hdup
end module m
"""

M_WHERE = """
module m
  implicit none
contains
  subroutine k(n, a, b, d)
    integer, intent(in) :: n
    real, intent(inout) :: a(n), b(n)
    real, intent(in) :: d(0:n - 1)
    integer :: jz
    where (d <= b - a) a = 1.0
  end subroutine k
end module m
"""

M_FLAT = """
module m
  implicit none
contains
  subroutine k(n, m2, c, d)
    integer, intent(in) :: n, m2
    real, intent(inout) :: c(n, m2)
    real, intent(inout) :: d(0:n - 1)
    integer :: i, j
    do j = 1, m2
      do i = 1, n
        c(i, j) = d(i - 1)
      end do
    end do
  end subroutine k
end module m
"""

M_CONST = """
module kinds_w
  implicit none
  integer, parameter :: jprb = selected_real_kind(13, 300)
end module kinds_w
module m
  use kinds_w, only: jprb
  implicit none
contains
  subroutine k(x)
    real(kind=jprb), intent(inout) :: x
    integer :: j1
    j1 = 2
    x = x + real(j1, jprb)*0.5_jprb
  end subroutine k
end module m
"""

M_MIXED = """
module m
  implicit none
contains
  subroutine k(n, w1)
    integer, intent(in) :: n
    real, intent(inout) :: w1(n)
    w1 = 10.0
    W1(:) = 0.5
  end subroutine k
end module m
"""


M_PRINT = """
module m
  implicit none
contains
  subroutine k(n, s2, a1)
    integer, intent(in) :: n
    real, intent(in) :: s2, a1(n)
    print *, 'x', s2, a1(n)
  end subroutine k
end module m
"""

M_INTERNAL_CASE = """
module m
  implicit none
contains
  subroutine k(n, a1, s2)
    integer, intent(in) :: n
    real, intent(in) :: a1(n)
    real, intent(inout) :: s2
    call isub(n, a1, s2)
  contains
    Subroutine isub(nn, xin, Sout)
      integer, intent(in) :: nn
      REAL, INTENT(in) :: XIN(nn)
      real, intent(inout) :: sout
      integer :: II
      do ii = 1, NN
        sout = Sout + xin(II)*0.25
      end do
    end subroutine isub
  end subroutine k
end module m
"""

M_VECLOOP = """
module m
  implicit none
contains
  subroutine k(n, m2, a, b)
    integer, intent(in) :: n, m2
    real, intent(inout) :: a(n), b(n)
    integer :: i
    do i = 1, n, 2
      b(i) = 1.0
    end do
    do i = m2, 1, -1
      a(1:n:2) = b(1:n:2) + real(i)
    end do
  end subroutine k
end module m
"""


def _T():
    import loki.transformations as T   # pylint: disable=import-outside-toplevel
    return T


def _clone_print(sf):
    r = sf['k']
    new = r.clone(name='k2')       # clone() rescopes the symbols of the copy -- except those inside PRINT
    r.parent.contains.append(new)


def _outline(sf):
    from loki.transformations.extract import outline_pragma_regions   # pylint: disable=import-outside-toplevel
    r = sf['k']
    new = outline_pragma_regions(r)
    r.parent.contains.append(new)


def _extract(sf):
    from loki.transformations.extract import extract_internal_procedures   # pylint: disable=import-outside-toplevel
    r = sf['k']
    new = extract_internal_procedures(r)
    r.parent.contains.append(new)


def _resolve_dim(sf):
    from loki import Dimension   # pylint: disable=import-outside-toplevel
    d = Dimension(name='h', index='jz', lower='1', upper='n', size='n')
    _T().resolve_vector_dimension(sf['k'], dimension=d, derive_qualified_ranges=True)


WITNESSES = [
    ('rename_variables(host-used)', M_HOST, lambda sf: _T().rename_variables(sf['k'], symbol_map={'s1': 's1_r', 'n': 'n_r'})),
    ('do_merge_associates', M_ASSOC, lambda sf: _T().do_merge_associates(sf['k'])),
    ('do_remove_unused_vars(all)', M_LOOPVAR, lambda sf: _T().do_remove_unused_vars(sf['k'], remove_only_arrays=False)),
    ('outline_pragma_regions', M_OUTLINE, _outline),
    ('extract_internal_procedures', M_HOST, _extract),
    ('remove_duplicate_args(case)', M_DUP, lambda sf: _T().remove_duplicate_args_from_calls(sf['k'])),
    ('remove_duplicate_args(rename_common)', M_DUP.replace('N2', 'n2'),
     lambda sf: _T().remove_duplicate_args_from_calls(sf['k'], rename_common=True)),
    ('resolve_vector_dimension(where)', M_WHERE, _resolve_dim),
    ('flatten_arrays', M_FLAT, lambda sf: _T().flatten_arrays(sf['k'])),
    ('do_constant_propagation', M_CONST, lambda sf: _T().do_constant_propagation(sf['k'])),
    ('inline_constant_parameters', M_CONST, lambda sf: _T().inline_constant_parameters(sf['k'], external_only=True)),
    ('print_stmt(clone)', M_PRINT, _clone_print),
    ('print_stmt(rename)', M_PRINT, lambda sf: _T().rename_variables(sf['k'], symbol_map={'s2': 's2_r'})),
    ('resolve_vector_notation(enclosing loop variable)', M_VECLOOP, lambda sf: _T().resolve_vector_notation(sf['k'])),
    ('inline_internal_procedures(case)', M_INTERNAL_CASE, lambda sf: _T().inline_internal_procedures(sf['k'])),
]

TWICE = [
    ('remove_explicit_array_dimensions(case)', M_MIXED, lambda sf: _T().remove_explicit_array_dimensions(sf['k'])),
]


def main(argv):
    from loki import Sourcefile   # pylint: disable=import-outside-toplevel
    wd = Path(tempfile.mkdtemp(prefix='wfwit_'))
    try:
        for name, src, fn in WITNESSES:
            if argv and not any(a in name for a in argv):
                continue
            print(f'=== {name}')
            sf = Sourcefile.from_source(src)
            base, _ = wf.check_ir(sf)
            assert not base, base
            try:
                fn(sf)
            except Exception as e:  # pylint: disable=broad-except
                print(f'   transformation raises {type(e).__name__}: {e}')
                continue
            issues, _ = wf.check_ir(sf)
            for i in issues:
                print(f"   IR   {i['key']}: {i['msg']}")
            try:
                text = sf.to_fortran()
            except Exception as e:  # pylint: disable=broad-except
                print(f'   fgen raises {type(e).__name__}: {e}')
                continue
            ok, det, _ = wf.check_reparse(text)
            if not ok:
                print('   REPARSE', det.replace('\n', ' | ')[:300])
            ok, det, _ = wf.check_compile(wd / 'c', 'w.F90', text)
            if not ok:
                print('   COMPILE', wf.norm_compile_error(det), '|', det.strip().replace('\n', ' | ')[-400:])
            if '-v' in argv:
                print(text)
        for name, src, fn in TWICE:
            if argv and not any(a in name for a in argv):
                continue
            print(f'=== twice: {name}')
            sf = Sourcefile.from_source(src)
            fn(sf)
            t1 = sf.to_fortran()
            fn(sf)
            t2 = sf.to_fortran()
            for a, b in zip(t1.split('\n'), t2.split('\n')):
                if a != b:
                    print(f'   once : {a}\n   twice: {b}')
    finally:
        shutil.rmtree(wd, ignore_errors=True)


if __name__ == '__main__':
    main(sys.argv[1:])
