#!/venv/bin/python
"""Run the repository test suite (guard off) and compare with BASELINE.json stable_pass.
usage: run_baseline.py [repo_dir]"""
import json, os, subprocess, sys, tempfile, xml.etree.ElementTree as ET
repo = sys.argv[1] if len(sys.argv) > 1 else '/repo'
env = {k: v for k, v in os.environ.items() if not k.startswith('LOKI_VERIF')}
env['PYTHONPATH'] = repo
out = tempfile.mktemp(suffix='.xml')
cmd = ['/venv/bin/python', '-m', 'pytest', '-q', '-p', 'no:cacheprovider', '--timeout=900',
       '--continue-on-collection-errors', f'--junitxml={out}'] + sys.argv[2:]
p = subprocess.run(cmd, cwd=repo, env=env, capture_output=True, text=True)
print(p.stdout.strip().splitlines()[-1])
passed = set()
for tc in ET.parse(out).getroot().iter('testcase'):
    if not list(tc):
        passed.add(f"{tc.get('classname')}::{tc.get('name')}")
os.unlink(out)
base = set(json.load(open('/root/.vp/BASELINE.json'))['stable_pass'])
missing = sorted(base - passed)
print(f'baseline stable_pass={len(base)} passed_now={len(passed)} missing={len(missing)}')
for m in missing[:40]:
    print('  MISSING', m)
sys.exit(1 if missing else 0)
