"""
IR laboratory shared by the C14 / C15 / C16 checks.

* ``gen_text(rng, flags)``       -- E1 program text (``fgenlab.ProgGen``) decorated with pragmas / comments
* ``decorate(text, rng, opts)``  -- insert ``!$loki/!$acc/!$omp`` pragmas at hostile places
* independent traversal of the IR that does **not** use Loki's visitors:
  ``node_children`` (dataclass fields), ``preorder``, ``expr_children`` (class by class),
  ``walk_expr``, ``node_exprs``
* ``enc`` / ``enc_expr``         -- s-expression encoding of IR trees (nested tuples of plain values)
* ``TreeBuilder``                -- hand-assembled IR trees with node kinds the generator does not produce
"""
import dataclasses
import re

from vlib.fgenlab import ProgGen

# ----------------------------------------------------------------------------------------------
# program text
# ----------------------------------------------------------------------------------------------

LOOP_PRAGMAS = ['!$loki loop-fusion group(g1)', '!$acc parallel loop gang', '!$omp parallel do private(i)',
                '!$loki k_caching', '!$acc loop vector', '!$loki loop-interchange', '!$OMP SIMD',
                '!$loki driver-loop', '!$acc loop seq']
LOOP_POST = ['!$acc end parallel loop', '!$omp end parallel do', '!$loki end loop-fusion', '!$acc end loop',
             '!$loki end driver-loop']
CALL_PRAGMAS = ['!$loki inline', '!$acc routine seq', '!$loki small-kernels', '!$omp task']
DECL_PRAGMAS = ['!$loki something', '!$acc declare create(w1)', '!$loki routine seq', '!$omp threadprivate(x1)']
FREE_PRAGMAS = ['!$loki remove', '!$acc wait', '!$omp barrier', '!$loki noop here', '!$acc update host(a2)']
REGIONS = [('!$loki data', '!$loki end data'), ('!$acc data present(a1)', '!$acc end data'),
           ('!$omp parallel', '!$omp end parallel'), ('!$loki region-to-call name(foo)', '!$loki end region-to-call'),
           ('!$acc kernels', '!$acc end kernels'), ('!$loki remove', '!$loki end remove'),
           ('!$acc parallel loop', '!$acc end parallel loop'), ('!$LOKI Outline', '!$loki END outline')]
COMMENTS = ['! a comment', '! another comment line', '!', '! $loki not a pragma', '!-- dashed']

DEFAULT_DECOR = dict(p_loop=0.5, p_post=0.35, p_call=0.4, p_decl=0.15, p_free=0.08, n_regions=2,
                     p_unmatched=0.35, p_body_edge=0.4, p_comment=0.1, p_select=0.5, p_where=0.5,
                     odd_end=False)


def _indent(line):
    return len(line) - len(line.lstrip(' '))


def decorate(text, rng, opts=None):
    """Insert pragmas / comments into ProgGen text (one statement per line, 2-space indentation).

    Returns (new_text, set_of_features)."""
    o = dict(DEFAULT_DECOR)
    o.update(opts or {})
    feats = set()
    lines = text.split('\n')
    # locate procedure bodies inside "contains" of module kmod: [start, end) line ranges of routines
    ins_before = {}   # line index -> list of lines to insert before it

    def add(i, s, ind=None):
        ind = _indent(lines[i]) if ind is None else ind
        ins_before.setdefault(i, []).append(' ' * ind + s)

    in_routine = 0
    spec_phase = False
    routine_start = None
    exec_lines = []   # (index) of executable-part lines per routine, for regions
    routines = []
    for i, ln in enumerate(lines):
        s = ln.strip().lower()
        if re.match(r'^(elemental |pure )?(subroutine|function)\b', s) or re.match(r'^[a-z ]*function \w+\(', s):
            in_routine += 1
            spec_phase = True
            routine_start = i
            exec_lines = []
            continue
        if re.match(r'^end (subroutine|function)\b', s):
            if exec_lines:
                routines.append(list(exec_lines))
            exec_lines = []
            in_routine -= 1
            # after an internal routine ended we are back in the host's contains part: no more statements
            spec_phase = False
            continue
        if not in_routine:
            continue
        if s == 'contains':
            if exec_lines:
                routines.append(list(exec_lines))
            exec_lines = []
            continue
        if spec_phase:
            if '::' in s or s.startswith('use ') or s.startswith('implicit') or not s or s.startswith('!'):
                if '::' in s and rng.random() < o['p_decl']:
                    add(i, rng.choice(DECL_PRAGMAS))
                    feats.add('pragma_before_decl')
                    if rng.random() < 0.3:
                        add(i, rng.choice(DECL_PRAGMAS))
                        feats.add('consecutive_pragmas')
                continue
            spec_phase = False
        exec_lines.append(i)

    for ex in routines:
        if not ex:
            continue
        first, last = ex[0], ex[-1]
        # start / end of body
        if rng.random() < o['p_body_edge']:
            add(first, rng.choice(FREE_PRAGMAS + LOOP_PRAGMAS))
            feats.add('pragma_at_body_start')
        end_insert = last + 1
        if rng.random() < o['p_body_edge']:
            ins_before.setdefault(end_insert, []).append(' ' * _indent(lines[first]) +
                                                         rng.choice(FREE_PRAGMAS + LOOP_POST))
            feats.add('pragma_at_body_end')
        for i in ex:
            ln = lines[i]
            s = ln.strip().lower()
            if re.match(r'^(\w+:\s*)?do\b', s):
                if rng.random() < o['p_loop']:
                    n = rng.choice([1, 1, 1, 2, 3])
                    for k in range(n):
                        add(i, rng.choice(LOOP_PRAGMAS))
                        if k + 1 < n and rng.random() < 0.15:
                            add(i, rng.choice(COMMENTS))
                            feats.add('comment_between_pragmas')
                    feats.add('pragma_before_loop')
                    if n > 1:
                        feats.add('consecutive_pragmas')
            elif re.match(r'^end do\b', s):
                if rng.random() < o['p_post'] and i + 1 < len(lines):
                    n = rng.choice([1, 1, 2])
                    for _ in range(n):
                        ins_before.setdefault(i + 1, []).insert(0, ' ' * _indent(ln) + rng.choice(LOOP_POST))
                    feats.add('pragma_after_loop')
            elif s.startswith('call '):
                if rng.random() < o['p_call']:
                    add(i, rng.choice(CALL_PRAGMAS))
                    feats.add('pragma_before_call')
                    if rng.random() < 0.25:
                        add(i, rng.choice(CALL_PRAGMAS + LOOP_PRAGMAS))
                        feats.add('consecutive_pragmas')
                if rng.random() < o['p_call'] * 0.5:
                    ins_before.setdefault(i + 1, []).insert(0, ' ' * _indent(ln) + rng.choice(FREE_PRAGMAS))
                    feats.add('pragma_after_call')
            elif s.startswith('case (') or s.startswith('case default'):
                if rng.random() < o['p_select']:
                    ins_before.setdefault(i + 1, []).insert(0, ' ' * (_indent(ln) + 2) +
                                                            rng.choice(FREE_PRAGMAS + LOOP_PRAGMAS))
                    feats.add('pragma_in_select')
            elif s.startswith('end select'):
                if rng.random() < o['p_select'] * 0.5:
                    add(i, rng.choice(FREE_PRAGMAS), ind=_indent(ln) + 2)
                    feats.add('pragma_in_select')
            elif (s.startswith('where (') and _balanced_end(s)) or s.startswith('elsewhere'):
                if rng.random() < o['p_where']:
                    ins_before.setdefault(i + 1, []).insert(0, ' ' * (_indent(ln) + 2) + rng.choice(FREE_PRAGMAS))
                    feats.add('pragma_in_where')
            elif rng.random() < o['p_free']:
                add(i, rng.choice(FREE_PRAGMAS))
                feats.add('free_pragma')
            if rng.random() < o['p_comment']:
                add(i, rng.choice(COMMENTS))
                if rng.random() < 0.4:
                    add(i, rng.choice(COMMENTS))
                feats.add('comments')
        # regions
        for _ in range(rng.randint(0, o['n_regions'])):
            start, stop = rng.choice(REGIONS)
            a = rng.choice(ex)
            d = _indent(lines[a])
            # end candidates in the same block: following lines until indentation drops below d
            cands = []
            for j in ex:
                if j <= a:
                    continue
                if _indent(lines[j]) < d:
                    cands.append(j)    # closing line of the block: position "before it" is the block end
                    break
                if _indent(lines[j]) == d and not _is_continuation_kw(lines[j]):
                    cands.append(j)
            if _is_continuation_kw(lines[a]):
                continue
            kind = rng.random()
            if kind < o['p_unmatched'] or not cands:
                which = rng.choice(['start_only', 'end_only', 'cross_level', 'reversed'])
                if which == 'start_only':
                    add(a, start)
                elif which == 'end_only':
                    add(a, stop)
                elif which == 'reversed' and cands:
                    add(a, stop)
                    b = rng.choice(cands)
                    add(b, start, ind=d)
                else:
                    add(a, start)
                    deeper = [j for j in ex if j > a and _indent(lines[j]) != d and not _is_continuation_kw(lines[j])]
                    if deeper:
                        add(rng.choice(deeper), stop)
                feats.add('unmatched_region:' + which)
            else:
                b = rng.choice(cands)
                add(a, start)
                ins_before.setdefault(b, []).append(' ' * d + stop)
                feats.add('matched_region')
        if o['odd_end'] and rng.random() < 0.7:
            a = rng.choice(ex)
            if not _is_continuation_kw(lines[a]):
                add(a, rng.choice(['!$loki end', '!$acc end', '!$omp end', '!$loki foo end']))
                feats.add('odd_end_pragma')
    out = []
    for i, ln in enumerate(lines):
        out.extend(ins_before.get(i, []))
        out.append(ln)
    out.extend(ins_before.get(len(lines), []))
    return '\n'.join(out), feats


def _balanced_end(s):
    """``where (mask)`` construct header (nothing after the closing parenthesis)."""
    depth = 0
    for k, c in enumerate(s):
        if c == '(':
            depth += 1
        elif c == ')':
            depth -= 1
            if depth == 0:
                return k == len(s) - 1
    return False


def _is_continuation_kw(line):
    s = line.strip().lower()
    return bool(re.match(r'^(else\b|elsewhere\b|case\b|end \w+|contains\b)', s))


def gen_text(rng, flags=None, decor=None, decorate_p=1.0):
    """Generated module text with pragmas; returns (text, features)."""
    f = dict(continuation=False, semicolons=False, mixed_case=False, long_expr=False)
    f.update(flags or {})
    case = ProgGen(rng, f).generate()
    feats = set(case.features)
    text = case.units
    if rng.random() < decorate_p:
        text, df = decorate(text, rng, decor)
        feats |= df
    return text, feats


# ----------------------------------------------------------------------------------------------
# independent traversal (no Loki visitor involved)
# ----------------------------------------------------------------------------------------------

ATTACHED_FIELDS = ('pragma', 'pragma_post', 'comment', 'comments')
"""Node-valued fields that Loki documents as detached from traversal (attached pragmas, inline comments,
the single comments that make up a CommentBlock)."""

SKIP_FIELDS = ('source', 'parent', 'symbol_attrs', 'rescope_symbols')
DFA_SLOTS = ('_live_symbols', '_defines_symbols', '_uses_symbols')


def _loki():
    import loki.ir as ir
    from pymbolic.primitives import Expression
    return ir, Expression


def field_items(node):
    """(name, value) for every dataclass field of the node, in definition order."""
    d = node.__dict__
    return [(f.name, d.get(f.name)) for f in dataclasses.fields(node)]


def _nodes_in(value, Node, out):
    if isinstance(value, Node):
        out.append(value)
    elif isinstance(value, (tuple, list)):
        for v in value:
            _nodes_in(v, Node, out)


def node_children(node, attached=False):
    """Direct child nodes held in the dataclass fields of ``node`` (all fields, not ``_traversable``)."""
    ir, _ = _loki()
    out = []
    for name, value in field_items(node):
        if name in SKIP_FIELDS:
            continue
        if name in ATTACHED_FIELDS and not attached:
            continue
        _nodes_in(value, ir.Node, out)
    return out


def preorder(root, enter_typedef=False, attached=False, greedy=None, parents=None, _anc=()):
    """Pre-order list of nodes below ``root`` (a node or nested tuples of nodes).

    ``greedy``: optional predicate; children of a node satisfying it are not visited.
    ``parents``: optional dict id(node) -> list of ancestor chains (each a tuple of nodes, root first)."""
    ir, _ = _loki()
    out = []
    stack = [(root, _anc)]
    while stack:
        x, anc = stack.pop()
        if isinstance(x, (tuple, list)):
            for v in reversed(x):
                stack.append((v, anc))
            continue
        if not isinstance(x, ir.Node):
            continue
        out.append(x)
        if parents is not None:
            parents.setdefault(id(x), []).append(anc + (x,))
        if greedy is not None and greedy(x):
            continue
        if isinstance(x, ir.TypeDef) and not enter_typedef:
            continue
        for c in reversed(node_children(x, attached=attached)):
            stack.append((c, anc + (x,)))
    return out


def expr_children(e):
    """Direct sub-expressions, class by class. Returns None for an unknown expression class."""
    from loki.expression import symbols as sym
    import pymbolic.primitives as pmbl
    _, Expression = _loki()
    ch = None
    if isinstance(e, (sym.IntLiteral, sym.FloatLiteral)):
        ch = [e.kind] if isinstance(getattr(e, 'kind', None), Expression) else []
    elif isinstance(e, (sym.LogicLiteral, sym.StringLiteral, sym.IntrinsicLiteral)):
        ch = []
    elif isinstance(e, sym.LiteralList):
        ch = [x for x in e.elements if not isinstance(x, str)]
    elif isinstance(e, sym.Array):
        ch = [e._symbol]
    elif isinstance(e, sym.MetaSymbol):
        ch = [e._symbol]
    elif isinstance(e, (sym.ArraySubscript, sym.StringSubscript)):
        ch = [e.aggregate] + list(e.index if isinstance(e.index, tuple) else (e.index,))
    elif isinstance(e, sym.TypedSymbol):
        ch = [e.parent] if getattr(e, 'parent', None) is not None else []
    elif isinstance(e, sym.Cast):
        ch = [e.function] + list(e.parameters) + ([e.kind] if e.kind is not None else [])
    elif isinstance(e, sym.InlineCall):
        ch = [e.function] + list(e.parameters) + [v for _, v in _kw_items(e.kw_parameters)]
    elif isinstance(e, sym.InlineDo):
        ch = [e.values, e.variable, e.bounds]
    elif isinstance(e, (sym.Reference, sym.Dereference)):
        ch = [e.expression]
    elif isinstance(e, pmbl.Slice):
        ch = [c for c in e.children if c is not None]
    elif isinstance(e, (pmbl.Sum, pmbl.Product, pmbl.LogicalAnd, pmbl.LogicalOr, sym.StringConcat)):
        ch = list(e.children)
    elif isinstance(e, pmbl.Quotient):
        ch = [e.numerator, e.denominator]
    elif isinstance(e, pmbl.Power):
        ch = [e.base, e.exponent]
    elif isinstance(e, pmbl.Comparison):
        ch = [e.left, e.right]
    elif isinstance(e, pmbl.LogicalNot):
        ch = [e.child]
    elif isinstance(e, pmbl.Call):
        ch = [e.function] + list(e.parameters)
    if ch is None:
        return None
    return ch


def _kw_items(kw):
    if not kw:
        return []
    if isinstance(kw, dict):
        return list(kw.items())
    return list(kw)


class UnknownExpr(Exception):
    pass


def walk_expr(e, out):
    """Append every pymbolic expression node reachable from ``e`` (nested tuples allowed) to ``out``."""
    _, Expression = _loki()
    stack = [e]
    while stack:
        x = stack.pop()
        if isinstance(x, (tuple, list)):
            stack.extend(reversed(x))
            continue
        if not isinstance(x, Expression):
            continue   # python numbers, strings, None
        out.append(x)
        ch = expr_children(x)
        if ch is None:
            raise UnknownExpr(type(x).__name__)
        stack.extend(reversed(ch))
    return out


def _has_expr(value, Expression):
    if isinstance(value, Expression):
        return True
    if isinstance(value, (tuple, list)):
        return any(_has_expr(v, Expression) for v in value)
    return False


def own_expr_fields(node):
    """[(field name, value)] of the dataclass fields of ``node`` holding expressions (any nesting of tuples)."""
    ir, Expression = _loki()
    out = []
    for name, value in field_items(node):
        if name in SKIP_FIELDS or name in ATTACHED_FIELDS:
            continue
        if _has_expr(value, Expression):
            out.append((name, value))
    return out


def _top_exprs(value, Expression, out):
    if isinstance(value, Expression):
        out.append(value)
    elif isinstance(value, (tuple, list)):
        for v in value:
            _top_exprs(v, Expression, out)


def node_exprs(node, traversable_only=False):
    """All expression-tree nodes owned directly by ``node`` (not by its child nodes).

    Returns (list_of_expression_nodes, {field name: count} for fields outside ``_traversable``)."""
    ir, Expression = _loki()
    out = []
    untrav = {}
    if isinstance(node, ir.TypeDef):
        return out, untrav
    for name, value in own_expr_fields(node):
        if name not in node._traversable:
            sub = []
            tops = []
            _top_exprs(value, Expression, tops)
            walk_expr(tops, sub)
            untrav[name] = sub
            if traversable_only:
                continue
            out.extend(sub)
            continue
        tops = []
        _top_exprs(value, Expression, tops)
        walk_expr(tops, out)
    if isinstance(node, ir.VariableDeclaration):
        # initial values are expressions of the declaration (``integer :: i = 5``)
        for s in node.symbols:
            init = getattr(getattr(s, 'type', None), 'initial', None)
            if init is not None:
                walk_expr(init, out)
    return out, untrav


# ----------------------------------------------------------------------------------------------
# s-expression encoding
# ----------------------------------------------------------------------------------------------

def enc_expr(e, memo=None):
    """Structural encoding of an expression (class name, printed form for leaves, children)."""
    _, Expression = _loki()
    if isinstance(e, (tuple, list)):
        return tuple(enc_expr(x, memo) for x in e)
    if not isinstance(e, Expression):
        return repr(e)
    if memo is not None and id(e) in memo:
        return memo[id(e)][1]
    ch = expr_children(e)
    if ch is None:
        raise UnknownExpr(type(e).__name__)
    atom = ''
    if not ch or hasattr(e, 'name'):
        try:
            atom = str(getattr(e, 'name', None) if hasattr(e, 'name') else e)
        except Exception:  # pylint: disable=broad-except
            atom = '?'
    if hasattr(e, 'value') and not ch:
        atom = repr(getattr(e, 'value'))
    op = getattr(e, 'operator', '')
    r = (type(e).__name__, atom, op, tuple(enc_expr(c, memo) for c in ch))
    if memo is not None:
        memo[id(e)] = (e, r)
    return r


def enc_value(v, memo, with_private):
    ir, Expression = _loki()
    if isinstance(v, ir.Node):
        return enc(v, memo, with_private)
    if isinstance(v, Expression):
        return enc_expr(v, memo)
    if isinstance(v, (tuple, list)):
        return tuple(enc_value(x, memo, with_private) for x in v)
    if isinstance(v, dict):
        return tuple((str(k), enc_value(x, memo, with_private)) for k, x in v.items())
    if isinstance(v, (str, int, float, bool)) or v is None:
        return v
    # program units in interface bodies, data types, ...: opaque but stable description
    name = getattr(v, 'name', None)
    return ('<%s>' % type(v).__name__, str(name) if name is not None else str(v))


def enc(x, memo=None, with_private=False, skip_source=True):
    """S-expression of a node / nested tuples of nodes: (class, ((field, value), ...)).

    Every dataclass field takes part except ``source`` (documented to be invalidated), the upward ``parent``
    pointer and the symbol table of scoped nodes. ``with_private`` adds the transient dataflow slots."""
    ir, _ = _loki()
    if isinstance(x, (tuple, list)):
        return tuple(enc(v, memo, with_private) for v in x)
    if not isinstance(x, ir.Node):
        return enc_value(x, memo, with_private)
    items = []
    for name, value in field_items(x):
        if name in SKIP_FIELDS:
            continue
        if name == 'text' and isinstance(x, (ir.PrintStmt, ir.FormatStmt)):
            continue
        items.append((name, enc_value(value, memo, with_private)))
    if with_private:
        for k in sorted(x.__dict__):
            if k.startswith('_') and k not in ('_source',) and not (with_private == 'nodfa' and k in DFA_SLOTS):
                v = x.__dict__[k]
                if v is not None:      # an absent placeholder and a None placeholder are the same state
                    items.append((k, 'set'))
        extra = sorted(k for k in x.__dict__ if k not in {f.name for f in dataclasses.fields(x)}
                       and not k.startswith('_') and k not in SKIP_FIELDS and x.__dict__[k] is not None)
        for k in extra:
            items.append(('+' + k, enc_value(x.__dict__[k], memo, with_private)))
    return ('@' + type(x).__name__, tuple(items))


def first_diff(a, b, path='root'):
    """Human-readable location of the first difference of two s-expressions."""
    if type(a) is not type(b):
        return f'{path}: {_short(a)} != {_short(b)}'
    if isinstance(a, tuple):
        if class_of(a) and class_of(b) and a[0] != b[0]:
            return f'{path}: node {a[0][1:]} != {b[0][1:]}'
        if len(a) != len(b):
            names = ''
            return f'{path}: length {len(a)} != {len(b)}{names}: {_short(a)} != {_short(b)}'
        for i, (x, y) in enumerate(zip(a, b)):
            if x != y:
                sub = f"{path}/{a[0].lstrip('@')}" if (i == 1 and isinstance(a[0], str)) else \
                    (f'{path}.{x[0]}' if isinstance(x, tuple) and len(x) == 2 and isinstance(x[0], str)
                     and not isinstance(x[1], tuple) else f'{path}[{i}]')
                return first_diff(x, y, sub)
        return None
    if a != b:
        return f'{path}: {_short(a)} != {_short(b)}'
    return None


def _short(x, n=160):
    s = repr(x)
    return s if len(s) <= n else s[:n] + '...'


def class_of(sexp):
    """Class name of a node s-expression ('@Class', fields), else None."""
    if isinstance(sexp, tuple) and len(sexp) == 2 and isinstance(sexp[0], str) and sexp[0].startswith('@'):
        return sexp[0][1:]
    return None


# ----------------------------------------------------------------------------------------------
# parsing helpers
# ----------------------------------------------------------------------------------------------

def parse(text):
    from loki import Sourcefile
    return Sourcefile.from_source(text)


def all_routines(sf):
    """Every Subroutine/Function of the file including module procedures and internal procedures."""
    out = []

    def rec(r):
        out.append(r)
        for m in getattr(r, 'members', ()) or ():
            rec(m)
    for r in sf.routines:
        rec(r)
    for mod in sf.modules:
        for r in mod.subroutines:
            rec(r)
    return out


def strip_source(x):
    """Copy of a tree (nested tuples of nodes) with ``source=None`` everywhere (value-equal duplicates arise).

    Rebuilds nodes bottom-up through their dataclass fields; scoped nodes keep their parent."""
    ir, _ = _loki()
    if isinstance(x, (tuple, list)):
        return tuple(strip_source(v) for v in x)
    if not isinstance(x, ir.Node):
        return x
    kw = {}
    for name, value in field_items(x):
        if name in ('symbol_attrs', 'rescope_symbols'):
            continue
        if name == 'text' and isinstance(x, (ir.PrintStmt, ir.FormatStmt)):
            continue
        if name == 'source':
            kw[name] = None
        elif name == 'parent':
            kw[name] = value
        elif isinstance(value, (tuple, list)) or isinstance(value, ir.Node):
            kw[name] = strip_source(value)
        else:
            kw[name] = value
    new = type(x)(**kw)
    if isinstance(x, ir.ScopedNode):
        new.symbol_attrs.update(x.symbol_attrs)
    return new


# ----------------------------------------------------------------------------------------------
# zoo source: node kinds the generator does not produce
# ----------------------------------------------------------------------------------------------

KINDS_SRC = """module kinds_mod
  implicit none
  integer, parameter :: jprb = selected_real_kind(13, 300)
  integer, parameter :: jpim = selected_int_kind(9)
end module kinds_mod
"""

ZOO_SRC = """module zoo_mod
  use kinds_mod, only: jprb
  implicit none
  private
  public :: zoo, shape_t
  enum, bind(c)
    enumerator :: red = 1, green, blue = 5
  end enum
  type, abstract :: shape_t
    real(kind=jprb) :: area
    integer :: tag(3)
  contains
    procedure :: scale => shape_scale
  end type shape_t
  type, extends(shape_t) :: circle_t
    real(kind=jprb) :: r
  end type circle_t
  interface swap
    module procedure swap_i, swap_r
  end interface swap
  interface
    subroutine ext_sub(a, n)
      integer, intent(in) :: n
      real, intent(inout) :: a(n)
    end subroutine ext_sub
  end interface
  real(kind=jprb), save :: store(4)
contains
  subroutine shape_scale(this, f)
    class(shape_t), intent(inout) :: this
    real(kind=jprb), intent(in) :: f
    this%area = this%area*f
  end subroutine shape_scale
  subroutine swap_i(a, b)
    integer, intent(inout) :: a, b
    integer :: t
    t = a; a = b; b = t
  end subroutine swap_i
  subroutine swap_r(a, b)
    real(kind=jprb), intent(inout) :: a, b
    real(kind=jprb) :: t
    t = a
    a = b
    b = t
  end subroutine swap_r
  subroutine zoo(n, m, x, y, k, obj, flag, ptr, tgt)
    use kinds_mod, only: jpim
    integer, intent(in) :: n, m
    real(kind=jprb), intent(inout) :: x(n), y(n, m)
    integer, intent(inout) :: k(n)
    class(shape_t), intent(inout) :: obj
    logical, intent(in), optional :: flag
    real(kind=jprb), pointer :: ptr(:)
    real(kind=jprb), target :: tgt(n)
    !$loki dimension(n)
    real(kind=jprb), allocatable :: work(:), work2(:, :)
    integer :: i, j, ierr, cnt = 0
    integer, parameter :: nmax = 10, tab(3) = (/ 1, 2, 3 /)
    real(kind=jprb) :: sf, arg1
    character(len=20) :: msg
    real :: cb
    integer :: dd(4)
    type typ_local
      integer :: aa = 3
      real(kind=jprb) :: bb(nmax)
    end type typ_local
    type(typ_local) :: loc
    common /blk/ cb
    save cnt
    external :: ext_fun
    procedure(ext_sub), pointer :: pp => null()
    data dd /1, 2, 3, 4/
    sf(arg1) = arg1*2.0_jprb + 1.0_jprb
#ifdef FOO
    cnt = cnt + 1
#endif
    allocate(work(n), work2(n, m), stat=ierr)
    allocate(ptr, source=tgt)
    nullify(ptr)
    ptr => tgt
    work = 0.0_jprb
    work2(:, :) = y
    x(1) = sf(x(1))
    loc%aa = nmax
    forall (i = 1:n, k(i) > 0) x(i) = real(k(i), jprb)
    forall (i = 1:n)
      work(i) = x(i)
      k(i) = i
    end forall
    where (x > 1.0_jprb)
      x = 1.0_jprb
    elsewhere (x < 0.0_jprb)
      x = 0.0_jprb
    elsewhere
      x = 0.5_jprb
    end where
    select type (obj)
    type is (circle_t)
      obj%r = 1.0_jprb
    class is (shape_t)
      obj%area = 2.0_jprb
    class default
      cnt = -1
    end select
    !$loki inline
    call obj%scale(2.0_jprb)
    call swap(k(1), k(n))
    if (present(flag)) then
      if (flag) goto 100
    end if
    !$omp parallel do
    outer: do i = 1, n
      inner: do j = 1, m
        if (y(i, j) < 0.0_jprb) cycle outer
        if (y(i, j) > 100.0_jprb) exit
        y(i, j) = merge(y(i, j), x(i), y(i, j) > x(i))  ! inline comment
      end do inner
    end do outer
    !$omp end parallel do
    do 20 i = 1, n
      x(i) = x(i) + 1.0_jprb
20  continue
    write(msg, '(A,I0)') 'n=', n
    print *, 'hello', n, x(1), trim(msg)
    print '(I5)', k(1)
30  format(I5)
    if (ierr /= 0) stop 3
    x(1:n:2) = [ (real(i, jprb), i = 1, n, 2) ]
    msg = 'abc' // 'def'
    msg(1:2) = 'xy'
    !$acc data copy(x)
    x(n) = real(size(work2, 1), kind=jprb)
    !$acc end data
100 continue
    deallocate(work, work2, stat=ierr)
    return
  end subroutine zoo
end module zoo_mod
"""


_zoo_cache = {}


def zoo(stop_code=True):
    """Parsed zoo module (fresh parse per call unless cached by the caller)."""
    from loki import Sourcefile
    src = ZOO_SRC if stop_code else ZOO_SRC.replace('stop 3', 'stop')
    return Sourcefile.from_source(KINDS_SRC + src)


# ----------------------------------------------------------------------------------------------
# hand-assembled trees
# ----------------------------------------------------------------------------------------------

class TreeBuilder:
    """Random IR trees assembled by hand from a pool of statements / expressions.

    ``scope`` is a Subroutine used as the scope of new symbols; ``pool`` a list of nodes (any kinds) whose
    sources have been stripped so that clones are value-equal."""

    def __init__(self, rng, scope, pool, dup_p=0.15, empty_inner=False, stop_code=False):
        from loki.expression import symbols as sym
        import loki.ir as ir
        self.rng, self.scope, self.pool = rng, scope, list(pool)
        self.sym, self.ir = sym, ir
        self.dup_p = dup_p
        self.empty_inner = empty_inner
        self.stop_code = stop_code
        self.made = []
        self.features = set()
        self.conds, self.ranges, self.lvars, self.ints, self.any, self.lhs = [], [], [], [], [], []
        for n in preorder(self.pool, enter_typedef=False):
            if isinstance(n, (ir.Conditional, ir.WhileLoop)) and n.condition is not None:
                self.conds.append(n.condition)
            if isinstance(n, ir.Loop):
                self.ranges.append(n.bounds)
                self.lvars.append(n.variable)
            if isinstance(n, ir.Assignment):
                self.any.append(n.rhs)
                self.lhs.append(n.lhs)
            if isinstance(n, ir.MultiConditional):
                self.ints.append(n.expr)
        v = lambda name: sym.Variable(name=name, scope=scope)
        self.conds += [sym.LogicLiteral(True), sym.Comparison(v('n'), '>', sym.IntLiteral(2))]
        self.ranges += [sym.LoopRange((sym.IntLiteral(1), v('n'))),
                        sym.LoopRange((v('n'), sym.IntLiteral(1), sym.IntLiteral(-1)))]
        self.lvars += [v('i'), v('j')]
        self.ints += [v('n'), sym.Sum((v('n'), sym.IntLiteral(1)))]
        self.any += [sym.IntLiteral(7), sym.Product((v('n'), v('m')))]
        self.lhs += [v('i'), v('j')]
        self._cnt = 0

    # -- leaves --------------------------------------------------------------
    def leaf(self):
        rng, ir, sym = self.rng, self.ir, self.sym
        r = rng.random()
        if self.made and r < self.dup_p:
            n = rng.choice(self.made)
            if rng.random() < 0.5:
                self.features.add('dup_same_object')
                return n
            self.features.add('dup_value_equal')
            return n.clone()
        if self.pool and r < 0.55:
            n = rng.choice(self.pool)
            n = n.clone() if rng.random() < 0.7 else n
        else:
            k = rng.choice(['assign', 'assign', 'comment', 'pragma', 'call', 'cblock', 'assign_c', 'cond_assign',
                            'stop', 'raw', 'pp', 'enum', 'alloc', 'print', 'generic', 'cycle'])
            self._cnt += 1
            if k == 'assign':
                n = ir.Assignment(lhs=rng.choice(self.lhs), rhs=rng.choice(self.any))
            elif k == 'assign_c':
                n = ir.Assignment(lhs=rng.choice(self.lhs), rhs=rng.choice(self.any),
                                  comment=ir.Comment(text='! inline %d' % rng.randint(0, 3)))
            elif k == 'cond_assign':
                n = ir.ConditionalAssignment(lhs=rng.choice(self.lhs), condition=rng.choice(self.conds),
                                             rhs=rng.choice(self.any), else_rhs=rng.choice(self.any))
            elif k == 'comment':
                n = ir.Comment(text='! c%d' % rng.randint(0, 4))
            elif k == 'cblock':
                n = ir.CommentBlock(comments=tuple(ir.Comment(text='! b%d' % rng.randint(0, 3))
                                                   for _ in range(rng.randint(1, 3))))
            elif k == 'pragma':
                n = ir.Pragma(keyword=rng.choice(['loki', 'acc', 'omp']),
                              content=rng.choice(['data', 'end data', 'loop vector', 'foo bar', 'parallel',
                                                  'end parallel']))
            elif k == 'call':
                n = ir.CallStatement(name=sym.ProcedureSymbol('hsub', scope=self.scope),
                                     arguments=(rng.choice(self.any), rng.choice(self.lhs)),
                                     kwarguments=(('kw', rng.choice(self.any)),) if rng.random() < 0.4 else (),
                                     pragma=(ir.Pragma(keyword='loki', content='inline'),)
                                     if rng.random() < 0.3 else None)
            elif k == 'stop':
                n = ir.StopStmt(text=rng.choice(['3', '']) if self.stop_code else '')
            elif k == 'raw':
                n = ir.RawSource(text='write(*,*) %d' % rng.randint(0, 3))
            elif k == 'pp':
                n = ir.PreprocessorDirective(text=rng.choice(['#ifdef X', '#endif', '#include "a.h"']))
            elif k == 'enum':
                n = ir.Enumeration(symbols=(sym.Variable(name='e_a', scope=self.scope),
                                            sym.Variable(name='e_b', scope=self.scope)))
            elif k == 'alloc':
                n = ir.Allocation(variables=(rng.choice(self.lhs),), status_var=rng.choice(self.lhs)
                                  if rng.random() < 0.5 else None)
            elif k == 'print':
                n = ir.PrintStmt(values=(sym.StringLiteral('*'), rng.choice(self.any), rng.choice(self.lhs)))
            elif k == 'generic':
                n = ir.GenericStmt(text='rewind(%d)' % rng.randint(1, 3))
            else:
                n = ir.CycleStmt()
            self.features.add('hand:' + type(n).__name__)
        self.made.append(n)
        return n

    def body(self, depth, nmax=4, allow_empty=False):
        lo = 0 if allow_empty else 1
        return tuple(self.node(depth) for _ in range(self.rng.randint(lo, nmax)))

    def node(self, depth):
        rng, ir, sym = self.rng, self.ir, self.sym
        if depth <= 0 or rng.random() < 0.45:
            return self.leaf()
        k = rng.choice(['loop', 'while', 'cond', 'cond_else', 'elseif', 'multi', 'masked', 'assoc', 'section',
                        'region', 'forall', 'typedef', 'interface', 'loop'])
        d = depth - 1
        if k == 'loop':
            pr = (ir.Pragma(keyword='loki', content='attached %d' % rng.randint(0, 2)),) if rng.random() < 0.3 else None
            n = ir.Loop(variable=rng.choice(self.lvars), bounds=rng.choice(self.ranges), body=self.body(d),
                        pragma=pr, pragma_post=(ir.Pragma(keyword='loki', content='end attached'),)
                        if rng.random() < 0.15 else None)
        elif k == 'while':
            n = ir.WhileLoop(condition=rng.choice(self.conds), body=self.body(d))
        elif k == 'cond':
            n = ir.Conditional(condition=rng.choice(self.conds), body=self.body(d))
        elif k == 'cond_else':
            n = ir.Conditional(condition=rng.choice(self.conds), body=self.body(d), else_body=self.body(d))
        elif k == 'elseif':
            inner = ir.Conditional(condition=rng.choice(self.conds), body=self.body(d),
                                   else_body=self.body(d, allow_empty=True))
            n = ir.Conditional(condition=rng.choice(self.conds), body=self.body(d), else_body=(inner,),
                               has_elseif=True)
        elif k == 'multi':
            nb = rng.randint(1, 3)
            bodies = tuple(self.body(d, 3, allow_empty=self.empty_inner and rng.random() < 0.5) for _ in range(nb))
            if any(not b for b in bodies):
                self.features.add('empty_inner_body')
            values = tuple((sym.IntLiteral(i + 1),) if rng.random() < 0.7 else
                           (sym.IntLiteral(10 + i), sym.RangeIndex((sym.IntLiteral(20 + i), None)))
                           for i in range(nb))
            n = ir.MultiConditional(expr=rng.choice(self.ints), values=values, bodies=bodies,
                                    else_body=self.body(d, 2, allow_empty=True))
        elif k == 'masked':
            nb = rng.randint(1, 2)
            # WHERE bodies hold assignments only (as in Fortran)
            bodies = tuple(tuple(ir.Assignment(lhs=rng.choice(self.lhs), rhs=rng.choice(self.any))
                                 for _ in range(rng.randint(0 if self.empty_inner and rng.random() < 0.5 else 1, 2)))
                           for _ in range(nb))
            if any(not b for b in bodies):
                self.features.add('empty_inner_body')
            n = ir.MaskedStatement(conditions=tuple(rng.choice(self.conds) for _ in range(nb)), bodies=bodies,
                                   default=tuple(ir.Assignment(lhs=rng.choice(self.lhs), rhs=rng.choice(self.any))
                                                 for _ in range(rng.randint(0, 2))))
        elif k == 'assoc':
            self._cnt += 1
            name = sym.Variable(name='zz%d' % (self._cnt % 3))
            n = ir.Associate(associations=((rng.choice(self.lhs), name),), body=self.body(d), parent=self.scope)
        elif k == 'section':
            n = ir.Section(body=self.body(d, allow_empty=rng.random() < 0.1))
        elif k == 'region':
            kw = rng.choice(['loki', 'acc'])
            n = ir.PragmaRegion(body=self.body(d), pragma=ir.Pragma(keyword=kw, content='data'),
                                pragma_post=ir.Pragma(keyword=kw, content='end data'))
        elif k == 'forall':
            n = ir.Forall(named_bounds=((rng.choice(self.lvars), sym.RangeIndex((sym.IntLiteral(1), rng.choice(self.ints)))),),
                          body=tuple(ir.Assignment(lhs=rng.choice(self.lhs), rhs=rng.choice(self.any))
                                     for _ in range(rng.randint(1, 2))),
                          mask=rng.choice(self.conds) if rng.random() < 0.5 else None)
        elif k == 'typedef':
            self._cnt += 1
            n = ir.TypeDef(name='ht%d' % (self._cnt % 3), body=(), parent=self.scope)
            decls = tuple(ir.VariableDeclaration(symbols=(sym.Variable(name='f%d' % i, scope=n),))
                          for i in range(rng.randint(1, 3)))
            n._update(body=decls + ((ir.Comment(text='! in typedef'),) if rng.random() < 0.5 else ()))
        else:
            n = ir.Interface(body=(ir.Comment(text='! iface'),) + self.body(0, 2, allow_empty=True), spec=None)
        self.features.add('hand:' + type(n).__name__)
        self.made.append(n)
        return n

    def tree(self, depth=3, nmax=5, root=None):
        root = root or self.rng.choice(['section', 'section', 'tuple', 'node'])
        b = self.body(depth, nmax)
        if root == 'section':
            return self.ir.Section(body=b)
        if root == 'tuple':
            return b
        return self.ir.Loop(variable=self.lvars[-1], bounds=self.ranges[-1], body=b)
