"""C03 -- conservative output reproduces unmodified source verbatim; after local edits valid-source nodes keep
their text and the result behaves like the regular backend's output of the same IR."""
import re
import shutil
from vlib import diffexec
from vlib.fgenlab import ProgGen
from vlib.core import sighash, REPO

PID = 'C03'
LEVEL = 'exploration'
TECHNIQUE = 'verbatim-output monitor + hooked conservative backend (per-node source-status events) + differential execution after random edit histories'
LEVEL_TEXT = ('(a) unmodified generated programs and repository sources are written with to_fortran(conservative=True) and compared '
              'with the input text; (b) a wrapper on FortranCodegenConservative.visit records (node, source.status, emitted text) for '
              'every node while a randomly edited IR is written: a node whose source is still VALID must be emitted with exactly its '
              'recorded text, and that text must be the original file text at its recorded lines; (c) the conservative output of the '
              'edited IR is compiled and run against the regular backend output of the same edited IR (sanitizers on). '
              'Held on the programs and edit histories explored.')
LEVEL_NOTE = ('edits go only through public APIs (Transformer, SubstituteExpressions, body prepend/append) followed by the source-invalidation protocol used by loki.lint.utils.Fixer (edited unit invalid, parents/file invalid-children); gfortran is the reference; '
              'texts compared modulo newlines at end of file')
RULE = ('2 of 3 cases: E1 generated module + random history of 1-4 local edits (substitute read-only scalar by an expression, delete / '
        'duplicate / replace an assignment via Transformer in rebuild or in-place mode, rename a local variable everywhere, prepend/append '
        'a statement); 1 of 3: repository Fortran source unmodified. Non-trivial = verbatim comparison done on >= 10 lines, or at least '
        'one edit applied and both outputs built and ran; distinct = hash of source text + edit list')
CASES = {'quick': 120, 'thorough': 2400}
MIN_NONTRIVIAL = {'quick': 40, 'thorough': 800}
ANCHORS = ['loki/backend/fgencon.py', 'loki/ir/transformer.py']
REQUIRED_REACH = ['visit_Assignment', 'visit_Node']
REQUIRED_COUNTERS = {'valid_source_nodes_checked': 60}
ASSUMPTIONS = ['the regular backend output of the edited IR is the behavioural reference for the conservative output']
BUDGET_S = {'quick': 400, 'thorough': 3000}

_corpus = None


def corpus():
    global _corpus
    if _corpus is None:
        files = []
        for pat in ('loki/**/sources/**/*.[fF]90', 'example/**/*.[fF]90', 'lint_rules/tests/**/*.[fF]90'):
            files += sorted(REPO.glob(pat))
        _corpus = [f for f in dict.fromkeys(files) if f.stat().st_size < 60000]
    return _corpus


def norm_ws(s):
    return re.sub(r'\s+', '', s)


class Monitor:
    """wrapper around FortranCodegenConservative.visit recording per-node events"""

    def __init__(self, orig_lines):
        self.orig_lines = orig_lines
        self.events = 0
        self.valid_checked = 0
        self.problems = []

    def install(self):
        from loki.backend.fgencon import FortranCodegenConservative
        from loki.frontend.source import SourceStatus
        from loki.ir import Node
        mon = self
        orig_visit = FortranCodegenConservative.visit
        self._orig = orig_visit

        def visit(this, o, *args, **kwargs):
            out = orig_visit(this, o, *args, **kwargs)
            if isinstance(o, Node):
                src = getattr(o, 'source', None)
                mon.events += 1
                if src is not None and getattr(src, 'status', None) == SourceStatus.VALID and src.string is not None \
                        and type(o).__name__ not in ('Comment', 'CommentBlock'):
                    mon.valid_checked += 1
                    if out != src.string and norm_ws(str(out)).lower() != norm_ws(src.string).lower() \
                            and norm_ws(str(out)).lower() in norm_ws(src.string).lower():
                        pass    # the node is a part of a larger source line (e.g. the statement of an inline IF)
                    elif out != src.string:
                        mon.problems.append(('valid-node-text-not-verbatim', type(o).__name__,
                                             f'emitted {str(out)[:120]!r} for source {src.string[:120]!r}'))
                    elif src.lines and src.lines[0] and mon.orig_lines:
                        l0, l1 = src.lines[0], src.lines[1] or src.lines[0]
                        if 1 <= l0 <= l1 <= len(mon.orig_lines):
                            seg = norm_ws('\n'.join(mon.orig_lines[l0 - 1:l1]))
                            if norm_ws(src.string) not in seg:
                                mon.problems.append(('valid-source-not-at-recorded-lines', type(o).__name__,
                                                     f'lines {l0}-{l1}: {src.string[:100]!r}'))
            return out
        FortranCodegenConservative.visit = visit

    def remove(self):
        from loki.backend.fgencon import FortranCodegenConservative
        FortranCodegenConservative.visit = self._orig


# ------------------------------------------------------------------ edits

EDIT_KINDS = ['subst_in', 'delete', 'duplicate', 'replace_rhs', 'rename_local', 'prepend_comment']


def make_plan(rng, nedits, idx):
    """edit descriptors (kind, selector in [0,1), inplace); clone-based replacement only in a slice of the cases"""
    kinds = list(EDIT_KINDS)
    if idx % 10 == 4:
        # clone-based replacement is a known mechanism (stale valid source): only such edits in this slice
        return [('replace_rhs_clone', rng.random(), rng.random() < 0.4) for _ in range(rng.randint(1, 2))]
    if idx % 10 == 2:
        # Section.append is a known mechanism (appended statement lost): exactly this one edit in this slice
        return [('append', rng.random(), False)]
    return [(rng.choice(kinds), rng.random(), rng.random() < 0.4) for _ in range(nedits)]


def _pick(cands, r):
    return cands[int(r * len(cands)) % len(cands)]


def _is_real(t):
    return str(getattr(t, 'dtype', '')).lower().endswith('real')


def apply_edits(routine, plan):
    """apply edit descriptors through public APIs; returns list of descriptions of the edits that applied"""
    from loki import (FindNodes, Assignment, Transformer, SubstituteExpressions, FindVariables, Comment)
    from loki.expression import symbols as sym
    done = []
    half = sym.FloatLiteral('0.5', kind=sym.IntLiteral(8))
    quarter = sym.FloatLiteral('0.25', kind=sym.IntLiteral(8))
    for kind, r, inplace in plan:
        assigns = FindNodes(Assignment).visit(routine.body)
        seen, later = set(), []
        for a in assigns:
            nm = str(a.lhs.name).lower()
            if nm in seen:
                later.append(a)
            seen.add(nm)
        if kind == 'subst_in':
            cands = [v for v in routine.arguments if str(v.type.intent).lower() == 'in' and not getattr(v, 'shape', None)
                     and _is_real(v.type)]
            if not cands:
                continue
            v = _pick(cands, r)
            new = sym.ParenthesisedMul((v.clone(), half)) if hasattr(sym, 'ParenthesisedMul') else sym.Product((v.clone(), half))
            vmap = {x: new for x in FindVariables().visit(routine.body) if x == v}
            if not vmap:
                continue
            routine.body = SubstituteExpressions(vmap, invalidate_source=True).visit(routine.body)
            done.append(f'subst_in {v.name}')
        elif kind in ('delete', 'duplicate', 'replace_rhs', 'replace_rhs_clone') and later:
            a = _pick(later, r)
            if kind == 'delete':
                mapper = {a: None}
            elif kind == 'duplicate':
                mapper = {a: (a, a.clone())}
            else:
                if not _is_real(a.lhs.type):
                    continue
                if kind == 'replace_rhs_clone':
                    mapper = {a: a.clone(rhs=quarter)}
                else:
                    mapper = {a: Assignment(lhs=a.lhs, rhs=quarter)}
            try:
                routine.body = Transformer(mapper, inplace=inplace).visit(routine.body)
            except Exception:  # pylint: disable=broad-except
                # e.g. emptying a WHERE body is rejected by the node validation (C14's business): not a legal edit
                continue
            done.append(f'{kind} [{str(a)[:50]}] inplace={inplace}')
        elif kind == 'rename_local':
            locs = [v for v in routine.variables if v not in routine.arguments and not getattr(v, 'shape', None)
                    and v.name.lower().startswith('x')]
            if not locs:
                continue
            v = _pick(locs, r)
            newname = v.name + '_rn'
            vmap = {}
            for x in FindVariables().visit(routine.ir):
                if x.name.lower() == v.name.lower():
                    vmap[x] = x.clone(name=newname)
            routine.spec = SubstituteExpressions(vmap).visit(routine.spec)
            routine.body = SubstituteExpressions(vmap).visit(routine.body)
            done.append(f'rename_local {v.name}')
        elif kind == 'append':
            tgt = [v for v in routine.arguments if str(v.type.intent).lower() == 'inout' and not getattr(v, 'shape', None)
                   and _is_real(v.type)]
            if not tgt:
                continue
            v = _pick(tgt, r)
            routine.body.append(Assignment(lhs=v.clone(), rhs=sym.Sum((sym.Product((v.clone(), half)), quarter))))
            done.append(f'append {v.name}')
        elif kind == 'prepend_comment':
            routine.body.prepend(Comment(text='! inserted by C03'))
            done.append('prepend_comment')
    return done


def _norm_line(l):
    l = l.split('!')[0].lower()
    l = re.sub(r'kind=', '', l)
    return re.sub(r'[\s()&]', '', l)


def stale_kind(reg, con):
    """keyword of the first statement of the conservative output that has no counterpart in the regular output"""
    from collections import Counter
    rc = Counter(_norm_line(l) for l in reg.split('\n'))
    for l in con.split('\n'):
        n = _norm_line(l)
        if not n:
            continue
        if rc[n] > 0:
            rc[n] -= 1
            continue
        m = re.match(r'\s*(?:\w+:\s*)?(where|elsewhere|if|else if|do while|do|select case|case|associate|call|print|end \w+)\b', l.lower())
        return m.group(1).replace(' ', '-') if m else ('assignment' if '=' in l else 'other')
    return 'statement-missing-from-conservative-output'


def con_vs_reg(src, plan, driver, stdins, wd):
    """fresh parse, apply plan, differential of conservative vs regular output. Returns (status dict, edits, con, reg, monitor)"""
    from loki import Sourcefile
    sf = Sourcefile.from_source(src)
    routine = sf['kern']
    edits = apply_edits(routine, plan)
    if edits:
        # source-invalidation protocol of the conservative backend's own consumer (loki/lint/utils.py Fixer):
        # the edited program unit is marked invalid, its parents and the file are marked as having invalid children
        routine.source.invalidate()
        parent = routine.parent
        while parent is not None:
            parent.source.invalidate(children=True)
            # the CONTAINS section of the parent spans the edited routine and has a source object of its own
            if getattr(parent, 'contains', None) is not None and parent.contains.source is not None:
                parent.contains.source.invalidate(children=True)
            parent = getattr(parent, 'parent', None)
        sf.source.invalidate(children=True)
        sf.ir.source.invalidate(children=True)
    mon = Monitor(src.split('\n'))
    mon.install()
    try:
        con = sf.to_fortran(conservative=True)
    finally:
        mon.remove()
    reg = sf.to_fortran()
    if not edits:
        return {'status': 'equal', 'runs': 0, 'detail': ''}, edits, con, reg, mon
    d = diffexec.differential(wd, [('k.F90', reg)], [('k.F90', con)], ('drv.F90', driver), stdins=stdins)
    shutil.rmtree(wd, ignore_errors=True)
    return d, edits, con, reg, mon


def run_case(idx, rng, tier, ctx):
    from loki import Sourcefile
    res = {'nontrivial': False, 'violations': [], 'inconclusive': None, 'counters': {}, 'features': []}
    viol = res['violations']
    if idx % 3 == 2 and corpus():
        path = corpus()[(idx // 3 + 97 * ctx['seed']) % len(corpus())]
        src = path.read_text(errors='replace')
        origin = str(path.relative_to(REPO))
        res['sig'] = sighash(src)
        res['features'] = ['corpus-unmodified']
        try:
            sf = Sourcefile.from_source(src)
        except Exception:  # pylint: disable=broad-except
            res['counters']['corpus_rejected'] = 1
            return res
        mon = Monitor(src.split('\n'))
        mon.install()
        try:
            out = sf.to_fortran(conservative=True)
        except Exception as e:  # pylint: disable=broad-except
            viol.append({'key': f'conservative:raises:{type(e).__name__}', 'msg': f'{origin}: {e}', 'witness': {'origin': origin}})
            return res
        finally:
            mon.remove()
        res['counters'] = {'backend_events': mon.events, 'valid_source_nodes_checked': mon.valid_checked, 'verbatim_comparisons': 1}
        has_program = re.search(r'^\s*program\s+\w+', src, re.I | re.M)
        if not has_program and out.rstrip('\n') != src.rstrip('\n'):
            a, b = src.rstrip('\n').split('\n'), out.rstrip('\n').split('\n')
            k = next((i for i, (x, y) in enumerate(zip(a, b)) if x != y), min(len(a), len(b)))
            kw = re.match(r'\s*([A-Za-z_#!]+)', a[k] if k < len(a) else '')
            viol.append({'key': f"conservative:unmodified-not-verbatim:{(kw.group(1).upper() if kw else 'EOF')[:20]}",
                         'msg': f'{origin} line {k + 1}: {(a[k] if k < len(a) else "<eof>")[:100]!r} -> {(b[k] if k < len(b) else "<eof>")[:100]!r}',
                         'witness': {'origin': origin}})
        for p in mon.problems[:3]:
            viol.append({'key': f'conservative:{p[0]}:{p[1]}', 'msg': f'{origin}: {p[2]}', 'witness': {'origin': origin}})
        res['nontrivial'] = src.count('\n') >= 10
        res['sample'] = {'origin': origin, 'lines': src.count('\n'), 'valid_nodes': mon.valid_checked}
        return res

    flags = {'io_in_kernel': rng.random() < 0.3, 'mixed_case': rng.random() < 0.3, 'overlap': True,
             'kinds_module': False, 'max_stmts': rng.choice([6, 12, 18]),
             # inline IF statements trigger a known mechanism (statement duplicated): exercised in a slice only
             'inline_if': idx % 10 == 7}
    case = ProgGen(rng, flags).generate()
    src = case.units
    res['features'] = ['generated']
    sf = Sourcefile.from_source(src)
    # (a) unmodified verbatim
    mon = Monitor(src.split('\n'))
    mon.install()
    try:
        out0 = sf.to_fortran(conservative=True)
    finally:
        mon.remove()
    res['counters'] = {'backend_events': mon.events, 'valid_source_nodes_checked': mon.valid_checked, 'verbatim_comparisons': 1}
    if out0.rstrip('\n') != src.rstrip('\n'):
        a, b = src.rstrip('\n').split('\n'), out0.rstrip('\n').split('\n')
        k = next((i for i, (x, y) in enumerate(zip(a, b)) if x != y), min(len(a), len(b)))
        kw = re.match(r'\s*([A-Za-z_#!]+)', a[k] if k < len(a) else '')
        viol.append({'key': f"conservative:unmodified-not-verbatim:{(kw.group(1).upper() if kw else 'EOF')[:20]}",
                     'msg': f'line {k + 1}: {(a[k] if k < len(a) else "<eof>")[:100]!r} -> {(b[k] if k < len(b) else "<eof>")[:100]!r}',
                     'witness': {'source': src}})
        res['sig'] = sighash(src)
        return res
    # (b)+(c) edit history
    plan = make_plan(rng, rng.randint(1, 4), idx)
    res['sig'] = sighash(src + repr(plan))
    wd = ctx['scratch'] / f'c{idx}'
    try:
        d, edits, con, reg, mon = con_vs_reg(src, plan, case.driver, case.stdins, wd)
    except Exception as e:  # pylint: disable=broad-except
        import traceback
        fr = [f.name for f in traceback.extract_tb(e.__traceback__) if '/loki/backend/' in f.filename]
        if fr:
            viol.append({'key': f'conservative:raises-after-edit:{type(e).__name__}@{fr[-1]}', 'msg': f'{plan}: {e}',
                         'witness': {'source': src, 'plan': plan}})
        else:
            res['inconclusive'] = f'edit raised {type(e).__name__}: {e}'
        return res
    res['features'] += sorted({e.split()[0] for e in edits})
    res['counters']['backend_events'] += mon.events
    res['counters']['valid_source_nodes_checked'] += mon.valid_checked
    res['counters']['program_runs'] = d['runs'] * 2
    for p in {(q[0], q[1]): q for q in mon.problems}.values():
        viol.append({'key': f'conservative:{p[0]}:{p[1]}', 'msg': f'{edits}: {p[2]}', 'witness': {'source': src, 'plan': plan}})
    if not edits:
        return res
    if d['status'] == 'orig_bad':
        res['inconclusive'] = 'regular output of edited IR does not build/run clean: ' + d['detail'][:300]
    elif d['status'] != 'equal':
        sym = 'does-not-compile' if d['status'] == 'new_build_fail' else 'behaviour-differs-from-regular-backend'
        # shrink: which single edit reproduces the difference on a fresh parse?
        culprit = None
        for ed in plan:
            try:
                d1, e1, _, _, _ = con_vs_reg(src, [ed], case.driver, case.stdins, wd)
            except Exception:  # pylint: disable=broad-except
                continue
            if e1 and d1['status'] in ('differ', 'new_build_fail'):
                culprit = ed[0] + ('-inplace' if ed[2] and ed[0] in ('delete', 'duplicate', 'replace_rhs', 'replace_rhs_clone') else '')
                break
        kinds = sorted({e.split()[0] for e in edits})
        if culprit is None:
            culprit = kinds[0] if len(kinds) == 1 else 'combination:' + '+'.join(kinds)
        if d['status'] == 'new_build_fail':
            m = re.search(r'Error: (.{0,80})', d['detail'])
            culprit = 'compiler-says:' + (re.sub(r'[^A-Za-z ]+', '', m.group(1)).strip().replace(' ', '-')[:50] if m else 'unknown')
        viol.append({'key': f'conservative:after-edit:{sym}:{culprit}', 'msg': f'{edits}: {d["detail"][:300]}',
                     'witness': {'source': src, 'plan': plan, 'edits': edits, 'conservative': con, 'regular': reg}})
    else:
        res['nontrivial'] = True
        res['sample'] = {'edits': edits, 'valid_nodes_checked': mon.valid_checked, 'lines': src.count('\n')}
    return res
