"""
Loop-nest generator for C31 (loop transformations preserve behaviour where they apply).

A case is an external subroutine ``kern`` made of 2-4 *units*; every unit is a loop nest (or a group of loops)
built from a template whose dependence structure is known, annotated with the Loki pragma of ONE transformation
kind per case -- and only where the documented preconditions of that transformation hold.  The legality facts are
recorded per unit (``Unit.facts``) and end up in the witness.  One unit per case may be *hostile* (a construct
that is legal Fortran and inside the stated preconditions but known/suspected to break the transformation);
``LoopCase.kernel(drop_hostile=True)`` re-emits the routine without it.

Arrays have lower bound 0 and extent n+2 / m+2, loops run over the interior, so i-1/i+1 neighbours are in bounds.
Data is non-linear in the index (filled by the untouched driver), scalar recurrences are order-sensitive
(``si = mod(si*3 + i*i, 1009)``), so a wrong iteration order or a lost iteration changes the printed contents.
"""
from dataclasses import dataclass, field

from vlib.arrgen import Arr, Dim, ArrCase, Stmt, RK

KINDS = ['unroll', 'fusion', 'fission', 'interchange', 'split']


@dataclass
class Unit(Stmt):
    facts: dict = field(default_factory=dict)
    target: int = None      # for split: ordinal of the loop among FindNodes(Loop) of this unit that is split


class LoopGen:

    def __init__(self, rng, flags):
        self.rng = rng
        self.fl = dict(flags)
        self.features = set()
        self.ntmp = 0
        self.extra = []
        A = []
        A.append(Arr('ia', 'int', [Dim(0, 'n', 2)]))
        A.append(Arr('ib', 'int', [Dim(0, 'n', 2)]))
        A.append(Arr('ie', 'int', [Dim(0, 'n', 2)]))
        A.append(Arr('ra', 'real', [Dim(0, 'n', 2)]))
        A.append(Arr('rb', 'real', [Dim(0, 'n', 2)]))
        A.append(Arr('re', 'real', [Dim(0, 'n', 2)]))
        A.append(Arr('ic', 'int', [Dim(0, 'n', 2), Dim(0, 'm', 2)]))
        A.append(Arr('id', 'int', [Dim(0, 'n', 2), Dim(0, 'm', 2)]))
        A.append(Arr('rc', 'real', [Dim(0, 'n', 2), Dim(0, 'm', 2)]))
        A.append(Arr('rd', 'real', [Dim(0, 'n', 2), Dim(0, 'm', 2)]))
        A.append(Arr('rs', 'real', [Dim(0, 'n', 2), Dim(0, 'n', 2)]))       # square (triangular nests)
        A.append(Arr('r3', 'real', [Dim(0, 'n', 2), Dim(0, 'm', 2), Dim(1, 'c', 3)]))
        A.append(Arr('iz', 'int', [Dim(0, 'n', 2)], intent='in'))
        A.append(Arr('rz', 'real', [Dim(0, 'n', 2)], intent='in'))
        A.append(Arr('zc', 'real', [Dim(0, 'n', 2), Dim(0, 'm', 2)], intent='in'))
        # block_loop_arrays works on 1-based dummies indexed by the loop variable
        A.append(Arr('pa', 'real', [Dim(1, 'n', 0)], intent='inout'))
        A.append(Arr('pb', 'real', [Dim(1, 'n', 0)], intent='in'))
        A.append(Arr('pc', 'int', [Dim(1, 'n', 0)], intent='inout'))
        A.append(Arr('pd', 'real', [Dim(1, 'm', 0), Dim(1, 'n', 0)], intent='inout'))
        # fission with automatic promotion: arrays whose extents equal the loop upper bounds (else Loki
        # "promotes" them too, see hostile 'fission_array_shape')
        for nm in ('fi', 'fj', 'fk'):
            A.append(Arr(nm, 'int', [Dim(1, 'n', 0)]))
        for nm in ('fa', 'fb', 'fc'):
            A.append(Arr(nm, 'real', [Dim(1, 'n', 0)]))
        A.append(Arr('gi', 'int', [Dim(1, 'n', 0), Dim(1, 'm', 0)]))
        A.append(Arr('gj', 'int', [Dim(1, 'n', 0), Dim(1, 'm', 0)]))
        A.append(Arr('ga', 'real', [Dim(1, 'n', 0), Dim(1, 'm', 0)]))
        A.append(Arr('gb', 'real', [Dim(1, 'n', 0), Dim(1, 'm', 0)]))
        self.arrays = A
        self.free = {'int1': ['ia', 'ib', 'ie'], 'real1': ['ra', 'rb', 're'], 'int2': ['ic', 'id'],
                     'real2': ['rc', 'rd'], 'fint1': ['fi', 'fj', 'fk'], 'freal1': ['fa', 'fb', 'fc'],
                     'fint2': ['gi', 'gj'], 'freal2': ['ga', 'gb']}

    # ---- helpers ---------------------------------------------------------------------------------------
    def tmp(self, typ):
        self.ntmp += 1
        nm = f"{'zt' if typ == 'real' else 'kt'}{self.ntmp}"
        self.extra.append(f"{'real(kind=' + RK + ')' if typ == 'real' else 'integer'} :: {nm}")
        return nm

    def lv(self, base='i'):
        """fresh loop variable name"""
        self.ntmp += 1
        nm = f'{base}{self.ntmp}'
        self.extra.append(f'integer :: {nm}')
        return nm

    def take(self, cls, k=1):
        """take k distinct arrays of a class out of the pool of this case (units use disjoint arrays)"""
        pool = self.free[cls]
        if len(pool) < k:
            return None
        self.rng.shuffle(pool)
        out = pool[:k]
        del pool[:k]
        return out

    @staticmethod
    def off(v, k):
        return v if k == 0 else (f'{v}+{k}' if k > 0 else f'{v}-{-k}')

    def nl(self, typ, *vs):
        """non-linear term in loop variables"""
        r = self.rng
        v = r.choice(vs)
        w = r.choice(vs)
        t = r.choice([f'{v}*{w}', f'mod({v}*7+{w}*3, 5)', f'{v}*{v}-{w}'])
        return t if typ == 'int' else f'real({t}, {RK})'

    def upd(self, typ, lhs, reads, *vs):
        """assignment lhs = bounded combination of reads and a non-linear index term"""
        r = self.rng
        if typ == 'int':
            e = ' + '.join([f'{x}*{c}' for x, c in zip(reads, [2, 3, 5, 7])] + [self.nl('int', *vs)])
            return f'{lhs} = mod({e}, 2003)'
        e = ' + '.join([f'{x}*{c}_{RK}' for x, c in zip(reads, ['0.5', '0.25', '0.125', '0.375'])] + [self.nl('real', *vs)])
        return f'{lhs} = {e}'

    def rec(self, typ, *vs):
        """order-sensitive scalar recurrence"""
        if typ == 'int':
            return f"si = mod(si*3 + {self.nl('int', *vs)} + 1009, 1009)"
        return f"sr = sr*0.5_{RK} + {self.nl('real', *vs)}"

    # ---- unroll ----------------------------------------------------------------------------------------
    def const_range(self, neg_ok=False, empty_ok=True):
        r = self.rng
        start = r.randint(-3, 5)
        step = r.choice([None, None, 1, 2, 3])
        if neg_ok:
            step = r.choice([-1, -2, -3])
            self.used_neg = True
        cnt = r.choice([0, 1, 1, 2, 3, 4, 5]) if empty_ok else r.choice([1, 2, 3, 4])
        s = step or 1
        if cnt == 0:
            stop = start - s * r.randint(1, 2) if r.random() < 0.7 else start - (1 if s > 0 else -1)
        else:
            stop = start + s * (cnt - 1) + (r.randint(0, abs(s) - 1) * (1 if s > 0 else -1))
        txt = f'{start}, {stop}' + (f', {step}' if step is not None else '')
        return txt, cnt, step

    def unit_unroll(self, hostile=None):
        r = self.rng
        self.used_neg = False
        shape = r.choice(['flat', 'flat', 'nested-const', 'nested-tri', 'nested-neigh', 'nested-var-inner',
                          'var-outer'])
        if hostile == 'unroll_cycle':
            shape = 'flat'
        if hostile == 'unroll_neg_step':
            shape = r.choice(['flat', 'flat', 'nested-var-inner', 'var-outer'])
        ia, = r.sample(['ia', 'ib', 'ie'], 1)
        ic = r.choice(['ic', 'id'])
        L, facts, tags = [], {'kind': 'unroll', 'shape': shape}, {'unroll', 'unroll-' + shape}
        i, j = self.lv('i'), self.lv('j')

        def body1(v, ind):
            out = [ind + self.rec(r.choice(['int', 'real']), v)]
            if r.random() < 0.7:
                out.append(f'{ind}{ia}(1 + mod({v} + 16, 5)) = mod({ia}(1 + mod({v} + 17, 5)) + {v}*si, 2003)')
            return out

        def body2(v, w, ind):
            out = [ind + self.rec(r.choice(['int', 'real']), v, w)]
            if r.random() < 0.7:
                out.append(f'{ind}{ic}(1 + mod({v} + 16, 5), 1 + mod({w} + 16, 4)) = '
                           f'mod({ic}(1 + mod({v} + 17, 5), 1 + mod({w} + 15, 4)) + {v}*{w} + si, 2003)')
            return out
        neg = hostile == 'unroll_neg_step'
        rng1, cnt1, st1 = self.const_range(neg_ok=neg and shape in ('flat', 'nested-var-inner'))
        depth = ''
        if shape == 'flat':
            L.append('!$loki loop-unroll')
            L.append(f'do {i} = {rng1}')
            if hostile == 'unroll_cycle':
                L.append(f'  if (mod({i} + 8, 2) == 0) cycle')
            L += body1(i, '  ')
            L.append('end do')
        elif shape in ('nested-const', 'nested-tri', 'nested-neigh', 'nested-var-inner'):
            d = r.choice([None, None, 1, 2])
            depth = f' depth({d})' if d else ''
            L.append('!$loki loop-unroll' + depth)
            if shape == 'nested-tri':
                rng1, cnt1, st1 = f'1, {r.randint(1, 4)}', None, None
            L.append(f'do {i} = {rng1}')
            if r.random() < 0.4:
                L += body1(i, '  ')
            inner_pragma = r.random() < 0.4
            if shape == 'nested-const':
                rng2, _, _ = self.const_range(neg_ok=neg)
            elif shape == 'nested-tri':
                rng2 = r.choice([f'1, {i}', f'{i}, 4', f'1, {i}, 2'])
            elif shape == 'nested-neigh':
                rng2, _, _ = self.const_range(neg_ok=neg)
            else:
                rng2 = '1, m'
            if inner_pragma:
                L.append('  !$loki loop-unroll')
            L.append(f'  do {j} = {rng2}')
            L += body2(i, j, '    ')
            L.append('  end do')
            if shape == 'nested-neigh':
                k = self.lv('k')
                rng3, _, _ = self.const_range()
                L.append(f'  do {k} = {rng3}')
                L += body2(i, k, '    ')
                L.append('  end do')
            facts['inner_pragma'] = inner_pragma
        else:   # var-outer: pragma on a loop with symbolic bounds, constant inner loop
            L.append('!$loki loop-unroll')
            L.append(f'do {i} = 1, n')
            rng2, _, _ = self.const_range(neg_ok=neg)
            L.append(f'  do {j} = {rng2}')
            L += body2(i, j, '    ')
            L.append('  end do')
            L.append('end do')
        if shape.startswith('nested'):
            L.append('end do')
        if hostile == 'loopvar_after':
            L.append(f'si = mod(si + {i} + 64, 1009)')
            tags.add('loop-variable-read-after-loop')
        facts.update(pragma='loop-unroll' + depth, legality='unrolling keeps the iteration order: always legal')
        if neg:
            if not getattr(self, 'used_neg', False):
                return None
            tags.add('unroll-negative-step')
        if 'cycle' in ' '.join(L):
            tags.add('cycle-in-unrolled-body')
        return Unit(L, tags, hostile, facts=facts)

    # ---- fusion ----------------------------------------------------------------------------------------
    def unit_fusion(self, hostile=None, group=None):
        r = self.rng
        typ = r.choice(['int', 'real'])
        col = r.random() < 0.3
        arrs = self.take(typ + ('2' if col else '1'), 2)
        if arrs is None:
            return None
        src = {'int': 'iz', 'real': 'rz'}[typ] if not col else ('zc' if typ == 'real' else None)
        a, b = arrs
        nloops = 2
        L, tags = [], {'fusion', 'fusion-collapse2' if col else 'fusion-1d'}
        grp = f' group({group})' if group else ''
        v1 = self.lv('i')
        v2 = v1 if r.random() < 0.5 and hostile != 'loopvar_after' else self.lv('i')
        facts = {'kind': 'fusion', 'group': group or 'default', 'writes': [a, b]}
        if not col:
            ranges = r.choice([('1, n', '1, n'), ('1, n', '2, n'), ('1, n', '1, n-1'), ('2, n', '1, n'),
                               ('1, n', '1, n+1'), ('1, n-1', '2, n'), ('1, n', '1, n')])
            use_range = r.random() < 0.25
            rp = ''
            if use_range:
                rp = ' range(1:n)' if 'n+1' not in ranges[1] else ' range(1:n+1)'
            iloc = r.random() < 0.3
            L.append(f'!$loki loop-fusion{grp}{rp}')
            L.append(f'do {v1} = {ranges[0]}')
            L.append('  ' + self.upd(typ, f'{a}({v1})', [f'{src}({v1})', f'{src}({v1}-1)'], v1))
            L.append('end do')
            mid = r.random() < 0.5
            if mid:
                # independent of both loops (they never touch the scalars)
                L.append(self.rec(r.choice(['int', 'real']), 'n', 'm'))
            L.append(f'!$loki loop-fusion{grp}' + (' insert-loc' if iloc else ''))
            L.append(f'do {v2} = {ranges[1]}')
            # reads a at the same or an earlier index: never fusion-preventing; guard a(i) for i beyond range 1
            back = r.choice([0, -1])
            rd_a = f'{a}({self.off(v2, back)})'
            L.append('  ' + self.upd(typ, f'{b}({v2})', [rd_a, f'{src}({v2}-1)'], v2))
            L.append('end do')
            facts.update(ranges=ranges, second_reads_first_at=back, intervening_statement_independent=mid,
                         insert_loc=iloc, pragma_range=rp.strip(),
                         legality='second loop reads what the first wrote at the same or an earlier index; '
                                  'nothing in between depends on either loop')
            tags.add('fusion-ranges-' + ('same' if ranges[0] == ranges[1] else 'different'))
            if iloc:
                tags.add('fusion-insert-loc')
            if rp:
                tags.add('fusion-pragma-range')
        else:
            w1, w2 = self.lv('j'), self.lv('j')
            if v2 == v1:
                w2 = w1
            ranges = r.choice([(('1, m', '1, n'), ('1, m', '1, n')), (('1, m', '1, n'), ('1, m-1', '2, n')),
                               (('1, m', '1, n'), ('2, m', '1, n'))])
            zs = src or 'ic'
            L.append(f'!$loki loop-fusion{grp} collapse(2)')
            L.append(f'do {w1} = {ranges[0][0]}')
            L.append(f'  do {v1} = {ranges[0][1]}')
            L.append('    ' + self.upd(typ, f'{a}({v1}, {w1})', [f'{zs}({v1}, {w1})'] if src else [f'{v1}'], v1, w1))
            L.append('  end do')
            L.append('end do')
            L.append(f'!$loki loop-fusion{grp} collapse(2)')
            L.append(f'do {w2} = {ranges[1][0]}')
            L.append(f'  do {v2} = {ranges[1][1]}')
            back = r.choice([(0, 0), (-1, 0), (0, -1), (-1, -1)])
            L.append('    ' + self.upd(typ, f'{b}({v2}, {w2})',
                                        [f'{a}({self.off(v2, back[0])}, {self.off(w2, back[1])})'], v2, w2))
            L.append('  end do')
            L.append('end do')
            facts.update(ranges=ranges, second_reads_first_at=back,
                         legality='second nest reads the first at a lexicographically earlier or equal iteration')
        if v1 != v2:
            tags.add('fusion-different-loop-variables')
        if hostile == 'loopvar_after':
            L.append(f'si = mod(si + {v2} + 64, 1009)')
            tags.add('loop-variable-read-after-loop')
        return Unit(L, tags, hostile, facts=facts)

    # ---- fission ---------------------------------------------------------------------------------------
    def unit_fission(self, hostile=None):
        r = self.rng
        typ = r.choice(['int', 'real'])
        shape = r.choice(['single', 'single', 'multi', 'cond', 'collapse2'])
        if hostile in ('fission_promote_lb', 'fission_array_shape'):
            shape = r.choice(['single', 'multi', 'cond'])
        promote_auto = self.fl.get('fission_promote', True)
        L, tags = [], {'fission', 'fission-' + shape}
        facts = {'kind': 'fission', 'shape': shape, 'do_loop_fission(promote)': promote_auto}
        v = self.lv('i')
        src = {'int': 'iz', 'real': 'rz'}[typ]
        # arrays shaped exactly like the iteration space, unless the hostile variant asks otherwise
        pool = 'f' + typ if hostile not in ('fission_promote_lb', 'fission_array_shape') else typ
        if shape in ('single', 'multi', 'cond'):
            arrs = self.take(pool + '1', 3 if shape == 'multi' else 2)
            if arrs is None:
                return None
            a, b = arrs[:2]
            scal = r.random() < 0.6 or hostile == 'fission_promote_lb'
            t = self.tmp(typ) if scal else None
            pr = ''
            if scal and (not promote_auto or r.random() < 0.3):
                pr = f' promote({t})'
            back = r.choice([0, -1])
            back2 = r.choice([0, -1])
            lo = '2' if -1 in (back, back2 if shape == 'multi' else 0) else r.choice(['1', '2'])
            if hostile == 'fission_promote_lb':
                lo, back, back2 = '0', 0, 0
            L.append(f'do {v} = {lo}, n')
            ind = '  '
            if shape == 'cond':
                L.append(f'  if (mod({v}, 3) /= 1) then')
                ind = '    '
            if scal:
                L.append(f"{ind}{t} = {src}({v}) * {'2' if typ == 'int' else '0.5_' + RK} + {self.nl(typ, v)}")
            L.append(ind + self.upd(typ, f'{a}({v})', [f'{src}({v}+1)'] + ([t] if scal and r.random() < 0.5 else []), v))
            L.append(f'{ind}!$loki loop-fission{pr}')
            L.append(ind + self.upd(typ, f'{b}({v})', [f'{a}({self.off(v, back)})'] + ([t] if scal else []), v))
            if shape == 'multi':
                c = arrs[2]
                L.append(f'{ind}!$loki loop-fission')
                L.append(ind + self.upd(typ, f'{c}({v})', [f'{a}({v})', f'{b}({self.off(v, back2)})'], v))
            if shape == 'cond':
                L.append('  end if')
            L.append('end do')
            facts.update(scalar_crossing_fission_point=t, pragma_promote=pr.strip(), later_part_reads_earlier_at=back,
                         loop_range=f'{lo}, n', arrays_shaped_like_iteration_space=pool.startswith('f'),
                         legality='later parts read arrays written by earlier parts at the same or an earlier '
                                  'index only; a scalar crossing the split is promoted (pragma or promote=True)')
            if scal:
                tags.add('fission-promoted-scalar' + ('-pragma' if pr else '-auto'))
        else:
            arrs = self.take(pool + '2', 2)
            if arrs is None:
                return None
            a, b = arrs
            w = self.lv('j')
            scal = r.random() < 0.5
            t = self.tmp(typ) if scal else None
            pr = f' promote({t})' if scal and (not promote_auto or r.random() < 0.3) else ''
            back = r.choice([(0, 0), (-1, 0), (0, -1)])
            L.append(f"do {w} = {'2' if back[1] else '1'}, m")
            L.append(f"  do {v} = {'2' if back[0] else '1'}, n")
            if scal:
                L.append(f"    {t} = {self.nl(typ, v, w)}")
            L.append('    ' + self.upd(typ, f'{a}({v}, {w})', [t] if scal else [f'{v}'], v, w))
            L.append(f'    !$loki loop-fission collapse(2){pr}')
            L.append('    ' + self.upd(typ, f'{b}({v}, {w})',
                                        [f'{a}({self.off(v, back[0])}, {self.off(w, back[1])})'] + ([t] if scal else []), v, w))
            L.append('  end do')
            L.append('end do')
            facts.update(scalar_crossing_fission_point=t, pragma_promote=pr.strip(), later_part_reads_earlier_at=back,
                         legality='collapse(2): both loops are split; later part reads earlier part at an earlier or '
                                  'equal iteration')
            if scal:
                tags.add('fission-promoted-scalar' + ('-pragma' if pr else '-auto'))
        if hostile == 'loopvar_after':
            L.append(f'si = mod(si + {v} + 64, 1009)')
            tags.add('loop-variable-read-after-loop')
        if hostile == 'fission_array_shape':
            tags.add('fission-array-extent-differs-from-loop-bound')
        if hostile == 'fission_promote_lb':
            tags.add('fission-promoted-scalar-loop-from-0')
        return Unit(L, tags, hostile, facts=facts)

    # ---- interchange -----------------------------------------------------------------------------------
    def unit_interchange(self, hostile=None):
        r = self.rng
        project = self.fl.get('project_bounds', False)
        typ = r.choice(['int', 'real'])
        shapes = ['rect2', 'rect2', 'rect2-dep', 'rect3']
        if project:
            shapes += ['tri', 'tri']
        else:
            shapes += ['rect2-steps']
        shape = r.choice(shapes)
        if hostile == 'interchange_project_perm':
            shape = 'rect3'
        L, tags = [], {'interchange', 'interchange-' + shape}
        facts = {'kind': 'interchange', 'shape': shape, 'project_bounds': project}
        v, w = self.lv('i'), self.lv('j')
        if shape in ('rect2', 'rect2-dep', 'rect2-steps'):
            arrs = self.take(typ + '2', 1)
            if arrs is None:
                return None
            a, = arrs
            z = 'zc' if typ == 'real' else None
            outer_is_j = r.random() < 0.5
            rj, ri = '1, m', '1, n'
            if shape == 'rect2-steps':
                rj = r.choice(['1, m', 'm, 1, -1', '1, m, 2'])
                ri = r.choice(['n, 1, -1', '1, n, 2', '2, n, 3', 'n, 2, -2'])
            reads = [f'{z}({v}, {w})', f'{z}({v}-1, {w}+1)'] if z else [f'{v}', f'{w}']
            if shape == 'rect2-dep':
                reads.append(f'{a}({v}-1, {w}-1)')      # direction (<,<): legal in either order
            order = [(w, rj), (v, ri)] if outer_is_j else [(v, ri), (w, rj)]
            spec = ''
            if r.random() < 0.3:
                spec = f' ({order[1][0]}, {order[0][0]})'
            L.append('!$loki loop-interchange' + spec)
            L.append(f'do {order[0][0]} = {order[0][1]}')
            L.append(f'  do {order[1][0]} = {order[1][1]}')
            L.append('    ' + self.upd(typ, f'{a}({v}, {w})', reads, v, w))
            if r.random() < 0.5:
                L.append(f'    si = si + mod({v}*{w}, 7)')          # integer sum: order-independent
            L.append('  end do')
            L.append('end do')
            facts.update(legality='every iteration writes its own element; reads inputs'
                                  + (' and the element at (i-1,j-1): direction (<,<) stays lexicographically positive'
                                     if shape == 'rect2-dep' else '') + '; integer sum reduction is order-independent',
                         bounds=[order[0][1], order[1][1]])
        elif shape == 'rect3':
            k = self.lv('k')
            vs = [(v, '1, n'), (w, '1, m'), (k, '1, 3')]
            r.shuffle(vs)
            perm = list(vs)
            while perm == vs:
                r.shuffle(perm)
            if project and hostile != 'interchange_project_perm':
                perm = list(reversed(vs))     # other orders: see hostile 'interchange_project_perm'
            if hostile == 'interchange_project_perm':
                perm = [vs[2], vs[0], vs[1]] if r.random() < 0.5 else [vs[1], vs[2], vs[0]]
                tags.add('interchange-3-deep-projected-non-reversal')
            spec = ' (' + ', '.join(x[0] for x in perm) + ')'
            L.append('!$loki loop-interchange' + spec)
            for q, (x, rg) in enumerate(vs):
                L.append('  ' * q + f'do {x} = {rg}')
            L.append('      ' + f'r3({v}, {w}, {k}) = r3({v}, {w}, {k})*0.5_{RK} + zc({v}, {w})*real({k}*{k}, {RK}) + '
                     + self.nl('real', v, w, k))
            for q in reversed(range(3)):
                L.append('  ' * q + 'end do')
            facts.update(order_from=[x[0] for x in vs], order_to=[x[0] for x in perm],
                         legality='every iteration updates its own element from inputs')
        else:   # triangular, project_bounds=True
            tri = r.choice([('1, n', f'1, {v}'), ('1, n', f'{v}, n'), ('2, n', f'1, {v}-1'), ('1, n-1', f'{v}+1, n')])
            L.append('!$loki loop-interchange')
            L.append(f'do {v} = {tri[0]}')
            L.append(f'  do {w} = {tri[1]}')
            L.append(f'    rs({v}, {w}) = rs({v}, {w})*0.5_{RK} + rz({v})*rz({w}) + ' + self.nl('real', v, w))
            L.append(f'    si = si + mod({v}*{w}, 7)')
            L.append('  end do')
            L.append('end do')
            facts.update(bounds=list(tri), legality='triangular nest, every iteration updates its own element; only '
                                                    'generated with project_bounds=True')
        if hostile == 'loopvar_after':
            L.append(f'si = mod(si + {v} + 64, 1009)')
            tags.add('loop-variable-read-after-loop')
        return Unit(L, tags, hostile, facts=facts)

    # ---- split_loop / block_loop_arrays ---------------------------------------------------------------
    def unit_split(self, hostile=None):
        r = self.rng
        block = self.fl.get('block_arrays', False)
        L, tags = [], {'split'}
        v = self.lv('i')
        facts = {'kind': 'split', 'block_size': r.choice([1, 2, 3, 5, 64]), 'block_arrays': block}
        if block:
            rg = '1, n' if hostile != 'block_start_ne_1' else r.choice(['2, n', '1, n, 2'])
            L.append(f'do {v} = {rg}')
            L.append(f'  pa({v}) = pa({v})*0.5_{RK} + pb({v}) + ' + self.nl('real', v))
            if r.random() < 0.6:
                L.append(f'  pc({v}) = mod(pc({v})*3 + {v}*{v}, 2003)')
            if r.random() < 0.5:
                L.append(f'  pd(:, {v}) = pd(:, {v}) + pa({v})')
            if r.random() < 0.4:
                L.append('  ' + self.rec('int', v))
            L.append('end do')
            tags.add('block-loop-arrays')
            facts.update(range=rg, legality='iteration order is kept; arrays indexed by the loop variable are dummies '
                                            'with intent; loop runs 1..n step 1 (the setting of the unit tests)')
        else:
            kind = r.choice(['const', 'const', 'sym', 'sym-step', 'sym-neg', 'empty-sym'])
            if hostile == 'split_empty_step':
                kind = 'empty-step'
            ia = r.choice(['ia', 'ib', 'ie'])
            if kind == 'const':
                rg, cnt, step = self.const_range(neg_ok=r.random() < 0.3)
                idx = f'1 + mod({v} + 16, 5)'
                c0, c1 = (int(x) for x in rg.split(',')[:2])
                if cnt == 0 and abs(c1 - c0) < abs(step or 1):
                    # a constant zero-trip range with |stop-start| < |step| is exactly the construct of the hostile
                    # 'split_empty_step' (LoopRange.num_iterations gives 1): the unit is that hostile unit, unless
                    # another hostile construct is asked for -- then the range becomes a plain zero-trip range
                    if hostile is None:
                        hostile, kind = 'split_empty_step', 'empty-step'
                    else:
                        rg = f'{c0}, {c0 - (step or 1)}' + (f', {step}' if step is not None else '')
            elif kind == 'sym':
                rg, idx = r.choice(['1, n', '2, n-1', '0, n+1']), v
            elif kind == 'sym-step':
                rg, idx = r.choice(['1, n, 2', '2, n, 3', '0, n+1, 4']), v
            elif kind == 'sym-neg':
                rg, idx = r.choice(['n, 1, -1', 'n+1, 0, -2', 'n, 2, -3']), v
            elif kind == 'empty-sym':
                rg, idx = r.choice(['ke, ks', 'n, 1']), f'1 + mod({v} + 16, 5)'     # zero-trip, step 1
            else:
                # zero-trip loops whose |stop-start| < |step|
                rg, idx = r.choice(['ks+1, ks, 2', 'ks, ks+1, -2', 'ke, ke-2, 3']), f'1 + mod({v} + 16, 5)'
            L.append(f'do {v} = {rg}')
            L.append('  ' + self.rec(r.choice(['int', 'real']), v))
            L.append(f'  {ia}({idx}) = mod({ia}({idx})*3 + {v}*si + iz(1 + mod({v} + 16, 5)), 2003)')
            L.append('end do')
            tags.add('split-' + kind)
            facts.update(range=rg, legality='split_loop keeps the iteration order: always legal')
        if hostile == 'loopvar_after':
            L.append(f'si = mod(si + {v} + 64, 1009)')
            tags.add('loop-variable-read-after-loop')
        u = Unit(L, tags, hostile, facts=facts)
        u.loopvar = v
        return u

    # ---- whole case ------------------------------------------------------------------------------------
    def generate(self):
        r, fl = self.rng, self.fl
        kind = fl['kind']
        hostile = fl.get('hostile')
        nunits = r.randint(2, 3) if kind != 'split' else 1
        maker = {'unroll': self.unit_unroll, 'fusion': self.unit_fusion, 'fission': self.unit_fission,
                 'interchange': self.unit_interchange, 'split': self.unit_split}[kind]
        units = []
        tries = 0
        while len(units) < nunits and tries < 20:
            tries += 1
            kw = {}
            if kind == 'fusion':
                kw['group'] = None if (not units and r.random() < 0.5) else 'g%d' % len(units)
            u = maker(**kw)
            if u is not None:
                units.append(u)
        if hostile:
            hu = None
            for _ in range(10):
                hu = maker(hostile=hostile, **({'group': 'hx'} if kind == 'fusion' else {}))
                if hu is not None:
                    break
            if hu is not None:
                if kind == 'split':
                    units = [hu]
                else:
                    units.insert(r.randint(0, len(units)), hu)
        # filler between units: plain statements that touch only the scalars
        stmts = []
        for u in units:
            if r.random() < 0.3 and kind != 'fusion':
                stmts.append(Stmt([self.rec('int', 'n', 'm')], {'filler'}))
            stmts.append(u)
        for u in units:
            self.features |= u.tags
        args = ['n', 'm', 'ks', 'ke', 'si', 'sr'] + [a.name for a in self.arrays]
        stdins = []
        for q in range(fl.get('ninputs', 3)):
            n = r.randint(5, 9)
            m = r.randint(4, 6)
            stdins.append(f'{n} {m} {r.randint(1, 2)} {r.randint(n - 2, n - 1)} {r.randint(0, 50)}\n')
        case = ArrCase(self.arrays, stmts, dict(fl), stdins, '', [], list(self.extra), args)
        case.units = units
        return case
