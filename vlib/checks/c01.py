"""C01 -- parse + regenerate preserves behaviour (differential execution, sanitizers on)."""
import re
from vlib import diffexec
from vlib.fgenlab import ProgGen
from vlib.core import sighash

PID = 'C01'
LEVEL = 'exploration'
RULE = ('E1 feature-flag generated Fortran modules (kernel + helpers + internal procedures + derived type), '
        'read with Sourcefile.from_source (FP frontend) and written with to_fortran(); original and regenerated '
        'units are each compiled with an untouched driver (gfortran -fcheck=all, ASan+UBSan, FPE traps) and run on '
        '4 input sets; outputs compared (integers exact, reals rtol 1e-11). Non-trivial = original compiled and ran '
        'clean and the regenerated text differs from the input text; distinct = hash of the generated source.')
CASES = {'quick': 96, 'thorough': 2400}
MIN_NONTRIVIAL = {'quick': 40, 'thorough': 800}
ANCHORS = ['loki/frontend/fparser.py', 'loki/backend/fgen.py', 'loki/sourcefile.py', 'loki/program_unit.py']
REQUIRED_REACH = ['from_source', 'to_fortran']
ASSUMPTIONS = ['gfortran 12 -O0 with run-time checks is the reference semantics',
               'generated programs are well-defined by construction (original must run clean, else discarded)',
               'real outputs compared to relative 1e-11 (Fortran permits re-association of unparenthesised reals)']
BUDGET_S = {'quick': 400, 'thorough': 3000}


def case_flags(rng, idx):
    f = {}
    f['io_in_kernel'] = rng.random() < 0.3
    f['mixed_case'] = rng.random() < 0.3
    f['overlap'] = rng.random() < 0.5
    f['long_expr'] = rng.random() < 0.3
    f['kinds_module'] = rng.random() < 0.7
    f['max_stmts'] = rng.choice([6, 10, 14, 20])
    return f


def classify(detail, case):
    d = detail or ''
    m = re.search(r'Error: (.{0,80})', d)
    if m:
        return 'roundtrip:compile-error:' + re.sub(r'[^A-Za-z ]+', '', m.group(1)).strip().replace(' ', '-')[:50]
    return 'roundtrip:output-differs'


def run_case(idx, rng, tier, ctx):
    from loki import Sourcefile
    flags = case_flags(rng, idx)
    case = ProgGen(rng, flags).generate()
    res = {'sig': sighash(case.units), 'nontrivial': False, 'violations': [], 'inconclusive': None,
           'features': sorted(case.features), 'counters': {}}
    try:
        sf = Sourcefile.from_source(case.units)
        new = sf.to_fortran()
    except Exception as e:  # pylint: disable=broad-except
        res['violations'].append({'key': f'roundtrip:exception:{type(e).__name__}',
                                  'msg': f'{type(e).__name__}: {e}', 'witness': {'source': case.units}})
        return res
    wd = ctx['scratch'] / f'c{idx}'
    d = diffexec.differential(wd, [('k.F90', case.units)], [('k.F90', new)], ('drv.F90', case.driver),
                              stdins=case.stdins)
    res['counters'] = {'program_runs': d['runs'] * 2, 'sanitizer_builds': 2}
    if d['status'] == 'orig_bad':
        res['inconclusive'] = 'generator defect: ' + d['detail'][:300]
    elif d['status'] in ('differ', 'new_build_fail'):
        res['violations'].append({'key': classify(d['detail'], case), 'msg': d['detail'][:600],
                                  'witness': {'source': case.units, 'regenerated': new, 'driver': case.driver,
                                              'diff': d}})
    else:
        res['nontrivial'] = new.strip() != case.units.strip()
        res['sample'] = {'features': sorted(case.features), 'lines': len(case.units.splitlines()),
                         'first_lines_of_kernel_body': case.units.splitlines()[30:36]}
    import shutil
    shutil.rmtree(wd, ignore_errors=True)
    return res
