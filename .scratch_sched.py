import sys
from pathlib import Path
from vlib import wflab, wfrun, core
from vlib.checks import c41
seed, idx = int(sys.argv[1]), int(sys.argv[2]); want = sys.argv[3]
slot = idx % c41.NSLOT
entries, is_sched = c41.slice_entries(slot)
rng = core.case_rng('C41', seed, idx)
gates = c41.gates_for(idx)
gates.update(wflab.slice_requirements(entries, rng))
if is_sched:
    gates['pflags'].setdefault('functions', rng.random() < 0.5)
    gates['pflags']['max_stmts'] = rng.choice([4, 6])
if gates['unroll_neg']:
    gates['dflags']['unroll'] = True
wc = wflab.make_case(rng, idx, gates)
e = [e for e in wflab.SCHED_REGISTRY if e.name == want][0]
for o in wflab.option_combos(e.space):
    if e.pre and not e.pre(wc, o): continue
    r = wfrun.run_scheduler(e, o, wc, rng, Path('/verif/.scratch_wd/sched'), {}, drhook=False)
    print(o, r['status'], r.get('inconclusive'), r.get('exc'))
    for v in r['violations']:
        print('   ', v['key'], '|', v['msg'][:250])
