"""C20 -- recorded Source line spans and strings match the original text (FP and REGEX frontends)."""
# pylint: disable=import-outside-toplevel,broad-except
import re

from vlib import corpus
from vlib.core import sighash, CaseTimeout
from vlib.fgenlab import ProgGen
from vlib.hostilegen import HostileGen, pick_flags

PID = 'C20'
LEVEL = 'exploration'
TECHNIQUE = 'contract monitor on every IR node carrying a Source, checked against the original file text'
LEVEL_TEXT = ('Generated layout-hostile files, fgenlab programs and repository sources are parsed by the real FP and REGEX frontends; '
              'for every program unit and IR node with a Source the recorded span must lie inside the file, the recorded string '
              'must occur in the text of those lines (white space, continuation markers and letter case disregarded), child spans '
              'must lie inside parent spans, and names that define the node (callee, imported module, declared variables, '
              'assignment target, unit / type name, comment text) must occur in the text at the recorded lines.')
LEVEL_NOTE = ('Sampling, not exhaustive. The name anchors are what detects shifted spans (the FP frontend cuts the string out of '
              'the raw text by span, so string-vs-lines alone would be vacuous there). Spans that are too wide but still contain the '
              'statement are not detected. Repository files with preprocessor directives are excluded (C05 covers the content of '
              'sanitised sources; the sanitiser slice here only checks that locations survive sanitising).')
RULE = ('Case = one source file (60 % hostilegen with continuation lines, ;-joined statements, labels, comments between continuation '
        'lines, mixed case, tabs; 25 % fgenlab with layout flags; 15 % repository sources without cpp directives; 12 % of all '
        'cases get 1-3 blank/comment lines prepended, comments inside continued statements only in a 12 % slice; ~13 % of the '
        'cases get lines the FP sanitiser rewrites: @PROCESS directive lines at the top / between units and a unit with multi-line '
        'OPEN(NEWUNIT=, CONVERT=) and __FILE__ / __LINE__ tokens), parsed with FP and with REGEX (AllClasses). Non-trivial = both parses '
        'succeeded and >= 30 nodes with Source were checked; distinct = hash of the text.')
CASES = {'quick': 480, 'thorough': 7000}
THOROUGH_VALIDATED = True   # full thorough tier ran to completion with exit 0 on the unchanged tree
MIN_NONTRIVIAL = {'quick': 250, 'thorough': 3500}
ANCHORS = ['loki/frontend/source.py', 'loki/frontend/fparser.py', 'loki/frontend/regex.py']
REQUIRED_REACH = ['get_source', 'source_from_current_line', 'source_from_sanitized_span']
REQUIRED_COUNTERS = {'fp_nodes_checked': 1500, 'regex_nodes_checked': 600, 'anchor_checks': 1500,
                     'parent_child_checks': 1500, 'string_checks': 1500}
ASSUMPTIONS = ['white space, "&" continuation markers and letter case are insignificant when comparing recorded strings with the file',
               'a recorded string may omit comments that sit between continuation lines']
BUDGET_S = {'quick': 300, 'thorough': 2400}
CASE_TIMEOUT_S = 150


def squeeze(s):
    return re.sub(r'[\s&]+', '', s).lower()


def strip_comment(line):
    """Remove a trailing '!' comment (outside character literals) from one line."""
    q = None
    for i, ch in enumerate(line):
        if q:
            if ch == q:
                q = None
        elif ch in '\'"':
            q = ch
        elif ch == '!':
            return line[:i]
    return line


def make_source(rng):
    r = rng.random()
    if r < 0.60:
        flags = pick_flags(rng, risky_prob=0.0)      # gated REGEX weaknesses (bogus nodes) are C19's subject
        flags['size'] = rng.choice([1, 1, 2])
        flags['line_budget'] = 160
        # comments after '&' and comment lines between continuation lines only in a slice (known FP findings:
        # CommentBlock strings with gaps, Section spans that end before a continued last statement)
        cc = rng.random() < 0.12
        if not cc:
            flags['cont_comment'] = False
            flags['cont_comment_line'] = False
        flags['blank_lines'] = flags['blank_lines'] and rng.random() < 0.5
        case = HostileGen(rng, flags).generate()
        kind, text, feats = 'hostile', case.text, set(case.features) | ({'slice-cont-comment'} if cc else set())
        risky = set(case.risky)
    elif r < 0.85:
        flags = {'mixed_case': rng.random() < 0.4, 'continuation': rng.random() < 0.6, 'semicolons': rng.random() < 0.5,
                 'long_expr': rng.random() < 0.4, 'comments': True, 'pragmas': rng.random() < 0.3,
                 'io_in_kernel': rng.random() < 0.3, 'strings': rng.random() < 0.3, 'max_stmts': rng.choice([6, 10, 14])}
        case = ProgGen(rng, flags).generate()
        kind, text, feats, risky = 'fgenlab', case.units, {'fgenlab-' + k for k, v in flags.items() if v is True}, set()
    else:
        files = [f for f in corpus.list_files()]
        rng.shuffle(files)
        text = None
        for f in files[:6]:
            t = corpus.read(f)
            if not re.search(r'^\s*#', t, re.M):
                text = t
                break
        if text is None:
            text = corpus.read(files[0])
        kind, feats, risky = 'corpus', {'corpus'}, set()
    # leading blank lines only in a slice (known finding: the REGEX frontend numbers lines after stripping them)
    text = text.lstrip('\n') if text.lstrip('\n').strip() else text
    lead = None
    if rng.random() < 0.12:
        n = rng.randint(1, 3)
        lead = rng.choice(['blank', 'comment'])
        text = ('\n' * n if lead == 'blank' else '! leading comment line\n' * n) + text
        feats = feats | {'leading-' + lead}
    elif kind != 'corpus' and rng.random() < 0.17:
        # slice: lines that the FP sanitiser rewrites (spans and anchors after them must still be right)
        text, sfeats = add_sanitiser_lines(rng, text)
        feats = feats | sfeats | {'slice-sanitiser-lines'}
    return kind, text, feats, risky, lead


SAN_DIRECTIVES = ['@PROCESS NOCHECK', '@PROCESS HOT(NOVECTOR) NOSTRICT', '@PROCESS', '  @PROCESS NOOPT', '@PROCESS NOCHECK ! dir']


def sanitiser_unit(rng):
    """A free subroutine whose lines the FP sanitiser rewrites in place: OPEN statements with NEWUNIT= / CONVERT=
    (one of them continued over several lines) and __LINE__ / __FILE__ tokens in code.  Neighbouring statements assign
    to different names that do not occur on the adjacent lines, so a span that is off by one line misses its anchor."""
    def kw(w):
        return rng.choice([w, w.upper()])

    def open_stmt(unit, fname, multi):
        args = [f"{kw('newunit')}={unit}", f"{kw('file')}='{fname}'", f"{kw('status')}='replace'",
                f"{kw('form')}='unformatted'", kw('convert') + '=' + rng.choice(["'BIG_ENDIAN'", '"LITTLE_ENDIAN"', "'big_endian'"])]
        rng.shuffle(args)
        opn = rng.choice(['open', 'OPEN', 'Open']) + rng.choice(['(', ' ('])
        if not multi:
            return [f"  {opn}{', '.join(args)})"]
        k1 = rng.randint(1, 2)
        k2 = rng.randint(k1 + 1, 4)
        lead = rng.choice(['     & ', '       '])
        out = [f"  {opn}{', '.join(args[:k1])}, &", f"{lead}{', '.join(args[k1:k2])}, &", f"{lead}{', '.join(args[k2:])})"]
        return out
    L = ['subroutine c20san(kunit, kline, cdfile, kother)', '  integer, intent(out) :: kunit',
         '  integer, intent(inout) :: kline', '  character(len=*), intent(out) :: cdfile',
         '  integer, intent(out) :: kother', '  integer :: jrec', '  real :: zval']
    body = [['  jrec = 3'], open_stmt('kunit', 'c20a.dat', True), [f'  kline = {rng.randint(2, 9)} + __LINE__'],
            ['  cdfile = __FILE__'], ['  zval = 1.5'], open_stmt('kother', 'c20b.dat', rng.random() < 0.4),
            ['  jrec = jrec*2 + __LINE__'], ['  zval = zval*0.5'], ['  cdfile = __FILE__ // "x"']]
    if rng.random() < 0.5:
        body.insert(rng.randint(1, len(body)), ['  ! __LINE__ and __FILE__ in a comment stay as they are'])
    for b in body:
        L += b
    L += ['  close(kunit)', '  close(kother)', 'end subroutine c20san']
    return '\n'.join(L) + '\n'


def add_sanitiser_lines(rng, text):
    """Lines that Loki's FP source sanitiser rewrites (loki/frontend/preprocessing.py: IBM_DIRECTIVES,
    STRING_PP_DIRECTIVES, INTEGER_PP_DIRECTIVES, CONVERT_ENDIAN, OPEN_NEWUNIT): an @PROCESS directive line at the top
    of the file and / or between two program units, and a unit with OPEN(NEWUNIT=, CONVERT=) and __FILE__ / __LINE__
    before or after the generated text."""
    if not text.endswith('\n'):
        text += '\n'
    unit = sanitiser_unit(rng)
    top = rng.random() < 0.6
    between = (not top) or rng.random() < 0.6
    parts = [unit, text] if rng.random() < 0.35 else [text, unit]
    feats = {'san-unit-first' if parts[0] is unit else 'san-unit-last'}
    out = ''
    if top:
        out += rng.choice(SAN_DIRECTIVES) + '\n'
        feats.add('san-process-top')
    out += parts[0]
    if between:
        out += (rng.choice(SAN_DIRECTIVES) + '\n') * rng.choice([1, 1, 2])
        feats.add('san-process-between-units')
    out += parts[1]
    return out, feats


def node_anchors(node):
    """Names that must appear in the file text at the recorded lines of this node."""
    from loki.ir import nodes as ir
    from loki.program_unit import ProgramUnit
    out = []
    try:
        if isinstance(node, ProgramUnit):
            out.append(str(node.name))
        elif isinstance(node, ir.CallStatement):
            out.append(str(node.name).split('%')[-1].split('(')[0])
        elif isinstance(node, ir.Import):
            if node.module:
                out.append(str(node.module))
            out += [str(getattr(s, 'name', s)) for s in (node.symbols or ()) if '(' not in str(s)][:4]
        elif isinstance(node, ir.VariableDeclaration):
            out += [str(s.name).split('%')[-1] for s in node.symbols][:6]
        elif isinstance(node, ir.ProcedureDeclaration):
            out += [str(getattr(s, 'name', s)) for s in node.symbols if '(' not in str(s)][:4]
        elif isinstance(node, ir.Assignment):
            out.append(str(getattr(node.lhs, 'name', node.lhs)).split('%')[-1].split('(')[0])
        elif isinstance(node, ir.TypeDef):
            out.append(str(node.name))
        elif isinstance(node, ir.Interface):
            if node.spec is not None and '(' not in str(node.spec):
                out.append(str(node.spec))
        elif isinstance(node, ir.Loop):
            if node.variable is not None:
                out.append(str(node.variable.name))
        elif isinstance(node, ir.Comment):
            if node.text and node.text.strip():
                out.append(node.text.strip())
        elif isinstance(node, ir.Pragma):
            if node.keyword:
                out.append(str(node.keyword))
    except CaseTimeout:
        raise
    except Exception:
        return []
    return [a for a in out if a and a.strip()]


class SpanChecker:

    def __init__(self, text, frontend, tag):
        self.lines = text.split('\n')      # a trailing newline yields a last, empty line (Sourcefile counts it too)
        self.n = len(self.lines)
        self.fe = frontend
        self.tag = tag
        self.problems = []         # (key, message)
        self.counters = {'nodes': 0, 'strings': 0, 'anchors': 0, 'parent_child': 0}
        self._sq = {}

    def text_of(self, l0, l1, stripped=False):
        key = (l0, l1, stripped)
        if key not in self._sq:
            ls = self.lines[l0 - 1:l1]
            if stripped:
                ls = [strip_comment(x) for x in ls]
            self._sq[key] = squeeze('\n'.join(ls))
        return self._sq[key]

    def report(self, problem, node, msg):
        name = type(node).__name__
        src = getattr(node, 'source', None)
        if name == 'Section' and src is not None and src.string == '':
            name = 'empty-Section'       # placeholder Source of an empty spec / body
        key = f'span:{self.fe}:{problem}:{name}'
        if self.tag:
            key += ':' + self.tag
        self.problems.append((key, f'{type(node).__name__} {msg}'))

    def check(self, node, parent_span):
        """Check one node; returns the span to be used as parent span for its children."""
        src = getattr(node, 'source', None)
        if src is None:
            return parent_span
        self.counters['nodes'] += 1
        lines = getattr(src, 'lines', None)
        if not (isinstance(lines, tuple) and len(lines) == 2 and isinstance(lines[0], int)):
            self.report('malformed-lines', node, f'lines={lines!r}')
            return parent_span
        l0, l1 = lines
        if l1 is None:
            l1 = l0
        if not 1 <= l0 <= l1 <= self.n:
            self.report('span-out-of-file', node, f'lines={lines} file has {self.n} lines')
            return parent_span
        string = src.string
        if string is not None and string.strip():
            self.counters['strings'] += 1
            s = squeeze(string)
            if s not in self.text_of(l0, l1):
                s2 = squeeze('\n'.join(strip_comment(x) for x in string.split('\n')))
                if s2 not in self.text_of(l0, l1, stripped=True):
                    self.report('string-not-in-lines', node,
                                f'lines={lines} string={string[:80]!r} file text there={" | ".join(self.lines[l0 - 1:l1])[:160]!r}')
        for a in node_anchors(node):
            self.counters['anchors'] += 1
            if squeeze(a) not in self.text_of(l0, l1):
                self.report('anchor-not-at-lines', node,
                            f'{a[:40]!r} not found at lines={lines}: {" | ".join(self.lines[l0 - 1:l1])[:160]!r}')
                break
        if parent_span is not None:
            self.counters['parent_child'] += 1
            p0, p1, pname = parent_span
            if not (p0 <= l0 and l1 <= p1):
                nm = 'empty-Section' if (type(node).__name__ == 'Section' and src.string == '') else type(node).__name__
                if pname == 'Section' and p0 <= l0 <= p1 < l1:
                    nm = 'stmt-beyond-end'        # a statement that starts inside the Section and ends after its last line
                if nm == 'empty-Section':
                    pname = 'unit'
                key_node = f'{nm}-in-{pname}'
                key = f'span:{self.fe}:child-outside-parent:{key_node}' + (':' + self.tag if self.tag else '')
                self.problems.append((key, f'{type(node).__name__} lines={lines} outside parent {pname} lines=({p0}, {p1})'))
        return (l0, l1, type(node).__name__)

    def walk(self, node, parent_span=None):
        from loki.ir import nodes as ir
        from loki.program_unit import ProgramUnit
        if isinstance(node, (tuple, list)):
            for c in node:
                self.walk(c, parent_span)
            return
        if isinstance(node, ProgramUnit):
            span = self.check(node, parent_span)
            for part in ('docstring', 'spec', 'body', 'contains'):
                sec = getattr(node, part, None)
                if sec is not None:
                    self.walk(sec, span)
            return
        if isinstance(node, ir.Node):
            span = self.check(node, parent_span)
            self.walk(node.children, span)


def run_frontend(text, frontend_name, tag, res, shift=0):
    """Parse ``text`` and check all recorded sources.  ``shift``: compare against the text without its first ``shift``
    lines (used to confirm that REGEX line numbers are merely shifted by stripped leading blank lines)."""
    from loki import Sourcefile
    from loki.frontend import FP, REGEX
    fe = FP if frontend_name == 'fp' else REGEX
    try:
        sf = Sourcefile.from_source(text, frontend=fe)
    except CaseTimeout:
        raise
    except Exception as e:
        return None, f'{type(e).__name__}: {str(e)[:160]}'
    chk = SpanChecker('\n'.join(text.split('\n')[shift:]), frontend_name, tag)
    # the Sourcefile itself
    src = sf.source
    if src is not None and src.lines:
        l0, l1 = src.lines
        if not (1 <= l0 <= (l1 or l0) <= max(chk.n, 1)):
            chk.problems.append((f'span:{frontend_name}:span-out-of-file:Sourcefile' + (':' + tag if tag else ''),
                                 f'Sourcefile lines={src.lines} file has {chk.n} lines'))
    chk.walk(sf.ir.body if sf.ir is not None else ())
    return chk, None


def run_case(idx, rng, tier, ctx):
    kind, text, feats, risky, lead = make_source(rng)
    res = {'sig': sighash(text), 'nontrivial': False, 'violations': [], 'inconclusive': None,
           'features': sorted(feats | {'src-' + kind} | {'risky-' + r for r in risky}), 'counters': {}}
    cnt = res['counters']
    tag = 'cont-comment' if 'slice-cont-comment' in feats else ''
    nblank = 0
    for ln in text.split('\n'):
        if ln.strip():
            break
        nblank += 1
    total = 0
    ok = 0
    for fe in ('fp', 'regex'):
        chk, err = run_frontend(text, fe, tag, res)
        if chk is not None and fe == 'regex' and nblank and chk.problems:
            # known mechanism: FortranReader strips leading blank lines and numbers the rest from 1.  If the sources
            # are consistent with the text minus its leading blank lines, report exactly that; else report everything.
            chk2, _ = run_frontend(text, fe, tag, res, shift=nblank)
            residual = [x for x in chk2.problems if ':Sourcefile' not in x[0]] if chk2 is not None else None
            if residual is not None and not residual:
                chk.problems = [('span:regex:line-numbers-ignore-leading-blank-lines',
                                 f'all REGEX line numbers are too small by the {nblank} leading blank line(s): {chk.problems[0][1]}')]
            cnt['regex_shift_hypothesis_checks'] = 1
        if chk is None:
            cnt[fe + '_parse_failures'] = 1
            res['features'].append(f'{fe}-parse-failed')
            if kind != 'corpus' and not risky:
                res['inconclusive'] = f'{fe} parse of generated source failed: {err}'
            continue
        ok += 1
        cnt[fe + '_nodes_checked'] = chk.counters['nodes']
        cnt['string_checks'] = cnt.get('string_checks', 0) + chk.counters['strings']
        cnt['anchor_checks'] = cnt.get('anchor_checks', 0) + chk.counters['anchors']
        cnt['parent_child_checks'] = cnt.get('parent_child_checks', 0) + chk.counters['parent_child']
        total += chk.counters['nodes']
        seen = {}
        for key, msg in chk.problems:
            seen.setdefault(key, []).append(msg)
        for key, msgs in seen.items():
            if fe == 'regex' and risky:
                key = key + ':' + '+'.join(sorted(risky))      # gated REGEX weaknesses (C19) produce bogus nodes
            res['violations'].append({'key': key, 'msg': f'{msgs[0]} ({len(msgs)} nodes)',
                                      'witness': {'source': text, 'frontend': fe, 'problems': msgs[:10], 'kind': kind}})
    res['nontrivial'] = ok == 2 and total >= 30
    res['sample'] = {'kind': kind, 'lines': text.count('\n'), 'nodes_with_source': total, 'features': sorted(feats)[:12]}
    return res
