#!/opt/veriftools/pyvenv/bin/python
"""Validate MANIFEST.json and every evidence file against the schemas; report verdicts."""
import json, sys, glob, os
import jsonschema
man = json.load(open('/verif/MANIFEST.json'))
jsonschema.validate(man, json.load(open('/root/.vp/MANIFEST.schema.json')))
es = json.load(open('/root/.vp/EVIDENCE.schema.json'))
bad = 0
for c in man['checks']:
    pid = c['property_id']; f = c['evidence_file']
    if not os.path.exists(f):
        print(pid, 'MISSING evidence'); bad += 1; continue
    ev = json.load(open(f))
    try:
        jsonschema.validate(ev, es)
    except jsonschema.ValidationError as e:
        print(pid, 'INVALID', e.message[:120]); bad += 1; continue
    cov = ev['coverage']
    flag = ''
    if ev['level'] != c['level_claimed']['category']:
        flag += ' LEVEL-MISMATCH'
    if cov.get('verdict') != 'held on what was observed':
        flag += f" VERDICT={cov.get('verdict')}"
    if ev.get('violations'):
        flag += f" violations={ev['violations']}"
    print(pid, ev['tier'], 'seed', ev['seed'], 'eval', cov.get('evaluations'), 'nontriv', cov.get('distinct_nontrivial'),
          'wall', ev['wall_s'], flag)
    if flag:
        bad += 1
print('problems:', bad)
