"""
E4 -- tracing interpreter for the Loki IR of generated routines (DESIGN.md 2.6).

The interpreter is a *recorder*: it executes the IR of a routine (parsed by Loki from
generated Fortran) on concrete inputs and emits an event log of node activations and of
every element read / written.  It is never the property oracle; its final state has to be
validated against gfortran by the caller (a mismatch = interpreter bug = inconclusive).

Subset: integer / real(8) / logical scalars and explicit-shape arrays of rank <= 2;
Assignment (scalar, element, whole-array, section), Loop, WhileLoop, Conditional,
MultiConditional, MaskedStatement, Associate, CallStatement to routines given in
``routines`` (by-reference argument association, any intent), a small intrinsic set.

    it = Interp({'kern': routine, 'h1': callee, ...})
    final = it.run('kern', {'n': 3, 'a': [1.0, 2.0, 3.0], 'x': None, ...})
    it.log  -> list of events

Events (tuples, first item is the tag):
    ('F', fid, routine, names, valued_sids)   frame entered; names: sid -> tuple of accepted names
    ('f', fid)                                frame left
    ('E', node, names, fid)                   node activation starts (names in effect for this node)
    ('X', node)                               node activation ends
    ('I', node, k)                            iteration k (1-based) of Loop/WhileLoop ``node`` starts
    ('R', sid, idx)                           element idx (flat, 0-based) of storage sid read
    ('W', sid, idx, induction)                element written (induction=True: DO-variable update by the loop)
    ('B', call_node, fid, bindings)           argument association of a call: list of
                                              (dummy name, intent or None, actual kind, sid or None, actual expr)
Undefined reads, out-of-bounds subscripts, integer overflow, division by zero and unsupported
constructs raise :class:`InterpError`.
"""
import math

from loki import ir
from loki.expression import symbols as sym
from loki.types import BasicType

__all__ = ['Interp', 'InterpError', 'Store', 'View']

INT_MAX = 2 ** 31 - 1


class InterpError(Exception):
    def __init__(self, kind, msg=''):
        super().__init__(f'{kind}: {msg}')
        self.kind = kind


class Store:
    """Storage of one variable (or of a temporary)."""
    __slots__ = ('sid', 'data', 'typ', 'label')

    def __init__(self, sid, size, typ, label):
        self.sid = sid
        self.data = [None] * size
        self.typ = typ
        self.label = label


class View:
    """How a name maps onto a store: offset, shape, lower bounds, strides (in elements)."""
    __slots__ = ('store', 'offset', 'shape', 'lb', 'strides')

    def __init__(self, store, offset=0, shape=(), lb=(), strides=()):
        self.store = store
        self.offset = offset
        self.shape = tuple(shape)
        self.lb = tuple(lb)
        self.strides = tuple(strides)

    def flat(self, subs):
        if len(subs) != len(self.shape):
            raise InterpError('unsupported', f'rank mismatch for {self.store.label}')
        off = self.offset
        for s, lb, n, st in zip(subs, self.lb, self.shape, self.strides):
            if not isinstance(s, int) or isinstance(s, bool):
                raise InterpError('runtime', f'non-integer subscript for {self.store.label}')
            if s < lb or s >= lb + n:
                raise InterpError('bounds', f'{self.store.label} subscript {s} outside {lb}:{lb + n - 1}')
            off += (s - lb) * st
        return off

    @property
    def size(self):
        n = 1
        for s in self.shape:
            n *= s
        return n

    def positions(self):
        """all flat offsets in array element order (column major)"""
        if not self.shape:
            return [self.offset]
        if len(self.shape) == 1:
            return [self.offset + i * self.strides[0] for i in range(self.shape[0])]
        return [self.offset + i * self.strides[0] + j * self.strides[1]
                for j in range(self.shape[1]) for i in range(self.shape[0])]

    def contiguous(self):
        exp = 1
        for n, st in zip(self.shape, self.strides):
            if n > 1 and st != exp:
                return False
            exp *= n
        return True


def canonical_strides(shape):
    st, acc = [], 1
    for n in shape:
        st.append(acc)
        acc *= n
    return tuple(st)


class Frame:
    __slots__ = ('fid', 'routine', 'scopes', 'names')

    def __init__(self, fid, routine):
        self.fid = fid
        self.routine = routine
        self.scopes = [{}]       # list of dict name -> View (innermost last)
        self.names = [{}]        # list of dict sid -> tuple(names)

    def lookup(self, name):
        name = name.lower()
        for sc in reversed(self.scopes):
            if name in sc:
                return sc[name]
        return None


_REDUCTIONS = ('sum', 'maxval', 'minval', 'any', 'all', 'count', 'product')
_MEMQ = ('size', 'lbound', 'ubound')


def _dtype_name(t):
    if t.dtype == BasicType.INTEGER:
        return 'int'
    if t.dtype == BasicType.REAL:
        return 'real'
    if t.dtype == BasicType.LOGICAL:
        return 'logical'
    raise InterpError('unsupported', f'type {t.dtype}')


class Interp:
    def __init__(self, routines, max_steps=100000, max_events=400000):
        self.routines = {k.lower(): v for k, v in routines.items()}
        self.max_steps = max_steps
        self.max_events = max_events
        self.log = []
        self.nsid = 0
        self.nfid = 0
        self.steps = 0
        self.stores = {}

    # -- storage ----------------------------------------------------------------
    def new_store(self, size, typ, label):
        self.nsid += 1
        st = Store(self.nsid, size, typ, label)
        self.stores[st.sid] = st
        return st

    def _ev(self, *e):
        self.log.append(e)
        if len(self.log) > self.max_events:
            raise InterpError('limit', 'event limit')

    def rd(self, view_or_store, off):
        st = view_or_store
        v = st.data[off]
        if v is None:
            raise InterpError('undefined', f'read of undefined {st.label}[{off}]')
        self.log.append(('R', st.sid, off))
        return v

    def wr(self, st, off, val, induction=False):
        t = st.typ
        if t == 'int':
            if isinstance(val, bool):
                raise InterpError('runtime', f'logical assigned to integer {st.label}')
            if isinstance(val, float):
                if val != val or abs(val) > INT_MAX:
                    raise InterpError('overflow', f'real->int {val}')
                val = int(val)
            if abs(val) > INT_MAX:
                raise InterpError('overflow', f'integer {val}')
        elif t == 'real':
            if isinstance(val, bool):
                raise InterpError('runtime', f'logical assigned to real {st.label}')
            val = float(val)
            if val != val or val in (math.inf, -math.inf):
                raise InterpError('overflow', 'non-finite real')
        else:
            if not isinstance(val, bool):
                raise InterpError('runtime', f'non-logical assigned to logical {st.label}')
        st.data[off] = val
        self.log.append(('W', st.sid, off, induction))
        if len(self.log) > self.max_events:
            raise InterpError('limit', 'event limit')

    # -- declarations ----------------------------------------------------------
    def _const(self, expr, frame):
        """evaluate a specification expression (no events)"""
        n = len(self.log)
        v = self.ev(expr, frame)
        del self.log[n:]
        return v

    def _decl_shape(self, var, frame):
        shape, lbs = [], []
        for d in (getattr(var, 'shape', None) or getattr(var, 'dimensions', None) or ()):
            if isinstance(d, sym.RangeIndex):
                if d.start is None or d.stop is None or d.step is not None:
                    raise InterpError('unsupported', f'deferred/assumed shape {var}')
                lo = self._const(d.start, frame)
                hi = self._const(d.stop, frame)
            else:
                lo, hi = 1, self._const(d, frame)
            shape.append(max(hi - lo + 1, 0))
            lbs.append(lo)
        if len(shape) > 2:
            raise InterpError('unsupported', 'rank > 2')
        return tuple(shape), tuple(lbs)

    # -- running ----------------------------------------------------------------
    def run(self, entry, args):
        """
        Execute routine ``entry``; ``args``: dummy name -> value (scalar, flat list in array
        element order, or None for undefined).  Returns dict name -> final value / flat list
        for all dummy arguments.
        """
        routine = self.routines[entry.lower()]
        self.nfid += 1
        frame = Frame(self.nfid, routine)
        dummies = [a for a in routine.arguments]
        scalars = [a for a in dummies if not isinstance(a, sym.Array)]
        arrays = [a for a in dummies if isinstance(a, sym.Array)]
        valued = []
        for a in scalars + arrays:
            nm = a.name.lower()
            if isinstance(a, sym.Array):
                shape, lbs = self._decl_shape(a, frame)
            else:
                shape, lbs = (), ()
            size = 1
            for s in shape:
                size *= s
            st = self.new_store(size, _dtype_name(a.type), nm)
            val = args.get(nm)
            if val is not None:
                vals = list(val) if isinstance(val, (list, tuple)) else [val]
                if len(vals) != size:
                    raise InterpError('harness', f'wrong number of values for {nm}')
                st.data = vals
                valued.append(st.sid)
            frame.scopes[0][nm] = View(st, 0, shape, lbs, canonical_strides(shape))
            frame.names[0][st.sid] = (nm,)
        self._locals(frame)
        self._ev('F', frame.fid, routine, frame.names[0], tuple(valued))
        self.exec_body(routine.body, frame)
        self._ev('f', frame.fid)
        out = {}
        for a in dummies:
            v = frame.scopes[0][a.name.lower()]
            out[a.name.lower()] = list(v.store.data) if v.shape else v.store.data[0]
        return out

    def _locals(self, frame):
        routine = frame.routine
        argnames = {a.name.lower() for a in routine.arguments}
        for v in routine.variables:
            nm = v.name.lower()
            if nm in argnames or nm in frame.scopes[0]:
                continue
            if getattr(v.type, 'parameter', False):
                continue
            if isinstance(v, sym.ProcedureSymbol) or v.type.dtype not in (BasicType.INTEGER, BasicType.REAL,
                                                                           BasicType.LOGICAL):
                continue
            if isinstance(v, sym.Array):
                shape, lbs = self._decl_shape(v, frame)
            else:
                shape, lbs = (), ()
            size = 1
            for s in shape:
                size *= s
            st = self.new_store(size, _dtype_name(v.type), nm)
            frame.scopes[0][nm] = View(st, 0, shape, lbs, canonical_strides(shape))
            frame.names[0][st.sid] = (nm,)

    # -- statements -------------------------------------------------------------
    def exec_body(self, body, frame):
        if isinstance(body, ir.Section):
            self._ev('E', body, frame.names[-1], frame.fid)
            for n in body.body:
                self.exec_node(n, frame)
            self._ev('X', body)
            return
        for n in body:
            self.exec_node(n, frame)

    def exec_node(self, o, frame):
        if isinstance(o, tuple):
            for n in o:
                self.exec_node(n, frame)
            return
        if isinstance(o, (ir.Comment, ir.CommentBlock, ir.Pragma)):
            return
        self.steps += 1
        if self.steps > self.max_steps:
            raise InterpError('limit', 'step limit')
        h = getattr(self, 'do_' + type(o).__name__, None)
        if h is None:
            raise InterpError('unsupported', f'node {type(o).__name__}')
        self._ev('E', o, frame.names[-1], frame.fid)
        h(o, frame)
        self._ev('X', o)

    def do_ContinueStmt(self, o, frame):
        pass

    def do_Section(self, o, frame):
        for n in o.body:
            self.exec_node(n, frame)

    def do_Assignment(self, o, frame, mask=None, shape=None):
        if getattr(o, 'ptr', False):
            raise InterpError('unsupported', 'pointer assignment')
        lhs = o.lhs
        view, desc = self.ref(lhs, frame)
        if desc is None:
            if mask is not None:
                raise InterpError('unsupported', 'scalar assignment in WHERE')
            if self.shape_of(o.rhs, frame, {}) is not None:
                raise InterpError('unsupported', 'array value assigned to scalar')
            val = self.ev(o.rhs, frame)
            self.wr(view.store, view.offset, val)
            return
        cache = {}
        lshape = desc.shape
        rshape = self.shape_of(o.rhs, frame, cache)
        if rshape is not None and rshape != lshape:
            raise InterpError('runtime', f'shape mismatch {lshape} vs {rshape} in {o}')
        if shape is not None and shape != lshape:
            raise InterpError('runtime', 'shape mismatch with WHERE mask')
        npos = desc.size
        vals = [None] * npos
        for p in range(npos):
            if mask is None or mask[p]:
                vals[p] = self.ev(o.rhs, frame, p, cache)
        offs = desc.positions()
        for p in range(npos):
            if mask is None or mask[p]:
                self.wr(view.store, offs[p], vals[p])

    def do_Loop(self, o, frame):
        b = o.bounds
        start = self.ev(b.start, frame)
        stop = self.ev(b.stop, frame)
        step = self.ev(b.step, frame) if b.step is not None else 1
        if step == 0:
            raise InterpError('runtime', 'zero step')
        lv, d = self.ref(o.variable, frame)
        if d is not None or lv.store.typ != 'int':
            raise InterpError('unsupported', 'loop variable')
        trips = max((stop - start + step) // step, 0) if step > 0 else max((start - stop - step) // (-step), 0)
        val = start
        self.wr(lv.store, lv.offset, val, True)
        for k in range(trips):
            self._ev('I', o, k + 1)
            self.steps += 1
            if self.steps > self.max_steps:
                raise InterpError('limit', 'step limit')
            for n in o.body:
                self.exec_node(n, frame)
            val += step
            self.wr(lv.store, lv.offset, val, True)

    def do_WhileLoop(self, o, frame):
        if o.condition is None:
            raise InterpError('unsupported', 'do without condition')
        k = 0
        while True:
            c = self.ev(o.condition, frame)
            if not isinstance(c, bool):
                raise InterpError('runtime', 'non-logical condition')
            if not c:
                break
            k += 1
            self._ev('I', o, k)
            self.steps += 1
            if self.steps > self.max_steps:
                raise InterpError('limit', 'step limit')
            for n in o.body:
                self.exec_node(n, frame)

    def do_Conditional(self, o, frame):
        c = self.ev(o.condition, frame)
        if not isinstance(c, bool):
            raise InterpError('runtime', 'non-logical condition')
        for n in (o.body if c else (o.else_body or ())):
            self.exec_node(n, frame)

    def do_MultiConditional(self, o, frame):
        v = self.ev(o.expr, frame)
        chosen = None
        for vals, body in zip(o.values, o.bodies):
            for val in vals:
                if isinstance(val, sym.RangeIndex):
                    lo = self.ev(val.start, frame) if val.start is not None else None
                    hi = self.ev(val.stop, frame) if val.stop is not None else None
                    hit = (lo is None or v >= lo) and (hi is None or v <= hi)
                else:
                    hit = self.ev(val, frame) == v
                if hit:
                    chosen = body
                    break
            if chosen is not None:
                break
        if chosen is None:
            chosen = o.else_body or ()
        for n in chosen:
            self.exec_node(n, frame)

    def do_MaskedStatement(self, o, frame):
        pending = None
        shape = None
        for cond, body in zip(o.conditions, o.bodies):
            cache = {}
            cshape = self.shape_of(cond, frame, cache)
            if cshape is None:
                raise InterpError('unsupported', 'scalar WHERE mask')
            if shape is None:
                shape = cshape
                n = 1
                for s in shape:
                    n *= s
                pending = [True] * n
            elif cshape != shape:
                raise InterpError('runtime', 'WHERE mask shape mismatch')
            m = [False] * len(pending)
            for p, pen in enumerate(pending):
                if pen:
                    c = self.ev(cond, frame, p, cache)
                    if not isinstance(c, bool):
                        raise InterpError('runtime', 'non-logical mask')
                    m[p] = c
            self._masked_body(body, frame, m, shape)
            pending = [pen and not mm for pen, mm in zip(pending, m)]
        if o.default:
            self._masked_body(o.default, frame, pending, shape)

    def _masked_body(self, body, frame, mask, shape):
        for n in body:
            if isinstance(n, (ir.Comment, ir.CommentBlock, ir.Pragma)):
                continue
            if not isinstance(n, ir.Assignment):
                raise InterpError('unsupported', f'{type(n).__name__} in WHERE')
            self.steps += 1
            self._ev('E', n, frame.names[-1], frame.fid)
            self.do_Assignment(n, frame, mask=mask, shape=shape)
            self._ev('X', n)

    def do_Associate(self, o, frame):
        scope = {}
        names = dict(frame.names[-1])
        for sel, alias in o.associations:
            an = alias.name.lower()
            if isinstance(sel, (sym.Scalar, sym.Array)) and frame.lookup(sel.name) is not None:
                view, desc = self.ref(sel, frame)
                v = desc if desc is not None else view
                if v.shape and getattr(sel, 'dimensions', None):
                    # a section selector has lower bounds 1; a whole-array selector keeps its bounds
                    v = View(v.store, v.offset, v.shape, (1,) * len(v.shape), v.strides)
                scope[an] = v
                names[v.store.sid] = names.get(v.store.sid, ()) + (an,)
            else:
                if self.shape_of(sel, frame, {}) is not None:
                    raise InterpError('unsupported', 'array expression as associate selector')
                val = self.ev(sel, frame)
                typ = 'logical' if isinstance(val, bool) else 'int' if isinstance(val, int) else 'real'
                st = self.new_store(1, typ, an)
                st.data[0] = val
                scope[an] = View(st)
                names[st.sid] = (an,)
        frame.scopes.append(scope)
        frame.names.append(names)
        try:
            for n in o.body:
                self.exec_node(n, frame)
        finally:
            frame.scopes.pop()
            frame.names.pop()

    def do_CallStatement(self, o, frame):
        name = str(o.name).lower()
        callee = self.routines.get(name)
        if callee is None:
            raise InterpError('unsupported', f'call to unknown routine {name}')
        dummies = list(callee.arguments)
        actuals = {}
        if len(o.arguments) > len(dummies):
            raise InterpError('runtime', 'too many arguments')
        for d, a in zip(dummies, o.arguments):
            actuals[d.name.lower()] = a
        for k, a in (o.kwarguments or ()):
            actuals[str(k).lower()] = a
        self.nfid += 1
        cf = Frame(self.nfid, callee)
        log_pos = len(self.log)      # the 'B' event goes before the reads of the actual arguments
        bindings = []
        pending_arrays = []
        valued = []
        for d in dummies:
            dn = d.name.lower()
            if dn not in actuals:
                raise InterpError('unsupported', f'absent argument {dn}')
            a = actuals[dn]
            intent = d.type.intent.lower() if d.type.intent else None
            if isinstance(a, (sym.Scalar, sym.Array)) and frame.lookup(a.name) is not None:
                view, desc = self.ref(a, frame)
                v = desc if desc is not None else view
                kind = ('whole' if not getattr(a, 'dimensions', None) else
                        'section' if desc is not None else 'element')
                if isinstance(d, sym.Array):
                    if not v.shape and kind != 'element':
                        raise InterpError('unsupported', 'scalar passed to array dummy')
                    if v.shape and not v.contiguous():
                        raise InterpError('unsupported', 'non-contiguous actual argument')
                    pending_arrays.append((d, v))
                else:
                    if v.shape:
                        raise InterpError('unsupported', 'array passed to scalar dummy')
                    cf.scopes[0][dn] = View(v.store, v.offset)
                    cf.names[0][v.store.sid] = cf.names[0].get(v.store.sid, ()) + (dn,)
                bindings.append((dn, intent, kind, v.store.sid, a))
            else:
                if isinstance(d, sym.Array):
                    raise InterpError('unsupported', 'expression passed to array dummy')
                val = self.ev(a, frame)
                st = self.new_store(1, _dtype_name(d.type), dn)
                n0 = len(self.log)
                self.wr(st, 0, val)
                del self.log[n0:]
                valued.append(st.sid)
                cf.scopes[0][dn] = View(st)
                cf.names[0][st.sid] = (dn,)
                bindings.append((dn, intent, 'expr', None, a))
        for d, v in pending_arrays:
            dn = d.name.lower()
            shape, lbs = self._decl_shape(d, cf)
            size = 1
            for s in shape:
                size *= s
            avail = v.size if v.shape else len(v.store.data) - v.offset
            if size > avail:
                raise InterpError('bounds', f'dummy {dn} larger than actual')
            cf.scopes[0][dn] = View(v.store, v.offset, shape, lbs, canonical_strides(shape))
            cf.names[0][v.store.sid] = cf.names[0].get(v.store.sid, ()) + (dn,)
        self._locals(cf)
        self.log.insert(log_pos, ('B', o, cf.fid, tuple(bindings)))
        self._ev('F', cf.fid, callee, cf.names[0], tuple(valued))
        self.exec_body(callee.body, cf)
        self._ev('f', cf.fid)

    # -- expressions ------------------------------------------------------------
    def ref(self, e, frame):
        """
        Resolve a variable reference.  Returns (view, None) with a rank-0 view for a scalar /
        array element, or (base view, section view) for an array-valued reference.
        Subscript expressions are evaluated (with events).
        """
        base = frame.lookup(e.name)
        if base is None:
            raise InterpError('unsupported', f'unknown variable {e.name}')
        dims = getattr(e, 'dimensions', None) or ()
        if not base.shape:
            if dims:
                raise InterpError('unsupported', f'subscript on scalar {e.name}')
            return base, None
        if not dims:
            return base, base
        if len(dims) != len(base.shape):
            raise InterpError('unsupported', 'rank mismatch')
        off = base.offset
        shape, strides = [], []
        for d, lb, n, st in zip(dims, base.lb, base.shape, base.strides):
            if isinstance(d, sym.RangeIndex):
                lo = self.ev(d.start, frame) if d.start is not None else lb
                hi = self.ev(d.stop, frame) if d.stop is not None else lb + n - 1
                sp = self.ev(d.step, frame) if d.step is not None else 1
                if sp == 0:
                    raise InterpError('runtime', 'zero stride')
                cnt = max((hi - lo + sp) // sp, 0) if sp > 0 else max((lo - hi - sp) // (-sp), 0)
                if cnt > 0:
                    last = lo + (cnt - 1) * sp
                    if lo < lb or lo > lb + n - 1 or last < lb or last > lb + n - 1:
                        raise InterpError('bounds', f'section of {e.name} out of bounds')
                off += (lo - lb) * st if cnt > 0 else 0
                shape.append(cnt)
                strides.append(st * sp)
            else:
                s = self.ev(d, frame)
                if not isinstance(s, int) or isinstance(s, bool):
                    raise InterpError('runtime', 'non-integer subscript')
                if s < lb or s > lb + n - 1:
                    raise InterpError('bounds', f'{e.name} subscript {s} outside {lb}:{lb + n - 1}')
                off += (s - lb) * st
        if not shape:
            return View(base.store, off), None
        return base, View(base.store, off, shape, (1,) * len(shape), strides)

    def shape_of(self, e, frame, cache):
        """
        Shape of an expression (None = scalar).  Array-valued references are resolved once
        (subscript/bound reads recorded once) and stored in ``cache`` by id of the node.
        """
        if isinstance(e, (sym.Scalar, sym.Array, sym.DeferredTypeSymbol)):
            base = frame.lookup(e.name)
            if base is None:
                return self._param_shape(e)
            if not base.shape:
                return None
            dims = getattr(e, 'dimensions', None) or ()
            if dims and not any(isinstance(d, sym.RangeIndex) for d in dims):
                return None
            if id(e) not in cache:
                _, desc = self.ref(e, frame)
                cache[id(e)] = desc
            return cache[id(e)].shape
        if isinstance(e, (int, float, sym.IntLiteral, sym.FloatLiteral, sym.LogicLiteral)):
            return None
        if isinstance(e, sym.InlineCall):
            fn = e.function.name.lower()
            if fn in _REDUCTIONS or fn in _MEMQ:
                return None
            return self._first_shape(e.parameters, frame, cache)
        if isinstance(e, sym.Cast):
            return self._first_shape(e.parameters, frame, cache)
        if isinstance(e, (sym.Sum, sym.Product, sym.LogicalAnd, sym.LogicalOr)):
            return self._first_shape(e.children, frame, cache)
        if isinstance(e, sym.Quotient):
            return self._first_shape((e.numerator, e.denominator), frame, cache)
        if isinstance(e, sym.Power):
            return self._first_shape((e.base, e.exponent), frame, cache)
        if isinstance(e, sym.Comparison):
            return self._first_shape((e.left, e.right), frame, cache)
        if isinstance(e, sym.LogicalNot):
            return self.shape_of(e.child, frame, cache)
        raise InterpError('unsupported', f'expression {type(e).__name__}')

    def _param_shape(self, e):
        return None

    def _first_shape(self, items, frame, cache):
        shape = None
        for c in items:
            s = self.shape_of(c, frame, cache)
            if s is not None:
                if shape is None:
                    shape = s
                elif s != shape:
                    raise InterpError('runtime', f'non-conformable operands {shape} vs {s}')
        return shape

    def ev(self, e, frame, pos=None, cache=None):
        """Evaluate expression; with ``pos`` array-valued references yield their pos-th element."""
        # pylint: disable=too-many-return-statements,too-many-branches
        if isinstance(e, bool):
            return e
        if isinstance(e, (int, float)):
            return e
        if isinstance(e, sym.IntLiteral):
            return int(e.value)
        if isinstance(e, sym.FloatLiteral):
            return float(str(e.value).lower().replace('d', 'e'))
        if isinstance(e, sym.LogicLiteral):
            return bool(e.value)
        if isinstance(e, (sym.Scalar, sym.Array, sym.DeferredTypeSymbol)):
            base = frame.lookup(e.name)
            if base is None:
                return self._param_value(e, frame)
            if cache is not None and id(e) in cache:
                desc = cache[id(e)]
                if pos is None:
                    raise InterpError('unsupported', 'array value in scalar context')
                return self.rd(desc.store, self._nth(desc, pos))
            view, desc = self.ref(e, frame)
            if desc is not None:
                raise InterpError('unsupported', f'array value {e} in scalar context')
            return self.rd(view.store, view.offset)
        if isinstance(e, sym.Sum):
            acc = None
            for c in e.children:
                v = self.ev(c, frame, pos, cache)
                acc = v if acc is None else self._arith(acc, v, '+')
            return acc
        if isinstance(e, sym.Product):
            ch = e.children
            if len(ch) == 2 and isinstance(ch[0], int) and ch[0] == -1:
                v = self.ev(ch[1], frame, pos, cache)
                self._num(v)
                return -v
            acc = None
            for c in ch:
                v = self.ev(c, frame, pos, cache)
                acc = v if acc is None else self._arith(acc, v, '*')
            return acc
        if isinstance(e, sym.Quotient):
            a = self.ev(e.numerator, frame, pos, cache)
            b = self.ev(e.denominator, frame, pos, cache)
            return self._arith(a, b, '/')
        if isinstance(e, sym.Power):
            a = self.ev(e.base, frame, pos, cache)
            b = self.ev(e.exponent, frame, pos, cache)
            return self._arith(a, b, '**')
        if isinstance(e, sym.Comparison):
            a = self.ev(e.left, frame, pos, cache)
            b = self.ev(e.right, frame, pos, cache)
            self._num(a)
            self._num(b)
            op = e.operator
            if op == '==':
                return a == b
            if op == '!=':
                return a != b
            if op == '<':
                return a < b
            if op == '<=':
                return a <= b
            if op == '>':
                return a > b
            if op == '>=':
                return a >= b
            raise InterpError('unsupported', f'comparison {op}')
        if isinstance(e, sym.LogicalAnd):
            vals = [self._log(self.ev(c, frame, pos, cache)) for c in e.children]
            return all(vals)
        if isinstance(e, sym.LogicalOr):
            vals = [self._log(self.ev(c, frame, pos, cache)) for c in e.children]
            return any(vals)
        if isinstance(e, sym.LogicalNot):
            return not self._log(self.ev(e.child, frame, pos, cache))
        if isinstance(e, sym.Cast):
            nm = e.name.lower()
            v = self.ev(e.parameters[0], frame, pos, cache)
            self._num(v)
            if nm == 'real':
                return float(v)
            if nm == 'int':
                return int(v)
            raise InterpError('unsupported', f'cast {nm}')
        if isinstance(e, sym.InlineCall):
            return self._intrinsic(e, frame, pos, cache)
        raise InterpError('unsupported', f'expression {type(e).__name__}')

    @staticmethod
    def _nth(desc, p):
        if len(desc.shape) == 1:
            return desc.offset + p * desc.strides[0]
        n0 = desc.shape[0]
        return desc.offset + (p % n0) * desc.strides[0] + (p // n0) * desc.strides[1]

    def _param_value(self, e, frame):
        t = getattr(e, 'type', None)
        if t is not None and getattr(t, 'parameter', False) and t.initial is not None:
            return self._const(t.initial, frame)
        raise InterpError('unsupported', f'unknown symbol {e}')

    @staticmethod
    def _num(v):
        if isinstance(v, bool) or not isinstance(v, (int, float)):
            raise InterpError('runtime', 'numeric operand expected')

    @staticmethod
    def _log(v):
        if not isinstance(v, bool):
            raise InterpError('runtime', 'logical operand expected')
        return v

    def _arith(self, a, b, op):
        self._num(a)
        self._num(b)
        both_int = isinstance(a, int) and isinstance(b, int)
        try:
            if op == '+':
                r = a + b
            elif op == '*':
                r = a * b
            elif op == '/':
                if both_int:
                    if b == 0:
                        raise InterpError('runtime', 'integer division by zero')
                    q = abs(a) // abs(b)
                    r = q if (a >= 0) == (b >= 0) else -q
                else:
                    if b == 0:
                        raise InterpError('runtime', 'division by zero')
                    r = a / b
            else:
                if both_int:
                    if b < 0:
                        raise InterpError('unsupported', 'negative integer exponent')
                    r = a ** b
                elif isinstance(b, int):
                    # gfortran expands small integer powers into multiplications
                    if b == 2:
                        r = a * a
                    elif b == 3:
                        r = a * a * a
                    elif 0 <= b:
                        r = math.pow(a, b)
                    else:
                        r = 1.0 / math.pow(a, -b)
                else:
                    r = math.pow(a, b)
        except (OverflowError, ValueError) as ex:
            raise InterpError('overflow', str(ex)) from ex
        if isinstance(r, int):
            if abs(r) > INT_MAX:
                raise InterpError('overflow', 'integer overflow')
        elif r != r or r in (math.inf, -math.inf):
            raise InterpError('overflow', 'non-finite real')
        return r

    def _array_values(self, arg, frame):
        cache = {}
        shape = self.shape_of(arg, frame, cache)
        if shape is None:
            raise InterpError('unsupported', 'reduction of scalar')
        n = 1
        for s in shape:
            n *= s
        return [self.ev(arg, frame, p, cache) for p in range(n)]

    def _intrinsic(self, e, frame, pos, cache):
        # pylint: disable=too-many-return-statements,too-many-branches
        fn = e.function.name.lower()
        if e.kw_parameters:
            raise InterpError('unsupported', f'keyword arguments in {fn}')
        ps = e.parameters
        if fn in _MEMQ:
            a = ps[0]
            base = frame.lookup(a.name) if isinstance(a, (sym.Scalar, sym.Array)) else None
            if base is None or not base.shape or getattr(a, 'dimensions', None):
                raise InterpError('unsupported', f'{fn} of non-variable')
            if len(ps) == 1:
                if fn == 'size':
                    return base.size
                raise InterpError('unsupported', f'{fn} without dim')
            dim = self._const(ps[1], frame)
            if not 1 <= dim <= len(base.shape):
                raise InterpError('runtime', 'bad dim')
            if fn == 'size':
                return base.shape[dim - 1]
            if fn == 'lbound':
                return base.lb[dim - 1]
            return base.lb[dim - 1] + base.shape[dim - 1] - 1
        if fn in _REDUCTIONS:
            if len(ps) != 1:
                raise InterpError('unsupported', f'{fn} with dim/mask')
            vals = self._array_values(ps[0], frame)
            if fn == 'sum':
                acc = 0 if (vals and isinstance(vals[0], int)) else 0.0
                if not vals:
                    return 0.0
                for v in vals:
                    acc = self._arith(acc, v, '+')
                return acc
            if fn == 'product':
                acc = 1 if (vals and isinstance(vals[0], int)) else 1.0
                for v in vals:
                    acc = self._arith(acc, v, '*')
                return acc
            if fn in ('maxval', 'minval'):
                if not vals:
                    raise InterpError('unsupported', 'empty maxval/minval')
                return max(vals) if fn == 'maxval' else min(vals)
            if fn == 'any':
                return any(self._log(v) for v in vals)
            if fn == 'all':
                return all(self._log(v) for v in vals)
            return sum(1 for v in vals if self._log(v))
        args = [self.ev(p, frame, pos, cache) for p in ps]
        try:
            if fn in ('max', 'min'):
                for a in args:
                    self._num(a)
                if any(isinstance(a, float) for a in args):
                    args = [float(a) for a in args]
                return max(args) if fn == 'max' else min(args)
            if fn == 'abs':
                self._num(args[0])
                return abs(args[0])
            if fn == 'mod':
                a, b = args
                self._num(a)
                self._num(b)
                if b == 0:
                    raise InterpError('runtime', 'mod by zero')
                if isinstance(a, int) and isinstance(b, int):
                    r = abs(a) % abs(b)
                    return r if a >= 0 else -r
                return math.fmod(a, b)
            if fn == 'modulo':
                a, b = args
                self._num(a)
                self._num(b)
                if b == 0:
                    raise InterpError('runtime', 'modulo by zero')
                if isinstance(a, int) and isinstance(b, int):
                    return a % b
                return a - math.floor(a / b) * b
            if fn == 'sign':
                a, b = args
                self._num(a)
                self._num(b)
                neg = (b < 0) or (isinstance(b, float) and math.copysign(1.0, b) < 0)
                return -abs(a) if neg else abs(a)
            if fn == 'merge':
                a, b, c = args
                return a if self._log(c) else b
            if fn == 'nint':
                v = args[0]
                self._num(v)
                return int(math.floor(v + 0.5)) if v >= 0 else -int(math.floor(-v + 0.5))
            if fn == 'int':
                self._num(args[0])
                return int(args[0])
            if fn in ('real', 'dble'):
                self._num(args[0])
                return float(args[0])
            if fn == 'sqrt':
                return math.sqrt(float(args[0]))
            if fn in ('sin', 'cos', 'tanh', 'exp', 'atan', 'log'):
                self._num(args[0])
                return getattr(math, fn)(float(args[0]))
        except (ValueError, OverflowError) as ex:
            raise InterpError('runtime', f'{fn}: {ex}') from ex
        raise InterpError('unsupported', f'intrinsic {fn}')
