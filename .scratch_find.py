import sys, json
from pathlib import Path
from vlib import wflab, wfrun, core
from vlib.checks import c41
seed = int(sys.argv[1]); want = sys.argv[2]; idxs = [int(a) for a in sys.argv[3:] if a.isdigit()] or range(96)
for idx in idxs:
    slot = idx % c41.NSLOT
    entries, is_sched = c41.slice_entries(slot)
    force = '--force' in sys.argv
    if want not in [e.name for e in entries] and not force:
        continue
    rng = core.case_rng('C41', seed, idx)
    gates = c41.gates_for(idx)
    gates.update(wflab.slice_requirements(entries, rng))
    if is_sched:
        gates['pflags'].setdefault('functions', rng.random() < 0.5)
        gates['pflags']['max_stmts'] = rng.choice([4, 6])
    if gates['unroll_neg']:
        gates['dflags']['unroll'] = True
    wc = wflab.make_case(rng, idx, gates)
    e = wflab.REG_BY_NAME[want]
    if is_sched:
        continue
    wd = Path('/verif/.scratch_wd'); counters = {}
    ev = wfrun.Evaluator(wc, wd, counters)
    ev.fresh.get()
    ev.base_text = ev.fresh.get().to_fortran()
    ev.text_ok = lambda t: (True, '')
    for o in wflab.option_combos(e.space):
        if e.pre and not e.pre(wc, o): continue
        r = ev.apply(e, o)
        ks = [v['key'] for v in r['violations']]
        print(idx, {k: v for k, v in gates.items() if v is True}, o, r['status'], ks, flush=True)
        if ks and '--dump' in sys.argv[0:0]:
            pass
        if ks:
            Path(f'/verif/.scratch_case_{idx}.f90').write_text(wc.text)
            Path(f'/verif/.scratch_case_{idx}.out.f90').write_text(r['text'] or '')
            for v in r['violations']: print('   ', v['msg'][:300])
