"""C07 -- the standalone expression parser (loki.expression.parser.parse_expr) follows Fortran semantics.

Oracle: for a generated well-formed Fortran expression string s, the tree parse_expr(s, scope) must have the same
value as the tree the FP frontend builds for `x = s` inside a routine with the same declarations, at every sampled
valuation (both trees are evaluated by the independent exprlab evaluator from their structure).  The generator's own
reading of s (it builds s from an AST by the Fortran grammar) and, on a sample, gfortran's evaluation of s are used
to confirm that the frontend's reading is the Fortran one; disagreement there is inconclusive, never a verdict.
"""
import re
import shutil

from vlib import exprlab as X
from vlib.core import sighash

PID = 'C07'
LEVEL = 'exploration'
TECHNIQUE = 'differential evaluation of parse_expr tree vs FP-frontend tree (reference evaluator, gfortran tie-breaker)'
LEVEL_TEXT = ('every generated well-formed expression string is parsed by the real parse_expr and by the FP frontend; both '
              'trees are evaluated at 8 valuations and must agree; held = no unexplained difference or parser exception '
              'on the sampled strings')
LEVEL_NOTE = ('trusted: FP frontend reading (confirmed against the generator grammar on every string and against gfortran '
              'on ~30 % of the cases); strings are bounded (nesting <= 2, chains <= 5 operands) over a fixed typed scope; '
              'reals compared within a propagated error bound')
RULE = ('E3 TextGen strings: arithmetic chains (+ - * / ** with Fortran associativity, unary signs, random redundant '
        'parentheses and spacing), comparisons in both spellings, .not./.and./.or. chains, literals with and without kinds, '
        'intrinsic calls and casts, array elements and derived-type components, mixed case. Constructs with known open '
        'findings (minus before power, long integer * / chains, real literals with kind, numeric / digit kinds, .eqv., '
        'component followed by * / **, .not. before a comparison) only appear in the hostile slice (25 % of cases). '
        'Non-trivial = >= 20 strings of the case were parsed by both parsers and compared on >= 3 valuations; distinct = '
        'hash of the strings.')
CASES = {'quick': 112, 'thorough': 2000}
MIN_NONTRIVIAL = {'quick': 80, 'thorough': 1500}
ANCHORS = ['loki/expression/parser.py']
REQUIRED_REACH = ['parse_prefix', 'parse_postfix', 'parse_terminal', 'map_power', 'map_quotient', 'map_comparison',
                  'map_logical_not', 'parse_f_int', 'map_lookup', 'map_algebraic_leaf']
REQUIRED_COUNTERS = {'strings_compared': 3000, 'gfortran_confirmed_frontend_reading': 500, 'valuations_compared': 15000}
ASSUMPTIONS = ['the FP frontend tree of `x = s` is the reference meaning of s (property statement); its reading is '
               'cross-checked against the generating grammar for every string and against gfortran on a sample',
               'strings where these references disagree among themselves are discarded and counted (inconclusive above 1 %)']
BUDGET_S = {'quick': 1200, 'thorough': 3600}
WATCHDOG_S = {'quick': 3000, 'thorough': 9000}
CASE_TIMEOUT_S = 300
NSTR = 40
NVAL = 8
MINVALID = 3
TYCLASS = {'i4': 'int', 'r4': 'real', 'r8': 'real', 'l': 'logical', '?': 'unknown'}


def setup_worker(tier, ctx):
    from loki import Subroutine
    from loki.frontend import FP
    env = X.Env()
    ctx['env'] = env
    ctx['ev'] = X.Evaluator(env)
    src = 'subroutine xs()\nimplicit none\n' + env.fortran_decls() + 'end subroutine xs\n'
    ctx['routine'] = Subroutine.from_source(src, frontend=FP)


FRAGILE = 'fragile'


def values_of(ev, ast, vals):
    """per valuation: Val | None (undefined) | FRAGILE (defined but ill-conditioned in this association)"""
    out = []
    for v in vals:
        try:
            out.append(ev(ast, v))
        except X.Overflow:
            out.append(FRAGILE)      # integer overflow depends on the association order: no opinion
        except X.Undefined:
            out.append(None)
        except X.Fragile:
            out.append(FRAGILE)
    return out


def ndefined(vs):
    return sum(isinstance(x, X.Val) for x in vs)


def same(exp, got):
    """exp/got: lists from values_of.  None if they agree wherever both are well-conditioned, else a message."""
    for vi, (x, y) in enumerate(zip(exp, got)):
        if not isinstance(x, X.Val) or y is FRAGILE:
            continue
        if y is None:
            return f'valuation {vi}: reference={x.v!r} parse_expr tree is undefined'
        if not X.agree(x, y):
            return f'valuation {vi}: reference={x.v!r} parse_expr={y.v!r}'
    return None


def pe_values(text, ctx, vals):
    """(status, detail, values, type): status ok | exception:<Type> | illtyped"""
    from loki.expression.parser import parse_expr
    try:
        tree = parse_expr(text, scope=ctx['routine'])
    except Exception as e:   # pylint: disable=broad-except
        return f'exception:{type(e).__name__}', f'{type(e).__name__}: {e}'[:200], None, None
    try:
        ast = X.from_loki(tree)
        ty = X.static_type(ast, ctx['env'])
        return 'ok', str(ast)[:600], values_of(ctx['ev'], ast, vals), ty
    except X.EvalError as e:
        return 'illtyped', f'{e}; tree={tree!r}'[:400], None, None
    except Exception as e:   # pylint: disable=broad-except
        return 'illtyped', f'{type(e).__name__}: {e}; tree={tree!r}'[:400], None, None


# ------------------------------------------------------------------------------------------------------------
# classification: shrink the string's AST, then name the mechanism by the shape that is left

def leaf_shape(a):
    t = a[0]
    if t == 'var':
        return 'c' if '%' in a[1] else 'x'
    if t == 'idx':
        return 'ca' if '%' in a[1] else 'a'
    if t == 'int':
        k = a[2]
        return 'x' if not k else ('xn' if k.isdigit() else ('xkd' if any(ch.isdigit() for ch in k) else 'xk'))
    if t == 'real':
        k = a[2]
        if k:
            return 'rn' if k.isdigit() else 'rk'
        return 'rd' if 'd' in a[1].lower() else 'x'
    if t == 'log':
        return 'x'
    return None


def shape(a):
    ls = leaf_shape(a)
    if ls:
        return ls
    t = a[0]
    name = {'call': 'f', 'cast': 'cast'}.get(t, t)
    return f'{name}({",".join(shape(c) for _r, c in X.children(a))})'


REPL = {'i4': ['k2', 'i3', 'i1', 'i4', 'k1', 'i2'], 'r8': ['r4', 'r2', 'r1', 'r3'], 'r4': ['s2', 's1'], 'l': ['l3', 'l2', 'l1']}


def fresh_leaf(ty, cur):
    """a plain variable of type ty that does not occur in cur yet (equal operands create algebraic coincidences)"""
    used = {n[1] for _p, n in X.subtrees(cur) if n[0] == 'var'}
    for nm in REPL[ty]:
        if nm not in used:
            return ('var', nm)
    return ('var', REPL[ty][0])


class Shrinker:
    def __init__(self, ctx, vals):
        self.ctx, self.vals, self.env, self.ev = ctx, vals, ctx['env'], ctx['ev']
        self.cache = {}
        self.tests = 0

    def fails(self, a):
        """None if parse_expr reads the canonical text of `a` like the grammar does, else (status, detail, text)"""
        if a in self.cache:
            return self.cache[a]
        res = None
        try:
            exp = values_of(self.ev, a, self.vals)
        except X.EvalError:
            exp = None
        if exp is not None and ndefined(exp) >= 1:
            text = X.surface_text(a)
            self.tests += 1
            st, detail, got, ty = pe_values(text, self.ctx, self.vals)
            if st != 'ok':
                res = (st, detail, text)
            else:
                bad = same(exp, got)
                if bad:
                    res = ('value', bad, text)
                elif ty != X.static_type_safe(a, self.env):
                    res = ('type', f'type {X.static_type_safe(a, self.env)} read as {ty}', text)
        self.cache[a] = res
        return res

    def shrink(self, a):
        """greedy: smallest failing subtree, then replace children by leaves / drop parentheses while it still fails"""
        if self.fails(a) is None:
            return None
        cur = a
        changed = True
        while changed and self.tests < 400:
            changed = False
            # 1. descend into a failing proper subtree
            for _p, n in sorted(standalone_subtrees(cur), key=lambda pn: X.size(pn[1])):
                if n is not cur and X.size(n) < X.size(cur) and (X.children(n) or n[0] in ('int', 'real')) and self.fails(n) is not None:
                    cur, changed = n, True
                    break
            if changed:
                continue
            # 2. simplify children in place
            for path, n in list(X.subtrees(cur)):
                if not path:
                    continue
                cands = []
                if n[0] == 'par':
                    cands.append(n[1])
                ty = X.static_type_safe(n, self.env)
                if X.children(n) and ty in REPL:
                    cands.append(fresh_leaf(ty, cur))
                if n[0] in ('int', 'real') and leaf_shape(n) != 'x' and ty in REPL:
                    cands.append(fresh_leaf(ty, cur))
                if n[0] == 'var' and '%' in n[1] and ty in REPL:
                    cands.append(fresh_leaf(ty, cur))
                for c in cands:
                    new = _replace_at(cur, path, c)
                    if X.size(new) < X.size(cur) or (X.size(new) == X.size(cur) and shape(new) != shape(cur) and not X.children(c) and c[0] == 'var' and '%' not in c[1]):
                        if self.fails(new) is not None:
                            cur, changed = new, True
                            break
                if changed:
                    break
        return cur


def standalone_subtrees(a, path=()):
    """subtrees that keep their meaning when printed on their own: the ('neg', x) term of a binary minus is skipped
    (printed alone it would become a unary minus), its operand x is visited instead"""
    yield path, a
    for i, (role, c) in enumerate(X.children(a)):
        if a[0] == 'sum' and role == 'nonfirst' and c[0] == 'neg':
            yield from standalone_subtrees(c[1], path + (i, 0))
        else:
            yield from standalone_subtrees(c, path + (i,))


def _replace_at(a, path, new):
    if not path:
        return new
    i = path[0]
    child = X.children(a)[i][1]
    return X.replace_child(a, i, _replace_at(child, path[1:], new))


LEX = [
    (re.compile(r'(?<![\w.])\d+[ed][+-]?\d+_\w+', re.I), 'real-literal-without-point-with-kind'),
    (re.compile(r'(?<![\w.)])\.\d+(?:[ed][+-]?\d+)?_\w+', re.I), 'real-literal-without-leading-digit-with-kind'),
    (re.compile(r'\d*\.\d*(?:[ed][+-]?\d+)?_\w+\s*\S', re.I), 'real-literal-with-kind-not-at-end-of-string'),
    (re.compile(r'(?<![\w.])\d+_\d', re.I), 'int-literal-with-numeric-kind'),
    (re.compile(r'(?<![\w.])\d+_[a-z]+\d', re.I), 'int-literal-kind-name-with-digit'),
    (re.compile(r'\.n?eqv\.', re.I), 'eqv-operator'),
]


COMP_RX = re.compile(r'tt%\w+(?:\([^()]*\))?\s*(\*\*|\*|/)')


def leftmost_factor(a):
    """the first mult-operand of the text of a (following first factors / numerators)"""
    while a[0] in ('prod', 'quot'):
        a = a[1][0] if a[0] == 'prod' else a[1]
    return a


def _wrap_leftmost_pow(a):
    if a[0] == 'prod':
        return ('prod', (_wrap_leftmost_pow(a[1][0]),) + tuple(a[1][1:]))
    if a[0] == 'quot':
        return ('quot', _wrap_leftmost_pow(a[1]), a[2])
    return ('par', a)


def mulchain_ops(a):
    """operator sequence if `a` is a left-nested * / chain over leaves, else None"""
    ops = []
    while a[0] in ('prod', 'quot'):
        if a[0] == 'prod':
            if len(a[1]) != 2 or X.children(a[1][1]):
                return None
            ops.append('*'); a = a[1][0]
        else:
            if X.children(a[2]):
                return None
            ops.append('/'); a = a[1]
    if X.children(a) or len(ops) < 2:
        return None
    return ''.join(reversed(ops))


def classify(ctx, vals, text, ast, status, rng):
    """returns (key, witness): shrink the AST to a minimal failing one (more valuations, so that the shrinking is
    stable), then name the mechanism"""
    env = ctx['env']
    more = list(vals) + [env.valuation(rng) for _ in range(24)]
    sh = Shrinker(ctx, more)
    canon = sh.fails(ast)
    if canon is None:
        # the canonical spelling of the same AST is read correctly: the trigger is lexical (case, spacing, spelling)
        glued = re.compile(r'(\d)(\.(?:eq|ne|lt|le|gt|ge|and|or|not|eqv|neqv)\.)', re.I)
        if glued.search(text):
            st2, _d, got, _t = pe_values(glued.sub(r'\1 \2', text), ctx, vals)
            if st2 == 'ok' and same(values_of(ctx['ev'], ast, vals), got) is None:
                return 'parse:digit-glued-to-dot-operator', {'repaired_by_inserting_a_blank': glued.sub(r'\1 \2', text)}
        if re.search(r',\s*jprb\s*\)', text, re.I):
            fixed = re.sub(r',\s*jprb\s*\)', ', kind=jprb)', text, flags=re.I)
            st2, _d, got, ty2 = pe_values(fixed, ctx, vals)
            if st2 == 'ok' and same(values_of(ctx['ev'], ast, vals), got) is None and ty2 == X.static_type_safe(ast, env):
                return 'parse:type:cast-positional-kind-dropped', {'repaired_by_kind_keyword': fixed}
        feats = []
        if re.search(r'[A-Z]', text):
            feats.append('upper-case')
        if re.search(r'\.(eq|ne|lt|le|gt|ge)\.', text, re.I):
            feats.append('dot-relop')
        if re.search(r'\S\.(and|or|not)\.|\.(and|or|not)\.\S', text, re.I):
            feats.append('no-space-around-logical-op')
        if re.search(r'(?<![\w.])\.\d|\d\.(?![\d_a-z])', text, re.I):
            feats.append('real-literal-without-leading-or-trailing-digits')
        if re.search(r'\d[ed][+-]?\d', text, re.I):
            feats.append('exponent-literal')
        if re.search(r'^\s*\+|\(\s*\+', text):
            feats.append('unary-plus')
        return (f'parse:{status.split(":")[0]}:spelling-only({"+".join(feats) or "unknown"})',
                {'canonical_text_ok': X.surface_text(ast)})
    small = sh.shrink(ast)
    st, detail, stext = sh.fails(small)
    wit = {'minimal_text': stext, 'minimal_ast': str(small)[:500], 'detail': detail, 'shrink_tests': sh.tests}
    ty = TYCLASS[X.static_type_safe(small, env)]
    if st.startswith('exception') or st == 'illtyped':
        for rx, name in LEX:
            if rx.search(stext):
                return f'parse:{st.split(":")[0]}:{name}', wit
    if st == 'type' and small[0] == 'real' and 'd' in small[1].lower():
        return 'parse:type:d-exponent-literal-read-as-default-real', wit
    m = COMP_RX.search(stext)
    if m and any(leaf_shape(n) in ('c', 'ca') for _p, n in X.subtrees(small)):
        return f'parse:component-swallows-operand-after({m.group(1)})', wit
    if small[0] == 'neg' and leftmost_factor(small[1])[0] == 'pow' and st == 'value':
        if sh.fails(('neg', _wrap_leftmost_pow(small[1]))) is None:
            return 'parse:unary-minus-binds-tighter-than-power', wit
    ops = mulchain_ops(small)
    if ops and st == 'value':
        i = ops.find('*')
        if i >= 0 and len(ops) - i >= 3 and '/' in ops[i + 1:]:
            # known mechanism: a '*' followed by two or more further * / operators, one of them a division
            wit['operators'] = ops
            return f'parse:mul-div-chain-regrouped(times-then-two-or-more-ops-with-division):{ty}', wit
        return f'parse:mul-div-chain-regrouped({ops}):{ty}', wit
    if re.search(r'\.n?eqv\.', stext, re.I):
        return f'parse:{st.split(":")[0]}:eqv-operator', wit
    return f'parse:{st}:{shape(small)}:{ty}', wit


# ------------------------------------------------------------------------------------------------------------
def run_case(idx, rng, tier, ctx):
    env, ev = ctx['env'], ctx['ev']
    hostile = rng.random() < 0.25
    use_gfortran = rng.random() < 0.3
    vals = [env.valuation(rng) for _ in range(NVAL)]
    cnt = {}
    bump = lambda k, n=1: cnt.__setitem__(k, cnt.get(k, 0) + n)
    res = {'sig': None, 'nontrivial': False, 'violations': [], 'inconclusive': None, 'features': [], 'counters': cnt}
    feats = {'hostile' if hostile else 'main'}
    items = []
    tries = 0
    while len(items) < NSTR and tries < NSTR * 6:
        tries += 1
        flags = {'hostile': hostile, 'depth': rng.choice([0, 1, 1, 2]), 'redundant_parens': rng.choice([0.0, 0.15, 0.3]),
                 'upper': rng.choice([0.0, 0.15]), 'spaces': rng.random() < 0.85}
        text, ast, fs = X.TextGen(rng, env, flags).generate()
        if len(text) > 220:
            continue
        try:
            exp = values_of(ev, ast, vals)
        except X.EvalError as e:
            res['inconclusive'] = f'generator produced an ill-typed string {text!r}: {e}'
            return res
        if ndefined(exp) < MINVALID:
            bump('strings_regenerated_undefined')
            continue
        items.append({'text': text, 'ast': ast, 'exp': exp})
        feats.update(fs)
    res['sig'] = sighash([it['text'] for it in items])
    if len(items) < NSTR // 2:
        res['inconclusive'] = f'generator produced only {len(items)} usable strings'
        return res
    # reference 1: FP frontend (the property's reference)
    fp = X.fp_parse([it['text'] for it in items], env, [X.static_type_safe(it['ast'], env) for it in items])
    for it, t in zip(items, fp):
        it['ref'] = None
        if isinstance(t, Exception):
            bump('discarded_frontend_rejects_string')
            it['skip'] = f'FP frontend rejects: {t}'[:200]
            continue
        try:
            fa = X.from_loki(t)
            fv = values_of(ev, fa, vals)
            it['refty'] = X.static_type(fa, env)
            if it['refty'] != X.static_type(it['ast'], env):
                raise X.IllTyped(f'frontend type {it["refty"]} differs from the grammar type')
        except X.EvalError as e:
            bump('discarded_frontend_tree_not_evaluable')
            it['skip'] = f'frontend tree not evaluable: {e}'[:200]
            continue
        bad = same(it['exp'], fv) or same(fv, it['exp'])
        if bad:
            bump('discarded_frontend_vs_grammar_disagree')
            it['skip'] = f'frontend and generating grammar disagree: {bad}'
            continue
        bump('frontend_agrees_with_grammar')
        it['ref'] = fv
    # reference 2 (sample): gfortran
    wd = ctx['scratch'] / f'c{idx}'
    try:
        if use_gfortran:
            live = [it for it in items if it['ref'] is not None]
            fb = X.FortranBatch(env, vals, wd)
            out = fb.evaluate([it['text'] for it in live], [[isinstance(x, X.Val) for x in it['ref']] for it in live])
            bump('gfortran_batches', fb.compiles)
            for it, o in zip(live, out):
                if not isinstance(o, dict):
                    bump('discarded_gfortran_rejects_string')
                    it['ref'], it['skip'] = None, 'gfortran rejects the string'
                    continue
                bad = None
                for vi, x in enumerate(it['ref']):
                    if isinstance(x, X.Val) and not X.agree(x, o.get(vi)):
                        bad = f'valuation {vi}: frontend tree={x.v!r} gfortran={o.get(vi)!r}'
                        break
                if bad:
                    res['inconclusive'] = f'gfortran disagrees with the frontend reading of {it["text"]!r}: {bad}'
                    return res
                bump('gfortran_confirmed_frontend_reading')
    except X.BatchError as e:
        res['inconclusive'] = f'batch service: {e}'
        return res
    finally:
        shutil.rmtree(wd, ignore_errors=True)
    # the parser under test
    compared = 0
    for it in items:
        if it['ref'] is None:
            continue
        st, detail, got, ty = pe_values(it['text'], ctx, vals)
        compared += 1
        bump('strings_compared')
        bump('valuations_compared', ndefined(it['ref']))
        verdict = None
        if st != 'ok':
            verdict = f'{st}: {detail}'
        else:
            bad = same(it['ref'], got)
            if bad:
                st, verdict = 'value', bad
            elif ty != it['refty']:
                st, verdict = 'type', f'frontend tree has type {it["refty"]}, parse_expr tree has type {ty}'
        if verdict is None:
            continue
        bump('mismatching_strings')
        key, wit = classify(ctx, vals, it['text'], it['ast'], st, rng)
        wit = dict(wit, text=it['text'], grammar_ast=str(it['ast'])[:800], verdict=verdict[:400])
        wit['slice'] = 'hostile' if hostile else 'main'
        bump('mismatches_in_' + wit['slice'] + '_slice')
        res['violations'].append({'key': key, 'msg': f'parse_expr({it["text"]!r}): {verdict}'[:400], 'witness': wit})
    res['nontrivial'] = compared >= NSTR // 2
    res['features'] = sorted(feats)
    res['sample'] = {'hostile': hostile, 'gfortran': use_gfortran, 'strings': [it['text'] for it in items[:4]],
                     'skipped': [it.get('skip') for it in items if it.get('skip')][:3]}
    return res


def finalize(agg, tier):
    c = agg['counters']
    disc = sum(v for k, v in c.items() if k.startswith('discarded_'))
    tot = disc + c.get('strings_compared', 0)
    agg['extra_coverage'] = {'discarded_strings': disc, 'generated_strings': tot}
    if tot and disc > 0.01 * tot:
        agg.setdefault('extra_inconclusive', []).append(
            f'{disc}/{tot} strings discarded because the references (FP frontend, generating grammar, gfortran) disagree')
